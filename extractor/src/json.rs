// Minimal JSON value + writer (no dependencies).
pub enum J {
    Null,
    B(bool),
    I(i128),
    U(u128),
    S(String),
    A(Vec<J>),
    O(Vec<(String, J)>),
}

fn esc(s: &str, out: &mut String) {
    out.push('"');
    for c in s.chars() {
        match c {
            '"' => out.push_str("\\\""),
            '\\' => out.push_str("\\\\"),
            '\n' => out.push_str("\\n"),
            '\r' => out.push_str("\\r"),
            '\t' => out.push_str("\\t"),
            c if (c as u32) < 0x20 => out.push_str(&format!("\\u{:04x}", c as u32)),
            c => out.push(c),
        }
    }
    out.push('"');
}

impl J {
    pub fn write(&self, out: &mut String) {
        match self {
            J::Null => out.push_str("null"),
            J::B(b) => out.push_str(if *b { "true" } else { "false" }),
            J::I(i) => out.push_str(&i.to_string()),
            J::U(u) => out.push_str(&u.to_string()),
            J::S(s) => esc(s, out),
            J::A(v) => {
                out.push('[');
                for (i, x) in v.iter().enumerate() {
                    if i > 0 {
                        out.push(',');
                    }
                    x.write(out);
                }
                out.push(']');
            }
            J::O(v) => {
                out.push('{');
                for (i, (k, x)) in v.iter().enumerate() {
                    if i > 0 {
                        out.push(',');
                    }
                    esc(k, out);
                    out.push(':');
                    x.write(out);
                }
                out.push('}');
            }
        }
    }
}
