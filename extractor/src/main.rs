// chessfacts: a rustc_private driver that dumps, for selected crates of codyjk/chess, the
// type-checked program as JSON facts: items (ADTs, fns, impls), MIR bodies with resolved
// callees and typed places, and const-evaluated constants.  It is injected with RUSTC_WRAPPER
// (argv[1] = real rustc).  For every other crate it simply execs the real rustc.
//
// Environment:
//   CHESSFACTS_OUT     directory to write <crate>-<kind>.json into (required for target crates)
//   CHESSFACTS_NONCE   opaque string copied into every fact file
//   CHESSFACTS_CRATES  comma list of crate names to analyse
//                      (default: common,precompile,build_script_main,chess)
#![feature(rustc_private)]
#![allow(clippy::all)]

extern crate rustc_abi;
extern crate rustc_data_structures;
extern crate rustc_driver;
extern crate rustc_hir;
extern crate rustc_interface;
extern crate rustc_middle;
extern crate rustc_span;

mod json;

use json::J;
use rustc_hir::def::DefKind;
use rustc_hir::def_id::{DefId, LOCAL_CRATE};
use rustc_middle::mir::interpret::{GlobalId, Scalar};
use rustc_middle::mir::{
    self, AggregateKind, BasicBlockData, Body, ConstValue, Operand, Place, ProjectionElem, Rvalue,
    StatementKind, TerminatorKind,
};
use rustc_middle::ty::{self, Instance, Ty, TyCtxt, TypingEnv};
use std::os::unix::process::CommandExt;

struct Cb {
    out_dir: String,
    nonce: String,
}

fn o(v: Vec<(&str, J)>) -> J {
    J::O(v.into_iter().map(|(k, v)| (k.to_string(), v)).collect())
}
fn s<T: ToString>(x: T) -> J {
    J::S(x.to_string())
}

fn def_path(tcx: TyCtxt<'_>, d: DefId) -> String {
    // crate-qualified, no generic args
    let krate = tcx.crate_name(d.krate).to_string();
    let p = tcx.def_path(d).to_string_no_crate_verbose();
    format!("{}{}", krate, p)
}

fn pretty_path(tcx: TyCtxt<'_>, d: DefId) -> String {
    tcx.def_path_str(d)
}

fn span_str(tcx: TyCtxt<'_>, sp: rustc_span::Span) -> String {
    tcx.sess.source_map().span_to_diagnostic_string(sp)
}

fn scalar_int_json<'tcx>(ty: Ty<'tcx>, si: ty::ScalarInt) -> J {
    let size = si.size();
    match ty.kind() {
        ty::Bool => J::B(si.to_bits(size) != 0),
        ty::Int(_) => J::I(si.to_int(size)),
        ty::Uint(_) => J::U(si.to_bits(size)),
        ty::Char => {
            let c = char::from_u32(si.to_bits(size) as u32).unwrap_or('\u{fffd}');
            o(vec![("char", J::S(c.to_string()))])
        }
        _ => J::U(si.to_bits(size)),
    }
}

fn valtree_json<'tcx>(tcx: TyCtxt<'tcx>, ty: Ty<'tcx>, vt: ty::ValTree<'tcx>) -> J {
    match ty.kind() {
        ty::Bool | ty::Int(_) | ty::Uint(_) | ty::Char => match vt.try_to_leaf() {
            Some(l) => scalar_int_json(ty, l),
            None => J::Null,
        },
        ty::Ref(_, inner, _) => valtree_json(tcx, *inner, vt),
        ty::Str => {
            let bytes: Vec<u8> = vt
                .to_branch()
                .iter()
                .map(|c| c.to_value().valtree.try_to_leaf().map(|l| l.to_u8()).unwrap_or(b'?'))
                .collect();
            J::S(String::from_utf8_lossy(&bytes).to_string())
        }
        ty::Array(elem, _) | ty::Slice(elem) => J::A(
            vt.to_branch()
                .iter()
                .map(|c| valtree_json(tcx, *elem, c.to_value().valtree))
                .collect(),
        ),
        ty::Tuple(tys) => o(vec![(
            "tuple",
            J::A(vt
                .to_branch()
                .iter()
                .zip(tys.iter())
                .map(|(c, t)| valtree_json(tcx, t, c.to_value().valtree))
                .collect()),
        )]),
        ty::Adt(def, args) => {
            let br = vt.to_branch();
            let (variant, fields_vt): (_, Vec<_>) = if def.is_enum() {
                let idx = br[0].to_value().valtree.try_to_leaf().map(|l| l.to_u32()).unwrap_or(0);
                (
                    def.variant(rustc_abi::VariantIdx::from_u32(idx)),
                    br.iter().skip(1).collect(),
                )
            } else {
                (def.non_enum_variant(), br.iter().collect())
            };
            let mut fields = Vec::new();
            for (f, c) in variant.fields.iter().zip(fields_vt.iter()) {
                let fty = f.ty(tcx, args);
                fields.push((f.name.to_string(), valtree_json(tcx, fty, c.to_value().valtree)));
            }
            o(vec![
                ("adt", s(pretty_path(tcx, def.did()))),
                ("variant", s(variant.name)),
                ("fields", J::O(fields)),
            ])
        }
        _ => o(vec![("opaque", s(ty))]),
    }
}

fn eval_global<'tcx>(
    tcx: TyCtxt<'tcx>,
    instance: Instance<'tcx>,
    promoted: Option<mir::Promoted>,
    ty: Ty<'tcx>,
) -> J {
    let gid = GlobalId { instance, promoted };
    let env = TypingEnv::fully_monomorphized();
    match tcx.eval_to_valtree(env.as_query_input(gid)) {
        Ok(vt) => valtree_json(tcx, ty, vt),
        Err(_) => o(vec![("novaltree", s(ty))]),
    }
}

fn constvalue_json<'tcx>(tcx: TyCtxt<'tcx>, cv: ConstValue, ty: Ty<'tcx>, depth: u32) -> J {
    match cv {
        ConstValue::Scalar(Scalar::Int(si)) => {
            // newtype structs with scalar ABI end up here too
            match ty.kind() {
                ty::Adt(..) | ty::Tuple(..) => destructure_json(tcx, cv, ty, depth),
                _ => scalar_int_json(ty, si),
            }
        }
        ConstValue::Scalar(Scalar::Ptr(ptr, _)) => match ty.kind() {
            ty::Ref(_, inner, _) => {
                // byte strings (&[u8; N]): format_args! templates and b"..." literals
                if let ty::Array(elem, ct_len) = inner.kind() {
                    if let ty::Uint(ty::UintTy::U8) = elem.kind() {
                        if let Some(len) = ct_len.try_to_target_usize(tcx) {
                            let (prov, offset) = ptr.prov_and_relative_offset();
                            if let Some(rustc_middle::mir::interpret::GlobalAlloc::Memory(alloc)) =
                                tcx.try_get_global_alloc(prov.alloc_id())
                            {
                                let range = rustc_middle::mir::interpret::AllocRange {
                                    start: offset,
                                    size: rustc_abi::Size::from_bytes(len),
                                };
                                if let Ok(bytes) = alloc.inner().get_bytes_strip_provenance(&tcx, range) {
                                    return o(vec![(
                                        "bytes",
                                        J::A(bytes.iter().map(|b| J::U(*b as u128)).collect()),
                                    )]);
                                }
                            }
                        }
                    }
                }
                // a reference to a `static` item: name it, so that the analysis knows which functions touch which global
                let (prov, _off) = ptr.prov_and_relative_offset();
                if let Some(rustc_middle::mir::interpret::GlobalAlloc::Static(sdid)) = tcx.try_get_global_alloc(prov.alloc_id()) {
                    return o(vec![("ptr", s(ty)), ("static", s(pretty_path(tcx, sdid)))]);
                }
                o(vec![("ptr", s(ty))])
            }
            ty::RawPtr(..) => o(vec![("ptr", s(ty))]),
            _ => destructure_json(tcx, cv, ty, depth),
        },
        ConstValue::ZeroSized => match ty.kind() {
            ty::FnDef(d, _) => o(vec![("fn", s(pretty_path(tcx, *d)))]),
            ty::Adt(..) | ty::Tuple(..) | ty::Array(..) => destructure_json(tcx, cv, ty, depth),
            _ => o(vec![("zst", s(ty))]),
        },
        ConstValue::Slice { .. } => {
            if let Some(bytes) = cv.try_get_slice_bytes_for_diagnostics(tcx) {
                J::S(String::from_utf8_lossy(bytes).to_string())
            } else {
                o(vec![("slice", s(ty))])
            }
        }
        ConstValue::Indirect { .. } => destructure_json(tcx, cv, ty, depth),
    }
}

fn destructure_json<'tcx>(tcx: TyCtxt<'tcx>, cv: ConstValue, ty: Ty<'tcx>, depth: u32) -> J {
    if depth > 6 {
        return o(vec![("deep", s(ty))]);
    }
    match ty.kind() {
        ty::Adt(..) | ty::Tuple(..) | ty::Array(..) => {}
        _ => return o(vec![("opaque", s(ty))]),
    }
    let Some(d) = tcx.try_destructure_mir_constant_for_user_output(cv, ty) else {
        return o(vec![("opaque", s(ty))]);
    };
    let vals: Vec<J> =
        d.fields.iter().map(|(fcv, fty)| constvalue_json(tcx, *fcv, *fty, depth + 1)).collect();
    match ty.kind() {
        ty::Array(..) => J::A(vals),
        ty::Tuple(..) => o(vec![("tuple", J::A(vals))]),
        ty::Adt(def, _) => {
            let variant = match d.variant {
                Some(v) => def.variant(v),
                None => def.non_enum_variant(),
            };
            let fields: Vec<(String, J)> =
                variant.fields.iter().zip(vals.into_iter()).map(|(f, v)| (f.name.to_string(), v)).collect();
            o(vec![
                ("adt", s(pretty_path(tcx, def.did()))),
                ("variant", s(variant.name)),
                ("fields", J::O(fields)),
            ])
        }
        _ => unreachable!(),
    }
}

struct BodyCx<'a, 'tcx> {
    tcx: TyCtxt<'tcx>,
    body: &'a Body<'tcx>,
    env: TypingEnv<'tcx>,
}

impl<'a, 'tcx> BodyCx<'a, 'tcx> {
    fn const_json(&self, c: &mir::ConstOperand<'tcx>) -> J {
        let tcx = self.tcx;
        let ty = c.const_.ty();
        let mut fields: Vec<(&str, J)> = vec![("k", s("const")), ("ty", s(ty))];
        if let ty::FnDef(d, args) = ty.kind() {
            fields.push(("fn", s(pretty_path(tcx, *d))));
            fields.push(("fn_args", J::A(args.iter().map(|a| s(a)).collect())));
        }
        match c.const_ {
            mir::Const::Unevaluated(uv, _) => {
                fields.push(("path", s(pretty_path(tcx, uv.def))));
                if let Some(p) = uv.promoted {
                    fields.push(("promoted", J::U(p.as_u32() as u128)));
                }
                let val = match Instance::try_resolve(tcx, self.env, uv.def, uv.args) {
                    Ok(Some(inst)) => eval_global(tcx, inst, uv.promoted, ty),
                    _ => o(vec![("unresolved", s(ty))]),
                };
                fields.push(("value", val));
            }
            mir::Const::Val(cv, ty) => {
                fields.push(("value", constvalue_json(tcx, cv, ty, 0)));
            }
            mir::Const::Ty(ty, ct) => {
                let v = match ct.try_to_value() {
                    Some(v) => valtree_json(tcx, ty, v.valtree),
                    None => o(vec![("tyconst", s(ct))]),
                };
                fields.push(("value", v));
            }
        }
        o(fields)
    }

    fn place_json(&self, p: &Place<'tcx>) -> J {
        let tcx = self.tcx;
        let mut pty = mir::PlaceTy::from_ty(self.body.local_decls[p.local].ty);
        let mut proj = Vec::new();
        for elem in p.projection.iter() {
            let e = match elem {
                ProjectionElem::Deref => s("deref"),
                ProjectionElem::Field(f, fty) => {
                    let (adt, name) = match pty.ty.kind() {
                        ty::Adt(def, _) => {
                            let v = pty.variant_index.unwrap_or(rustc_abi::FIRST_VARIANT);
                            let var = def.variant(v);
                            (
                                pretty_path(tcx, def.did()),
                                var.fields[f].name.to_string(),
                            )
                        }
                        ty::Closure(d, _) => (pretty_path(tcx, *d), format!("upvar{}", f.as_u32())),
                        _ => (pty.ty.to_string(), format!("{}", f.as_u32())),
                    };
                    o(vec![("field", s(name)), ("of", s(adt)), ("ty", s(fty))])
                }
                ProjectionElem::Index(l) => o(vec![("index", J::U(l.as_u32() as u128))]),
                ProjectionElem::ConstantIndex { offset, min_length, from_end } => o(vec![
                    ("const_index", J::U(offset as u128)),
                    ("min_length", J::U(min_length as u128)),
                    ("from_end", J::B(from_end)),
                ]),
                ProjectionElem::Subslice { from, to, from_end } => o(vec![
                    ("subslice", J::A(vec![J::U(from as u128), J::U(to as u128)])),
                    ("from_end", J::B(from_end)),
                ]),
                ProjectionElem::Downcast(name, idx) => o(vec![
                    ("downcast", match name { Some(n) => s(n), None => J::Null }),
                    ("variant_idx", J::U(idx.as_u32() as u128)),
                ]),
                ProjectionElem::OpaqueCast(t) => o(vec![("opaque_cast", s(t))]),
                ProjectionElem::UnwrapUnsafeBinder(t) => o(vec![("unwrap_binder", s(t))]),
            };
            proj.push(e);
            pty = pty.projection_ty(tcx, elem);
        }
        o(vec![("local", J::U(p.local.as_u32() as u128)), ("proj", J::A(proj))])
    }

    fn operand_json(&self, op: &Operand<'tcx>) -> J {
        match op {
            Operand::Copy(p) => o(vec![("k", s("copy")), ("place", self.place_json(p))]),
            Operand::Move(p) => o(vec![("k", s("move")), ("place", self.place_json(p))]),
            Operand::Constant(c) => self.const_json(c),
            other => o(vec![("k", s("other")), ("text", s(format!("{:?}", other)))]),
        }
    }

    fn rvalue_json(&self, rv: &Rvalue<'tcx>) -> J {
        let tcx = self.tcx;
        match rv {
            Rvalue::Use(op, _) => o(vec![("k", s("use")), ("op", self.operand_json(op))]),
            Rvalue::Repeat(op, n) => o(vec![
                ("k", s("repeat")),
                ("op", self.operand_json(op)),
                ("count", s(n)),
            ]),
            Rvalue::Ref(_, bk, p) => o(vec![
                ("k", s("ref")),
                ("mut", J::B(matches!(bk, mir::BorrowKind::Mut { .. }))),
                ("place", self.place_json(p)),
            ]),
            Rvalue::RawPtr(kind, p) => o(vec![
                ("k", s("rawptr")),
                ("mut", J::B(matches!(kind, mir::RawPtrKind::Mut))),
                ("place", self.place_json(p)),
            ]),
            Rvalue::ThreadLocalRef(d) => o(vec![("k", s("tls")), ("path", s(def_path(tcx, *d)))]),
            Rvalue::Cast(kind, op, ty) => o(vec![
                ("k", s("cast")),
                ("kind", s(format!("{:?}", kind))),
                ("op", self.operand_json(op)),
                ("ty", s(ty)),
            ]),
            Rvalue::BinaryOp(bop, ops) => o(vec![
                ("k", s("binop")),
                ("op", s(format!("{:?}", bop))),
                ("a", self.operand_json(&ops.0)),
                ("b", self.operand_json(&ops.1)),
            ]),
            Rvalue::UnaryOp(uop, op) => o(vec![
                ("k", s("unop")),
                ("op", s(format!("{:?}", uop))),
                ("a", self.operand_json(op)),
            ]),
            Rvalue::Discriminant(p) => {
                let pty = p.ty(self.body, tcx).ty;
                o(vec![("k", s("discr")), ("place", self.place_json(p)), ("of", s(pty))])
            }
            Rvalue::Aggregate(kind, ops) => {
                let mut f: Vec<(&str, J)> = vec![("k", s("aggregate"))];
                match &**kind {
                    AggregateKind::Array(t) => {
                        f.push(("agg", s("array")));
                        f.push(("elem_ty", s(t)));
                    }
                    AggregateKind::Tuple => f.push(("agg", s("tuple"))),
                    AggregateKind::Adt(d, v, _, _, _) => {
                        let def = tcx.adt_def(*d);
                        let var = def.variant(*v);
                        f.push(("agg", s("adt")));
                        f.push(("adt", s(pretty_path(tcx, *d))));
                        f.push(("variant", s(var.name)));
                        f.push(("variant_idx", J::U(v.as_u32() as u128)));
                        f.push((
                            "field_names",
                            J::A(var.fields.iter().map(|x| s(x.name)).collect()),
                        ));
                    }
                    AggregateKind::Closure(d, _) => {
                        f.push(("agg", s("closure")));
                        f.push(("closure", s(pretty_path(tcx, *d))));
                    }
                    other => {
                        f.push(("agg", s("other")));
                        f.push(("text", s(format!("{:?}", other))));
                    }
                }
                f.push(("ops", J::A(ops.iter().map(|x| self.operand_json(x)).collect())));
                o(f)
            }
            Rvalue::CopyForDeref(p) => o(vec![
                ("k", s("use")),
                ("op", o(vec![("k", s("copy")), ("place", self.place_json(p))])),
            ]),
            other => o(vec![("k", s("other")), ("text", s(format!("{:?}", other)))]),
        }
    }

    fn callee_json(&self, func: &Operand<'tcx>) -> J {
        let tcx = self.tcx;
        let fty = func.ty(self.body, tcx);
        match fty.kind() {
            ty::FnDef(d, args) => {
                let mut f: Vec<(&str, J)> = vec![
                    ("declared", s(pretty_path(tcx, *d))),
                    ("args", J::A(args.iter().map(|a| s(a)).collect())),
                ];
                match Instance::try_resolve(tcx, self.env, *d, args) {
                    Ok(Some(inst)) => {
                        let rd = inst.def_id();
                        f.push(("path", s(def_path(tcx, rd))));
                        f.push(("pretty", s(pretty_path(tcx, rd))));
                        f.push(("resolved", J::B(true)));
                        f.push(("local", J::B(rd.is_local())));
                        let kind = match inst.def {
                            ty::InstanceKind::Item(_) => "item",
                            ty::InstanceKind::Virtual(..) => "virtual",
                            ty::InstanceKind::ClosureOnceShim { .. } => "closure_once_shim",
                            ty::InstanceKind::FnPtrShim(..) => "fnptr_shim",
                            ty::InstanceKind::Intrinsic(_) => "intrinsic",
                            ty::InstanceKind::CloneShim(..) => "clone_shim",
                            ty::InstanceKind::DropGlue(..) => "drop_glue",
                            _ => "other",
                        };
                        f.push(("inst", s(kind)));
                        f.push(("inst_args", J::A(inst.args.iter().map(|a| s(a)).collect())));
                        // self type for methods (first generic arg of trait methods / impl self ty)
                        if let Some(tr) = tcx.trait_of_assoc(*d) {
                            f.push(("trait", s(pretty_path(tcx, tr))));
                            if let Some(st) = args.types().next() {
                                f.push(("self_ty", s(st)));
                            }
                        }
                    }
                    _ => {
                        f.push(("path", s(def_path(tcx, *d))));
                        f.push(("pretty", s(pretty_path(tcx, *d))));
                        f.push(("resolved", J::B(false)));
                        f.push(("local", J::B(d.is_local())));
                        if let Some(tr) = tcx.trait_of_assoc(*d) {
                            f.push(("trait", s(pretty_path(tcx, tr))));
                            if let Some(st) = args.types().next() {
                                f.push(("self_ty", s(st)));
                            }
                        }
                    }
                }
                o(f)
            }
            _ => o(vec![
                ("path", J::Null),
                ("resolved", J::B(false)),
                ("indirect", self.operand_json(func)),
                ("fn_ty", s(fty)),
            ]),
        }
    }

    fn block_json(&self, id: usize, bb: &BasicBlockData<'tcx>) -> J {
        let tcx = self.tcx;
        let mut stmts = Vec::new();
        for st in &bb.statements {
            let sp = st.source_info.span;
            match &st.kind {
                StatementKind::Assign(b) => {
                    let (place, rv) = &**b;
                    stmts.push(o(vec![
                        ("k", s("assign")),
                        ("place", self.place_json(place)),
                        ("rv", self.rvalue_json(rv)),
                        ("span", s(span_str(tcx, sp))),
                        ("exp", J::B(sp.from_expansion())),
                    ]));
                }
                StatementKind::SetDiscriminant { place, variant_index } => {
                    stmts.push(o(vec![
                        ("k", s("set_discr")),
                        ("place", self.place_json(place)),
                        ("variant_idx", J::U(variant_index.as_u32() as u128)),
                    ]));
                }
                StatementKind::StorageLive(l) => {
                    stmts.push(o(vec![("k", s("live")), ("local", J::U(l.as_u32() as u128))]))
                }
                StatementKind::StorageDead(l) => {
                    stmts.push(o(vec![("k", s("dead")), ("local", J::U(l.as_u32() as u128))]))
                }
                StatementKind::Intrinsic(i) => {
                    stmts.push(o(vec![("k", s("intrinsic")), ("text", s(format!("{:?}", i)))]))
                }
                _ => {}
            }
        }
        let term = bb.terminator();
        let tsp = term.source_info.span;
        let bbj = |b: mir::BasicBlock| J::U(b.as_u32() as u128);
        let unwind_j = |u: &mir::UnwindAction| match u {
            mir::UnwindAction::Cleanup(b) => bbj(*b),
            _ => J::Null,
        };
        let mut t: Vec<(&str, J)> = Vec::new();
        match &term.kind {
            TerminatorKind::Goto { target } => {
                t.push(("k", s("goto")));
                t.push(("target", bbj(*target)));
            }
            TerminatorKind::SwitchInt { discr, targets } => {
                t.push(("k", s("switch")));
                t.push(("discr", self.operand_json(discr)));
                t.push(("discr_ty", s(discr.ty(self.body, tcx))));
                t.push((
                    "targets",
                    J::A(targets.iter().map(|(v, b)| J::A(vec![J::U(v), bbj(b)])).collect()),
                ));
                t.push(("otherwise", bbj(targets.otherwise())));
            }
            TerminatorKind::Return => t.push(("k", s("return"))),
            TerminatorKind::Unreachable => t.push(("k", s("unreachable"))),
            TerminatorKind::UnwindResume => t.push(("k", s("resume"))),
            TerminatorKind::UnwindTerminate(_) => t.push(("k", s("abort"))),
            TerminatorKind::Drop { place, target, unwind, .. } => {
                t.push(("k", s("drop")));
                t.push(("place", self.place_json(place)));
                t.push(("place_ty", s(place.ty(self.body, tcx).ty)));
                t.push(("target", bbj(*target)));
                t.push(("unwind", unwind_j(unwind)));
            }
            TerminatorKind::Call { func, args, destination, target, unwind, .. } => {
                t.push(("k", s("call")));
                t.push(("callee", self.callee_json(func)));
                t.push(("args", J::A(args.iter().map(|a| self.operand_json(&a.node)).collect())));
                t.push((
                    "arg_tys",
                    J::A(args.iter().map(|a| s(a.node.ty(self.body, tcx))).collect()),
                ));
                t.push(("dest", self.place_json(destination)));
                t.push(("target", match target { Some(b) => bbj(*b), None => J::Null }));
                t.push(("unwind", unwind_j(unwind)));
            }
            TerminatorKind::Assert { cond, expected, msg, target, unwind } => {
                t.push(("k", s("assert")));
                t.push(("cond", self.operand_json(cond)));
                t.push(("expected", J::B(*expected)));
                let kind = match &**msg {
                    mir::AssertKind::Overflow(op, ..) => format!("Overflow({:?})", op),
                    mir::AssertKind::OverflowNeg(_) => "OverflowNeg".to_string(),
                    mir::AssertKind::DivisionByZero(_) => "DivisionByZero".to_string(),
                    mir::AssertKind::RemainderByZero(_) => "RemainderByZero".to_string(),
                    mir::AssertKind::BoundsCheck { .. } => "BoundsCheck".to_string(),
                    _ => "Other".to_string(),
                };
                t.push(("msg", s(kind)));
                t.push(("target", bbj(*target)));
                t.push(("unwind", unwind_j(unwind)));
            }
            other => {
                t.push(("k", s("other")));
                t.push(("text", s(format!("{:?}", other))));
                t.push((
                    "succ",
                    J::A(term.successors().map(|b| bbj(b)).collect()),
                ));
            }
        }
        t.push(("span", s(span_str(tcx, tsp))));
        t.push(("exp", J::B(tsp.from_expansion())));
        o(vec![
            ("id", J::U(id as u128)),
            ("cleanup", J::B(bb.is_cleanup)),
            ("stmts", J::A(stmts)),
            ("term", o(t)),
        ])
    }
}

fn fn_json<'tcx>(tcx: TyCtxt<'tcx>, ldid: rustc_hir::def_id::LocalDefId) -> Option<J> {
    let did = ldid.to_def_id();
    let kind = tcx.def_kind(did);
    if !matches!(kind, DefKind::Fn | DefKind::AssocFn | DefKind::Closure) {
        return None;
    }
    if !tcx.is_mir_available(did) {
        return None;
    }
    let body = tcx.optimized_mir(did);
    let env = TypingEnv::post_analysis(tcx, did);
    let cx = BodyCx { tcx, body, env };
    let mut f: Vec<(&str, J)> = Vec::new();
    f.push(("path", s(def_path(tcx, did))));
    f.push(("pretty", s(pretty_path(tcx, did))));
    f.push(("kind", s(format!("{:?}", kind))));
    f.push(("span", s(span_str(tcx, tcx.def_span(did)))));
    f.push(("exp", J::B(tcx.def_span(did).from_expansion())));
    if matches!(kind, DefKind::Fn | DefKind::AssocFn) {
        let vis = tcx.visibility(did);
        f.push(("vis", s(if vis.is_public() { "pub".to_string() } else { format!("{:?}", vis) })));
        let sig = tcx.fn_sig(did).instantiate_identity().skip_norm_wip();
        f.push(("sig", s(sig)));
    }
    // parent impl / trait
    if let Some(parent) = tcx.opt_parent(did) {
        f.push(("parent", s(def_path(tcx, parent))));
        if let DefKind::Impl { of_trait } = tcx.def_kind(parent) {
            let self_ty = tcx.type_of(parent).instantiate_identity().skip_norm_wip();
            f.push(("impl_self", s(self_ty)));
            if of_trait {
                let tr = tcx.impl_trait_ref(parent).instantiate_identity().skip_norm_wip();
                f.push(("impl_trait", s(pretty_path(tcx, tr.def_id))));
                f.push(("impl_trait_pretty", s(tr)));
            }
            f.push(("derived", J::B(tcx.is_automatically_derived(parent))));
        }
    }
    if kind == DefKind::Closure {
        let parent = tcx.typeck_root_def_id(did);
        f.push(("closure_of", s(pretty_path(tcx, parent))));
    }
    f.push(("arg_count", J::U(body.arg_count as u128)));
    // locals
    let mut names: Vec<Option<String>> = vec![None; body.local_decls.len()];
    let mut upvar_names: Vec<(String, String)> = Vec::new();
    for vdi in &body.var_debug_info {
        if let mir::VarDebugInfoContents::Place(p) = &vdi.value {
            if p.projection.is_empty() {
                names[p.local.as_usize()] = Some(vdi.name.to_string());
            } else {
                upvar_names.push((vdi.name.to_string(), format!("{:?}", p)));
            }
        }
    }
    let locals: Vec<J> = body
        .local_decls
        .iter_enumerated()
        .map(|(l, d)| {
            o(vec![
                ("id", J::U(l.as_u32() as u128)),
                ("ty", s(d.ty)),
                ("name", match &names[l.as_usize()] { Some(n) => s(n), None => J::Null }),
                ("mut", J::B(d.mutability.is_mut())),
            ])
        })
        .collect();
    f.push(("locals", J::A(locals)));
    f.push((
        "debug_proj",
        J::A(upvar_names.into_iter().map(|(n, p)| J::A(vec![s(n), s(p)])).collect()),
    ));
    let blocks: Vec<J> = body
        .basic_blocks
        .iter_enumerated()
        .map(|(b, d)| cx.block_json(b.as_usize(), d))
        .collect();
    f.push(("blocks", J::A(blocks)));
    Some(o(f))
}

fn adt_json<'tcx>(tcx: TyCtxt<'tcx>, did: DefId) -> J {
    let def = tcx.adt_def(did);
    let args = ty::GenericArgs::identity_for_item(tcx, did);
    let variants: Vec<J> = def
        .variants()
        .iter_enumerated()
        .map(|(vi, v)| {
            let discr = if def.is_enum() {
                J::U(def.discriminant_for_variant(tcx, vi).val)
            } else {
                J::Null
            };
            o(vec![
                ("name", s(v.name)),
                ("idx", J::U(vi.as_u32() as u128)),
                ("discr", discr),
                (
                    "fields",
                    J::A(v
                        .fields
                        .iter()
                        .map(|fd| {
                            o(vec![
                                ("name", s(fd.name)),
                                ("ty", s(fd.ty(tcx, args))),
                                ("vis", s(if fd.vis.is_public() { "pub".to_string() } else { format!("{:?}", fd.vis) })),
                            ])
                        })
                        .collect()),
                ),
            ])
        })
        .collect();
    let vis = tcx.visibility(did);
    o(vec![
        ("path", s(pretty_path(tcx, did))),
        ("kind", s(if def.is_enum() { "enum" } else if def.is_union() { "union" } else { "struct" })),
        ("vis", s(if vis.is_public() { "pub".to_string() } else { format!("{:?}", vis) })),
        ("span", s(span_str(tcx, tcx.def_span(did)))),
        ("variants", J::A(variants)),
    ])
}

fn const_item_json<'tcx>(tcx: TyCtxt<'tcx>, did: DefId) -> Option<J> {
    let generics = tcx.generics_of(did);
    if generics.own_requires_monomorphization() || generics.parent_count > 0 && tcx.generics_of(did).requires_monomorphization(tcx) {
        return None;
    }
    let ty = tcx.type_of(did).instantiate_identity().skip_norm_wip();
    let inst = Instance::mono(tcx, did);
    // a `static` (e.g. a `OnceLock` holding a lazily compiled regex) has no value tree: the const-eval query for values must not be
    // asked about it (it asserts); its existence and type are recorded, which is all the rules use
    let val = if matches!(tcx.def_kind(did), DefKind::Static { .. }) {
        // an immutable static without interior mutability is a constant table with an address: its initializer's allocation is read like
        // an indirect constant; anything else (OnceLock, atomics, `static mut`) has no value here
        let is_mut = format!("{:?}", tcx.def_kind(did)).contains("mutability: Mut");
        let freeze = ty.is_freeze(tcx, TypingEnv::fully_monomorphized());
        match (is_mut, freeze, tcx.eval_static_initializer(did)) {
            (false, true, Ok(alloc)) => {
                let alloc_id = tcx.reserve_and_set_memory_alloc(alloc);
                constvalue_json(tcx, ConstValue::Indirect { alloc_id, offset: rustc_abi::Size::ZERO }, ty, 0)
            }
            _ => o(vec![("novaltree", s(ty))]),
        }
    } else {
        eval_global(tcx, inst, None, ty)
    };
    Some(o(vec![
        ("path", s(pretty_path(tcx, did))),
        ("item_kind", s(format!("{:?}", tcx.def_kind(did)))),
        ("ty", s(ty)),
        ("span", s(span_str(tcx, tcx.def_span(did)))),
        ("value", val),
    ]))
}

impl rustc_driver::Callbacks for Cb {
    fn after_analysis<'tcx>(
        &mut self,
        _compiler: &rustc_interface::interface::Compiler,
        tcx: TyCtxt<'tcx>,
    ) -> rustc_driver::Compilation {
        rustc_middle::ty::print::with_resolve_crate_name!(self.analyse(tcx));
        rustc_driver::Compilation::Continue
    }
}

impl Cb {
    fn analyse<'tcx>(&mut self, tcx: TyCtxt<'tcx>) {
        let crate_name = tcx.crate_name(LOCAL_CRATE).to_string();
        let is_bin = tcx.crate_types().iter().any(|t| matches!(t, rustc_session_types::CrateType::Executable));
        let kind = if crate_name == "build_script_main" {
            "build"
        } else if is_bin {
            "bin"
        } else {
            "lib"
        };
        let mut fns = Vec::new();
        let mut adts = Vec::new();
        let mut consts = Vec::new();
        let mut mods = Vec::new();
        let mut keys: Vec<_> = tcx.mir_keys(()).iter().copied().collect();
        keys.sort_by_key(|k| tcx.def_path(k.to_def_id()).to_string_no_crate_verbose());
        for ldid in keys {
            if let Some(j) = fn_json(tcx, ldid) {
                fns.push(j);
            }
        }
        for ldid in tcx.hir_crate_items(()).definitions() {
            let did = ldid.to_def_id();
            match tcx.def_kind(did) {
                DefKind::Struct | DefKind::Enum | DefKind::Union => adts.push(adt_json(tcx, did)),
                DefKind::Const { .. } | DefKind::Static { .. } | DefKind::AssocConst { .. } => {
                    if let Some(j) = const_item_json(tcx, did) {
                        consts.push(j);
                    }
                }
                DefKind::Mod => {
                    let vis = tcx.visibility(did);
                    mods.push(o(vec![
                        ("path", s(pretty_path(tcx, did))),
                        ("vis", s(if vis.is_public() { "pub".to_string() } else { format!("{:?}", vis) })),
                    ]));
                }
                _ => {}
            }
        }
        let doc = o(vec![
            ("crate", s(&crate_name)),
            ("kind", s(kind)),
            ("nonce", s(&self.nonce)),
            ("rustc", s(option_env!("CFG_VERSION").unwrap_or("nightly"))),
            ("mods", J::A(mods)),
            ("adts", J::A(adts)),
            ("consts", J::A(consts)),
            ("fns", J::A(fns)),
        ]);
        let path = format!("{}/{}-{}.json", self.out_dir, crate_name, kind);
        let mut text = String::new();
        doc.write(&mut text);
        std::fs::create_dir_all(&self.out_dir).ok();
        std::fs::write(&path, text).expect("chessfacts: cannot write fact file");
    }
}

mod rustc_session_types {
    extern crate rustc_session;
    pub use rustc_session::config::CrateType;
}

fn main() {
    let mut args: Vec<String> = std::env::args().collect();
    if args.len() < 2 {
        eprintln!("chessfacts: expected to be run as RUSTC_WRAPPER");
        std::process::exit(2);
    }
    let real_rustc = args.remove(1);
    let crate_name = args
        .iter()
        .position(|a| a == "--crate-name")
        .and_then(|i| args.get(i + 1))
        .cloned();
    let wanted = std::env::var("CHESSFACTS_CRATES")
        .unwrap_or_else(|_| "common,precompile,build_script_main,chess".to_string());
    let is_target = match &crate_name {
        Some(n) => wanted.split(',').any(|w| w == n),
        None => false,
    };
    // cargo probes (`-vV`, `--print`) and every other crate: plain rustc
    let is_probe = args.iter().any(|a| a == "-vV" || a.starts_with("--print") || a == "-");
    let out = std::env::var("CHESSFACTS_OUT").ok();
    if !is_target || is_probe || out.is_none() {
        let err = std::process::Command::new(&real_rustc).args(&args[1..]).exec();
        eprintln!("chessfacts: exec {} failed: {}", real_rustc, err);
        std::process::exit(2);
    }
    let mut cb = Cb {
        out_dir: out.unwrap(),
        nonce: std::env::var("CHESSFACTS_NONCE").unwrap_or_default(),
    };
    rustc_driver::catch_with_exit_code(|| rustc_driver::run_compiler(&args, &mut cb));
}
