use chess::game::game::Game;

// D3: a search context reused across the searches of a game returns values that differ from a fresh search
#[test]
fn d3_reused_context_vs_fresh() {
    let mut game = Game::new(3);
    let mut mismatches = vec![];
    for ply in 0..30 {
        let board = game.board().clone();
        let mut fresh = Game::from_board(board, 3);
        let fresh_move = fresh.select_alpha_beta_best_move().unwrap();
        let fresh_score = fresh.alpha_beta_score().unwrap();
        let mv = game.make_alpha_beta_best_move().unwrap();
        let score = game.alpha_beta_score().unwrap();
        if score != fresh_score {
            mismatches.push((ply, mv.to_uci(), score, fresh_move.to_uci(), fresh_score));
        }
        game.board_mut().toggle_turn();
    }
    assert!(mismatches.is_empty(), "D3: reused context disagrees with a fresh search: {:?}", mismatches);
}
