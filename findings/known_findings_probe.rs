use chess::board::Board;
use chess::board::color::Color;
use chess::game::game::Game;
use chess::evaluate::GameEnding;
use common::bitboard::square::*;

// D12: a threefold repetition played through the game API is never reported
#[test]
fn d12_repetition_through_game_api() {
    let mut game = Game::new(1);
    let shuffle = [(G1, F3), (G8, F6), (F3, G1), (F6, G8)];
    let mut drawn = false;
    for _round in 0..4 {
        for (f, t) in shuffle.iter() {
            game.apply_chess_move_by_from_to_coordinates(*f, *t).unwrap();
            game.board_mut().toggle_turn();
            if let Some(GameEnding::Draw) = game.check_game_over_for_current_turn() {
                drawn = true;
            }
        }
    }
    // the starting position has now occurred 5 times
    assert!(drawn, "D12: repetition draw never reported; max_seen = {}", game.board().max_seen_position_count());
}

// D13: same placement/rights/ep but other side to move is counted as the same position
#[test]
fn d13_side_to_move_not_in_key() {
    let mut board = Board::starting_position();
    board.set_turn(Color::White);
    let c1 = board.count_current_position();
    board.toggle_turn();
    let c2 = board.count_current_position();
    assert_eq!((c1, c2), (1, 1), "D13: position with Black to move counted as a repetition of White to move");
}

// D10: move counter aborts/wraps at ply 255
#[test]
fn d10_fullmove_clock_overflow() {
    let r = std::panic::catch_unwind(|| {
        let mut game = Game::new(1);
        let shuffle = [(G1, F3), (G8, F6), (F3, G1), (F6, G8)];
        for i in 0..300usize {
            let (f, t) = shuffle[i % 4];
            game.apply_chess_move_by_from_to_coordinates(f, t).unwrap();
            game.board_mut().toggle_turn();
        }
        game.fullmove_clock()
    });
    match r {
        Ok(v) => assert!(v as usize >= 300, "D10: counter wrapped to {}", v),
        Err(_) => panic!("D10: counter overflow panicked before ply 300"),
    }
}
