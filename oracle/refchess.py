"""Independent, deliberately plain reference implementation of the rules of chess (mailbox board).
Used ONLY to lint data (opening_lines.txt): it never touches code of /repo."""

FILES = 'abcdefgh'


def sq(name):
    return FILES.index(name[0]), int(name[1]) - 1


def name(f, r):
    return FILES[f] + str(r + 1)


class Position:
    def __init__(self):
        self.b = {}
        back = 'RNBQKBNR'
        for f in range(8):
            self.b[(f, 0)] = ('w', back[f])
            self.b[(f, 1)] = ('w', 'P')
            self.b[(f, 6)] = ('b', 'P')
            self.b[(f, 7)] = ('b', back[f])
        self.turn = 'w'
        self.castle = {'wK': True, 'wQ': True, 'bK': True, 'bQ': True}
        self.ep = None

    def copy(self):
        p = Position.__new__(Position)
        p.b = dict(self.b)
        p.turn = self.turn
        p.castle = dict(self.castle)
        p.ep = self.ep
        return p

    # ---- attacks ---------------------------------------------------------------------------
    def attacked(self, target, by):
        tf, tr = target
        for (f, r), (c, p) in self.b.items():
            if c != by:
                continue
            df, dr = tf - f, tr - r
            if p == 'P':
                d = 1 if c == 'w' else -1
                if dr == d and abs(df) == 1:
                    return True
            elif p == 'N':
                if sorted((abs(df), abs(dr))) == [1, 2]:
                    return True
            elif p == 'K':
                if max(abs(df), abs(dr)) == 1:
                    return True
            else:
                straight = (df == 0) != (dr == 0)
                diag = abs(df) == abs(dr) and df != 0
                if (p in 'RQ' and straight) or (p in 'BQ' and diag):
                    sf = (df > 0) - (df < 0)
                    sr = (dr > 0) - (dr < 0)
                    x, y = f + sf, r + sr
                    clear = True
                    while (x, y) != (tf, tr):
                        if (x, y) in self.b:
                            clear = False
                            break
                        x, y = x + sf, y + sr
                    if clear:
                        return True
        return False

    def king(self, c):
        for s, (cc, p) in self.b.items():
            if cc == c and p == 'K':
                return s
        return None

    # ---- pseudo-legal moves ------------------------------------------------------------------
    def pseudo(self):
        c = self.turn
        o = 'b' if c == 'w' else 'w'
        out = []
        for (f, r), (cc, p) in list(self.b.items()):
            if cc != c:
                continue
            if p == 'P':
                d = 1 if c == 'w' else -1
                start = 1 if c == 'w' else 6
                last = 7 if c == 'w' else 0
                if (f, r + d) not in self.b and 0 <= r + d <= 7:
                    for pr in ('QRBN' if r + d == last else [None]):
                        out.append(((f, r), (f, r + d), pr, None))
                    if r == start and (f, r + 2 * d) not in self.b:
                        out.append(((f, r), (f, r + 2 * d), None, 'double'))
                for df in (-1, 1):
                    t = (f + df, r + d)
                    if not (0 <= t[0] <= 7 and 0 <= t[1] <= 7):
                        continue
                    if t in self.b and self.b[t][0] == o:
                        for pr in ('QRBN' if r + d == last else [None]):
                            out.append(((f, r), t, pr, None))
                    elif t == self.ep:
                        out.append(((f, r), t, None, 'ep'))
            elif p in 'NK':
                deltas = [(1, 2), (2, 1), (-1, 2), (-2, 1), (1, -2), (2, -1), (-1, -2), (-2, -1)] if p == 'N' else \
                    [(1, 0), (1, 1), (0, 1), (-1, 1), (-1, 0), (-1, -1), (0, -1), (1, -1)]
                for df, dr in deltas:
                    t = (f + df, r + dr)
                    if 0 <= t[0] <= 7 and 0 <= t[1] <= 7 and (t not in self.b or self.b[t][0] == o):
                        out.append(((f, r), t, None, None))
                if p == 'K':
                    home = 0 if c == 'w' else 7
                    if (f, r) == (4, home) and not self.attacked((4, home), o):
                        if self.castle[c + 'K'] and self.b.get((7, home)) == (c, 'R') and all((x, home) not in self.b for x in (5, 6)) \
                                and not self.attacked((5, home), o) and not self.attacked((6, home), o):
                            out.append(((4, home), (6, home), None, 'castleK'))
                        if self.castle[c + 'Q'] and self.b.get((0, home)) == (c, 'R') and all((x, home) not in self.b for x in (1, 2, 3)) \
                                and not self.attacked((3, home), o) and not self.attacked((2, home), o):
                            out.append(((4, home), (2, home), None, 'castleQ'))
            else:
                dirs = []
                if p in 'RQ':
                    dirs += [(1, 0), (-1, 0), (0, 1), (0, -1)]
                if p in 'BQ':
                    dirs += [(1, 1), (1, -1), (-1, 1), (-1, -1)]
                for df, dr in dirs:
                    x, y = f + df, r + dr
                    while 0 <= x <= 7 and 0 <= y <= 7:
                        if (x, y) in self.b:
                            if self.b[(x, y)][0] == o:
                                out.append(((f, r), (x, y), None, None))
                            break
                        out.append(((f, r), (x, y), None, None))
                        x, y = x + df, y + dr
        return out

    def make(self, m):
        frm, to, promo, special = m
        p = self.copy()
        c, piece = p.b.pop(frm)
        if special == 'ep':
            del p.b[(to[0], frm[1])]
        p.b[to] = (c, promo or piece)
        if special == 'castleK':
            p.b[(5, frm[1])] = p.b.pop((7, frm[1]))
        if special == 'castleQ':
            p.b[(3, frm[1])] = p.b.pop((0, frm[1]))
        p.ep = (frm[0], (frm[1] + to[1]) // 2) if special == 'double' else None
        if piece == 'K':
            p.castle[c + 'K'] = p.castle[c + 'Q'] = False
        for corner, key in (((0, 0), 'wQ'), ((7, 0), 'wK'), ((0, 7), 'bQ'), ((7, 7), 'bK')):
            if frm == corner or to == corner:
                p.castle[key] = False
        p.turn = 'b' if c == 'w' else 'w'
        return p

    def legal(self):
        res = []
        c = self.turn
        o = 'b' if c == 'w' else 'w'
        for m in self.pseudo():
            p = self.make(m)
            if not p.attacked(p.king(c), o):
                res.append(m)
        return res


def perft(p, d):
    if d == 0:
        return 1
    return sum(perft(p.make(m), d - 1) for m in p.legal())


def replay(tokens):
    """returns (ok, ply index of the first illegal token or None, reason)"""
    p = Position()
    for i, t in enumerate(tokens):
        if len(t) != 4 or t[0] not in FILES or t[2] not in FILES or t[1] not in '12345678' or t[3] not in '12345678':
            return False, i, 'malformed token'
        frm, to = sq(t[:2]), sq(t[2:])
        cands = [m for m in p.legal() if m[0] == frm and m[1] == to]
        if not cands:
            return False, i, 'illegal move'
        # promotions: the engine plays the first match (queen)
        p = p.make(cands[0])
    return True, None, None


if __name__ == '__main__':
    print([perft(Position(), d) for d in (1, 2, 3)])
