"""C01 — generated moves are exactly the legal moves (structural clauses of the generator)."""
import itertools

from sa.sym import guards, Engine, show, show_cond, subterms, C, is_const, PathLimit
from sa.evalterm import ev, Unevaluable, geom, squares
from .common import *
from .tables import is_true, is_false, pin

EXPLANATION = (
    'Static clauses: (R1) all five pseudo-legal generators run on every path before the legality filter, which is the last thing to '
    "touch the list; pawn generation reaches en-passant generation; (R2) the filter, per candidate: apply, then locate the mover's king"
    " and compute the opponent's attack map on the board AFTER the move, then undo, and keep the move iff the king is not attacked; "
    '(R3) castling is offered under exactly the FIDE guard set per colour and wing (right held, king not in check, transit square not '
    'attacked, squares between empty) with the FIDE squares; (R4) pawn geometry by finite evaluation of the extracted shift/mask terms:'
    ' attack sets, en-passant origin/target relation (no a/h-file wrap), single/double pushes for every pawn square and blocker '
    'configuration; (R5) the attack map unions pawn, sliding (rook/bishop/queen = rook|bishop), knight and king contributions; (R6) '
    'targets exclude own pieces; (R7) promotions: exactly {Q,R,B,N}, on the last rank of the mover; (R8) captures are annotated from '
    "the opponent's piece set and en passant is generated from the current target only; (R9) sliders see the whole-board occupancy. "
    'Equality of the generated set with the FIDE set for every position is NOT decided. R1 also requires that nothing but the five '
    'generators and the filter touches the candidate list between its creation and its return (no pre-filter, truncation or reordering '
    'in between). Conditions whose other side panics (assertions) are not counted as guards of a castle move (R3). R1 also requires the'
    ' en-passant generator on every returning path of pawn generation (only a path that established an empty pawn set may leave without'
    ' it); (R9) the generator trusts the rights and the target the board holds, so the effect tables of apply that maintain them '
    '(C03.R1-R3) are part of this property.'
)
ASSUMPTIONS = [
    "apply/undo are correct (C03, C04), the attack tables are correct (C11)",
    "rustc MIR construction and the chessfacts extractor are faithful",
]

MGM = 'chess::move_generator::'
TGT = MGM + 'targets::'
MT = MGM + 'magic_table::MagicTable::'
GAT = TGT + 'Targets::generate_attack_targets'
PS = 'chess::board::piece_set::PieceSet'
OPP = 'chess::board::color::Color::opposite'
COLOR = 'chess::board::color::Color'
RANK = {i: 0xff << (8 * (i - 1)) for i in range(1, 9)}


def sq_names(mask):
    """names of all squares of a constant bitboard"""
    return {sq_name(1 << i) for i in range(64) if isinstance(mask, int) and (mask >> i) & 1}


def cdiscr(facts):
    return {c: facts.variant_discr(COLOR, c) for c in ('White', 'Black')}


def cond_holds(c, env):
    a, v = c
    x = ev(a, env)
    if isinstance(v, tuple) and v[0] == 'not':
        return x not in v[1]
    return x == v


def matching(outs, env, skip=lambda a: False, envf=None):
    """outcomes whose evaluable conditions all hold under env (envf(o) adds per-outcome leaves)"""
    res = []
    base = env
    for o in outs:
        env = base
        if envf is not None:
            extra = envf(o)
            if extra is None:
                continue
            env = dict(base)
            env.update(extra)
        ok = True
        for c in o.conds:
            if skip(c[0]):
                continue
            try:
                if not cond_holds(c, env):
                    ok = False
                    break
            except Unevaluable:
                continue
        if ok:
            res.append(o)
    return res


def has_call(t, suffix):
    return any(s[0] == 'call' and s[1].endswith(suffix) for s in subterms(t))


# ---------------------------------------------------------------------------------------------------------
def r1_filter_dominance(ctx):
    rule = 'C01.R1-filter-dominance'
    facts = ctx.facts
    name = MGM + 'generate_valid_moves'
    gens = ['generate_knight_moves', 'generate_sliding_moves', 'generate_king_moves', 'generate_pawn_moves', 'generate_castle_moves']
    opaque = {MGM + g for g in gens} | {MGM + 'remove_invalid_moves'}
    outs = Engine(facts, opaque=opaque).run(name)
    ctx.touch(name)
    rets = [o for o in outs if o.kind == 'return']
    ok = bool(rets)
    for o in rets:
        calls = [e for e in o.events if e[0] == 'call' and e[1] in opaque]
        names = [e[1].rsplit('::', 1)[-1] for e in calls]
        ok = ok and set(names[:-1]) == set(gens) and len(names) == 6 and names[-1] == 'remove_invalid_moves'
        # same list, same board, same colour everywhere; nothing touches the list afterwards
        # one list flows through all six calls (also when the first stage lives in a helper that returns the list): each call receives the
        # list exactly as the previous call left it
        chain = True
        for prev, cur in zip(calls, calls[1:]):
            pre = dict(cur[6]).get(0) if len(cur) > 6 else None
            same_lv = cur[2][0] == prev[2][0]
            chain = chain and (pre == ('hv', prev[3]) or (pre is None and same_lv))
        boards = {show(e[2][1]) for e in calls}
        cols = {e[2][2] for e in calls}
        ok = ok and chain and cols == {('p', 2)} and boards == {'&*arg1'}
        after = o.events[o.events.index(calls[-1]) + 1:] if calls else []
        ok = ok and not [e for e in after if e[0] == 'call' and ('push' in e[1] or 'append' in e[1] or 'insert' in e[1])]
    # nothing else may touch the list between generation and the filter: a pre-filter that drops candidates "that cannot be legal anyway"
    # (or adds some) decides legality without the simulation
    touched = []
    for o in outs:
        gen_calls = [e for e in o.events if e[0] == 'call' and e[1] in opaque]
        if not gen_calls:
            continue
        lst = gen_calls[0][2][0]
        for e in o.events:
            if e[0] == 'retain' and strip_refs(e[4]) == strip_refs(lst):
                touched.append('retain on the candidate list')
            elif e[0] == 'adapter' and e[1] in ('retain', 'retain_mut', 'extend') and strip_refs(e[3]) == strip_refs(lst):
                touched.append('%s on the candidate list' % e[1])
            elif e[0] == 'call' and e[1] not in opaque and any(a == lst for a in e[2]):
                touched.append(e[1].rsplit('::', 1)[-1] + ' on the candidate list')
    ok = ok and not touched
    ctx.ob(rule, name, 'five generators, then remove_invalid_moves last, all on the same list/board/colour', ok,
           found=[[e[1].rsplit('::', 1)[-1] for e in o.events if e[0] == 'call' and e[1] in opaque] for o in rets][:1] + sorted(set(touched))[:3],
           expected=gens + ['remove_invalid_moves'] + ['nothing else touches the list'],
           why='a generator that runs after (or bypasses) the filter lets moves through that leave the king in check; a pre-filter between generation '
               'and simulation removes legal moves it did not think of (the en-passant capture of a checking pawn does not land on the checker\'s square)')
    pm = facts.need_fn(MGM + 'generate_pawn_moves')
    callees = {facts.callee_name(t) for b, t in pm.calls()}
    ctx.ob(rule, pm.name, 'pawn generation includes en-passant generation', MGM + 'generate_en_passant_moves' in callees,
           found=sorted(c for c in callees if c and c.startswith(MGM))[:6], expected='generate_en_passant_moves')
    # ... on EVERY path that returns: an early exit ("no pawn has a push or an ordinary capture") must not skip it - the en-passant capture is
    # not among the ordinary targets.  Only a path that has established that a pawn set is empty may leave without it.
    EP = MGM + 'generate_en_passant_moves'
    own_h = {h for h in facts.only_through({pm.name}) if h != pm.name and facts.fns[h].kind != 'Closure'}
    try:
        pouts = Engine(facts, opaque={TGT + 'generate_pawn_move_targets', TGT + 'generate_pawn_attack_targets', MGM + 'expand_piece_targets', EP},
                       readonly={CHESSMOVE + '::to_square', CHESSMOVE + '::from_square', CHESSMOVE + '::captures', PS + '::locate', BOARD + '::pieces'},
                       max_paths=4000, inline_loops=own_h).run(pm.name)
    except PathLimit:
        pouts = None
    skipped = []
    n_ret = 0
    pawn_d = facts.variant_discr(PIECE_ADT, 'Pawn')
    for o in (pouts or []):
        if o.kind != 'return':
            continue
        n_ret += 1
        eps = [e for e in o.events if e[0] == 'call' and e[1] == EP]
        if len(eps) == 1 and eps[0][2][0] == ('ref', ('der', ('p', 1))) and eps[0][2][1] == ('ref', ('der', ('p', 2))) and eps[0][2][2] == ('p', 3):
            continue

        def no_pawns(a, v):
            loc = [s_ for s_ in subterms(a) if s_[0] == 'call' and s_[1] == PS + '::locate' and len(s_[2]) == 2
                   and s_[2][1][0] == 'agg' and s_[2][1][3] == 'Pawn']
            if not loc:
                return False
            if a[0] == 'call' and a[1].endswith('::is_empty'):
                return is_true(v)
            return v == 0 and a[0] in ('fld',)
        if any(no_pawns(a, v) for a, v in o.conds):
            continue
        skipped.append([show_cond(c)[:90] for c in o.conds][-3:])
    ctx.ob(rule, pm.name, 'every returning path of pawn generation runs en-passant generation on the same list, board and colour', pouts is not None and n_ret > 0 and not skipped,
           found=skipped[:3], expected='generate_en_passant_moves(moves, board, color) before every return (except when a pawn set is empty)',
           why='the en-passant capture is generated separately from the push / capture targets: a fast exit for "no ordinary pawn move" loses it, and with '
               'it the only legal move of some positions')
    # generate_moves / cache path goes through generate_valid_moves: C02.R1


def r2_filter_shape(ctx):
    rule = 'C01.R2-legality-filter'
    facts = ctx.facts
    name = MGM + 'remove_invalid_moves'
    ap, un = CHESSMOVE + '::apply', CHESSMOVE + '::undo'
    outs = Engine(facts, opaque={ap, un, GAT}).run(name)
    ctx.touch(name)
    king = facts.variant_discr(PIECE_ADT, 'King')
    cd = cdiscr(facts)
    backs = [o for o in outs if o.kind == 'backedge']
    n = 0
    in_place = 0
    for o in backs:
        calls = [e for e in o.events if e[0] == 'call' and e[1] in (ap, un, GAT)]
        names = [e[1].rsplit('::', 1)[-1] for e in calls]
        col = {v: k for k, v in cd.items()}.get(pin(dict(o.conds).get(('discr', ('p', 3)))))
        if names != ['apply', 'generate_attack_targets', 'undo']:
            ctx.ob(rule, name, 'iteration: apply < attack map < undo', False, found=names, expected=['apply', 'generate_attack_targets', 'undo'])
            continue
        n += 1
        a, g, u = calls
        same_move = a[2][0] == u[2][0] and a[2][1] == u[2][1] == ('ref', ('der', ('p', 2)))
        att = ('call', GAT, g[2], g[3])
        att_ok = g[2][1] == ('ref', ('der', ('p', 2))) and g[2][2] == ('call', OPP, (('p', 3),), None)
        # the overlap test: king of `color` on the board state produced by apply
        test = [c for c in o.conds if any(s == att for s in subterms(c[0]))]
        king_ok = False
        pol = None
        detail = None
        if len(test) == 1:
            t, v = test[0]
            pol = 'attacked' if not is_false(v) else 'safe'
            if t[0] == 'bin' and t[1] == 'BitAnd':
                kt = t[2] if not any(s == att for s in subterms(t[2])) else t[3]
                hv = [s for s in subterms(kt) if s[0] == 'hv']
                side = [s[2] for s in subterms(kt) if s[0] == 'fld' and s[2] in ('white', 'black')]
                idx = [s[2] for s in subterms(kt) if s[0] == 'idx']
                detail = {'king term': show(kt), 'board state': 'after apply' if hv and hv[0][1] == a[3] else 'NOT the state after apply'}
                king_ok = bool(hv) and all(h[1] == a[3] for h in hv) and side == [col.lower()] and idx == [C(king)]
        pushed = [e for e in o.events if e[0] == 'call' and e[1].endswith('SmallVec::<A>::push')]
        keep_ok = (pol == 'safe' and len(pushed) == 1 and strip_refs(pushed[0][2][1]) == strip_refs(a[2][0])) or (pol == 'attacked' and not pushed)
        kept = [e for e in o.events if e[0] == 'retain']
        if kept:
            # in-place form: `candidates.retain(|m| ...)` on the candidate list itself keeps the element iff the predicate holds
            in_place = in_place + 1
            keep_ok = (not pushed and len(kept) == 1 and kept[0][4] == ('ref', ('der', ('p', 1))) and strip_refs(a[2][0]) == kept[0][3]
                       and kept[0][2] == (pol == 'safe'))
        ctx.ob(rule, name, '%s/%s: same move applied and undone on the caller\'s board' % (col, pol), same_move, found=[show(a[2][0])[:80], show(u[2][0])[:80]])
        ctx.ob(rule, name, '%s/%s: attack map of opposite(color) computed between apply and undo' % (col, pol), att_ok, found=[show(x) for x in g[2][1:]],
               expected='generate_attack_targets(board, color.opposite())')
        ctx.ob(rule, name, '%s/%s: king of `color` located on the board after the move' % (col, pol), king_ok, found=detail,
               expected='board.pieces(color).locate(King) read between apply and undo',
               why='locating the king before the move lets the king step onto an attacked square (and pins go unnoticed)')
        ctx.ob(rule, name, '%s/%s: move kept iff the king is not attacked' % (col, pol), keep_ok, found={'pushed': len(pushed), 'branch': pol},
               expected='push only when !king.overlaps(attacked)')
    ctx.floor(rule, 'iteration paths', n, 4)
    exits = [o for o in outs if o.kind == 'return']
    ok = bool(exits) and all(any(e[0] == 'call' and e[1].endswith('::append') for e in o.events) for o in exits)
    if in_place and in_place == n:
        ok = bool(exits)        # retain filters the candidate list itself: nothing to copy back
    ctx.ob(rule, name, 'survivors replace the candidate list after the loop', ok, expected='candidates.append(&mut valid_moves) (or an in-place retain)', nontrivial=False)


def strip_refs(t):
    while t[0] == 'ref':
        t = t[1]
        if t[0] == 'K':
            t = t[1]
    return t


# ---------------------------------------------------------------------------------------------------------
def r3_castle_guards(ctx):
    rule = 'C01.R3-castle-guards'
    facts = ctx.facts
    name = MGM + 'generate_castle_moves'
    R = {}
    for k, n in (('WK', 'WHITE_KINGSIDE_RIGHTS'), ('WQ', 'WHITE_QUEENSIDE_RIGHTS'), ('BK', 'BLACK_KINGSIDE_RIGHTS'), ('BQ', 'BLACK_QUEENSIDE_RIGHTS')):
        R[k] = facts.consts.get('chess::board::castle_rights_bitmask::' + n)
    king = facts.variant_discr(PIECE_ADT, 'King')
    oracle = {
        ('White', 'K'): dict(right=R['WK'], king='e1', to='g1', safe={'f1'}, empty={'f1', 'g1'}),
        ('White', 'Q'): dict(right=R['WQ'], king='e1', to='c1', safe={'d1'}, empty={'d1', 'c1', 'b1'}),
        ('Black', 'K'): dict(right=R['BK'], king='e8', to='g8', safe={'f8'}, empty={'f8', 'g8'}),
        ('Black', 'Q'): dict(right=R['BQ'], king='e8', to='c8', safe={'d8'}, empty={'d8', 'c8', 'b8'}),
    }
    seen = set()
    def fresh_insert(eng, st, args, info):
        # C01 speaks about a freshly created generator: its caches are empty, an insert replaces nothing
        return [(st, ('agg', 'adt', 'std::option::Option', 'None', ()))]
    for col in ('White', 'Black'):
        eng = Engine(facts, opaque={GAT}, readonly={PS + '::get', BOARD + '::current_position_hash'},
                     models={'std::collections::HashMap::<K, V, S, A>::insert': fresh_insert})
        outs = eng.run(name, args=[None, None, COLORS[col], None])
        ctx.touch(name)
        wocc = ('fld', ('fld', ('fld', ('der', ('p', 2)), 'white'), 'occupied'), '0')
        bocc = ('fld', ('fld', ('fld', ('der', ('p', 2)), 'black'), 'occupied'), '0')
        union = ('bin', 'BitOr', wocc, bocc)
        from .tables import cond_value
        by_move = {}
        for o in outs:
            if o.kind != 'return':
                continue
            for e in o.events:
                if e[0] == 'call' and e[1].endswith('SmallVec::<A>::push'):
                    mv = e[2][1]
                    by_move.setdefault(mv, []).append(o)
        for mv, paths in by_move.items():
            inner = dict(mv[4])['0'] if mv[0] == 'agg' and mv[3] == 'Castle' else None
            if inner is None:
                ctx.ob(rule, name, '%s: pushes a non-castle move' % col, False, found=show(mv)[:100])
                continue
            f = dict(inner[4])
            frm, to = sq_name(bb_of(f['from_square'])), sq_name(bb_of(f['to_square']))
            side = 'K' if to and to[0] == 'g' else 'Q'
            want = oracle[(col, side)]
            # guard set of this push = conditions common to every path that performs it
            common = None
            for o in paths:
                # (assertions - conditions whose other side panics, e.g. a `debug_assert!` in a helper - are not guards of the move)
                cs = {(a, cond_value(v)) for a, v in guards(outs, o)}
                common = cs if common is None else (common & cs)
            o = paths[0]
            att_calls = [e for e in o.events if e[0] == 'call' and e[1] == GAT]
            att = ('fld', ('call', GAT, att_calls[0][2], att_calls[0][3]), '0') if att_calls else None
            att_ok = bool(att_calls) and att_calls[0][2][1] == ('ref', ('der', ('p', 2))) and att_calls[0][2][2] in (
                COLORS['Black' if col == 'White' else 'White'], ('call', OPP, (COLORS[col],), None))
            atoms = {'right': set(), 'king_safe': False, 'safe': set(), 'empty_union': set(), 'empty_w': set(), 'empty_b': set(), 'other': []}
            for a, v in sorted(common, key=lambda c: show(c[0])):
                if a[0] == 'bin' and a[1] in ('Gt', 'Ne') and a[3] == C(0) and a[2][0] == 'bin' and a[2][1] == 'BitAnd' and is_true(v):
                    k = [x[1] for x in (a[2][2], a[2][3]) if is_const(x)]
                    if k and any(has_call(x, '::last') for x in (a[2][2], a[2][3])):
                        atoms['right'].add(k[0])
                        continue
                if a[0] == 'bin' and a[1] == 'BitAnd' and not is_false(v) and any(has_call(x, '::last') for x in (a[2], a[3])):
                    k = [x[1] for x in (a[2], a[3]) if is_const(x)]
                    if k:
                        atoms['right'].add(k[0])
                        continue
                if a[0] == 'bin' and a[1] == 'BitAnd' and is_false(v):
                    x, y = a[2], a[3]
                    kk = [z[1] for z in (x, y) if is_const(z)]
                    other = [z for z in (x, y) if not is_const(z)]
                    if att is not None and att in (x, y):
                        rest = y if x == att else x
                        if is_const(rest):
                            atoms['safe'] |= sq_names(rest[1])
                            continue
                        sidef = [s[2] for s in subterms(rest) if s[0] == 'fld' and s[2] in ('white', 'black')]
                        idx = [s[2] for s in subterms(rest) if s[0] == 'idx']
                        if sidef == [col.lower()] and idx == [C(king)]:
                            atoms['king_safe'] = True
                            continue
                    if kk and other:
                        if other[0] in (union, ('bin', 'BitOr', bocc, wocc)):
                            atoms['empty_union'] |= sq_names(kk[0])
                            continue
                        if other[0] == wocc:
                            atoms['empty_w'] |= sq_names(kk[0])
                            continue
                        if other[0] == bocc:
                            atoms['empty_b'] |= sq_names(kk[0])
                            continue
                if a[0] == 'discr' and has_call(a, '::last') and v == 1:
                    continue            # peek() on a non-empty stack
                atoms['other'].append(show_cond((a, v)))
            empties = atoms['empty_union'] | (atoms['empty_w'] & atoms['empty_b'])
            key = (col, side)
            inst = '%s/%s' % (col, 'kingside' if side == 'K' else 'queenside')
            problems = []
            if (frm, to) != (want['king'], want['to']):
                problems.append('move %s%s' % (frm, to))
            if want['right'] not in atoms['right']:
                problems.append('missing:RightHeld')
            if atoms['right'] - {want['right']}:
                problems.append('extra:RightHeld(%s)' % sorted(atoms['right'] - {want['right']}))
            if not atoms['king_safe']:
                problems.append('missing:KingNotInCheck')
            for s in sorted(want['safe'] - atoms['safe']):
                problems.append('missing:NotAttacked(%s)' % s.upper())
            for s in sorted(want['empty'] - empties):
                problems.append('missing:Empty(%s)' % s.upper())
            if not att_ok:
                problems.append('attack map not of the opponent on this board')
            for s in sorted(atoms['safe'] - want['safe'] - {want['to'], want['king']}):
                problems.append('extra:NotAttacked(%s)' % s.upper())
            for s in sorted(empties - want['empty']):
                problems.append('extra:Empty(%s)' % s.upper())
            if atoms['other']:
                problems.append('unrecognised guard: %s' % atoms['other'][:2])
            seen.add(key)
            shown = {k: sorted(v) if isinstance(v, set) else v for k, v in atoms.items()}
            if problems:
                for p_ in problems:
                    ctx.ob(rule, name, '%s/%s' % (inst, p_), False, found={'guards': shown, 'paths': len(paths)},
                           expected={'right': want['right'], 'king not in check': True, 'not attacked': sorted(want['safe']), 'empty': sorted(want['empty'])},
                           why='castling requires the right, squares between king and rook empty, and the king not in, through or into check '
                               '(the destination square is covered by the legality filter)')
            else:
                ctx.ob(rule, name, '%s: guard set = FIDE guard set, king %s%s (%d paths)' % (inst, frm, to, len(paths)), True, found=shown)
    for key in oracle:
        if key not in seen:
            ctx.ob(rule, name, '%s/%s: a path offers this castle' % key, False, found='no push found', expected='push(Castle)')


# ---------------------------------------------------------------------------------------------------------
def pawn_dirs(col):
    d = 1 if col == 'White' else -1
    return [(d, 1), (d, -1)]


def _contains_term(t, sub):
    return any(x == sub for x in subterms(t))


def r4_pawn_geometry(ctx):
    rule = 'C01.R4-pawn-geometry'
    facts = ctx.facts
    cd = cdiscr(facts)
    # ---- attack targets
    name = TGT + 'generate_pawn_attack_targets'
    for col in ('White', 'Black'):
        outs = Engine(facts).run(name, args=[None, None, COLORS[col]])
        ctx.touch(name)
        backs = [o for o in outs if o.kind == 'backedge' and any(e[0] == 'call' and e[1].endswith('::push') for e in o.events)]
        if len(backs) != 1:
            ctx.anchor_missing(rule, name, '%s: expected one pushing iteration path' % col)
            continue
        o = backs[0]
        push = [e for e in o.events if e[0] == 'call' and e[1].endswith('::push')][0]
        tup = push[2][1]
        pawn_t, tgt_t = tup[4][0][1], tup[4][1][1]
        idx = [s for s in subterms(pawn_t) if s[0] == 'fld' and s[2] == 'Some.0']
        scan = None
        if not idx:
            # bit-scan form: `while !rest.is_empty() { let pawn = rest.pop_lsb(); .. }`: the square index is trailing_zeros(rest)
            tz = [s for s in subterms(pawn_t) if s[0] == 'call' and s[1] == 'trailing_zeros' and any(x[0] == 'lv' for x in subterms(s))]
            if tz:
                idx = [tz[0]]
                scan = [x for x in subterms(tz[0]) if x[0] == 'lv'][0]
        bad = []
        try:
            for i in range(64):
                env = {idx[0]: i}
                if ev(pawn_t, env) != 1 << i:
                    bad.append((i, 'origin'))
                got = ev(tgt_t, env)
                want = geom(i, pawn_dirs(col))
                if got != want:
                    bad.append((sq_name(1 << i), sorted(sq_name(1 << x) for x in squares(got ^ want))))
        except (Unevaluable, IndexError) as e:
            ctx.anchor_missing(rule, name, 'term not evaluable')
            continue
        # guard: only squares holding an own pawn
        guard = [c for c in o.conds if c[0][0] == 'bin' and c[0][1] == 'BitAnd' and not is_false(c[1])]
        gok = any(any(s[0] == 'fld' and s[2] == col.lower() for s in subterms(c[0])) and any(s[0] == 'idx' and s[2] == C(facts.variant_discr(PIECE_ADT, 'Pawn')) for s in subterms(c[0])) for c in guard)
        if scan is not None:
            # the scanned set starts as the own pawns, each round clears exactly the bit just visited, and the scan ends when it is empty
            head = [e for e in o.events if e[0] == 'loop_head' and e[2] == scan[1]]
            pre = head[0][3].get(scan[2]) if head else None
            starts = pre is not None and any(s[0] == 'fld' and s[2] == col.lower() for s in subterms(pre)) and \
                any(s[0] == 'idx' and s[2] == C(facts.variant_discr(PIECE_ADT, 'Pawn')) for s in subterms(pre))
            nv = (o.locals or {}).get(scan[2])
            clears = False
            try:
                clears = nv is not None and all(ev(nv, {('fld', scan, '0'): x, scan: x, idx[0]: (x & -x).bit_length() - 1}) == x & (x - 1)
                                                for x in (1, 0x8000000000000000, 0x00ff00000000ff00, 0x0000001008000000, 0xffffffffffffffff))
            except Unevaluable:
                clears = False
            exits = [x for x in outs if x.kind == 'return' and any(e[0] == 'loop_head' and e[2] == scan[1] for e in x.events)]
            ends = bool(exits) and all(any(_contains_term(a, scan) and (is_false(v) or v == 0) for a, v in x.conds) for x in exits)
            gok = starts and clears and ends
        ctx.ob(rule, name, '%s: attack set of a pawn on each of 64 squares = its two forward diagonals, no file wrap' % col, not bad and gok,
               found={'differences': bad[:4], 'iterates own pawns': gok}, expected='{(+-1 rank, +-1 file)} on board',
               why='a missing wrap mask lets a pawn on the a/h-file attack across the board edge')
    # ---- en passant
    name = MGM + 'generate_en_passant_moves'
    for col in ('White', 'Black'):
        # unroll: a loop over the literal pair [(west attacks, origin), (east attacks, origin)] is walked element by element
        outs = Engine(facts, unroll=True).run(name, args=[None, None, COLORS[col]])
        ctx.touch(name)
        rets = [o for o in outs if o.kind == 'return']
        # leaves
        pawns = ('fld', ('idx', ('fld', ('fld', ('der', ('p', 2)), col.lower()), 'bitboards'), C(facts.variant_discr(PIECE_ADT, 'Pawn'))), '0')
        eps = set()
        for o in rets:
            for a, v in o.conds:
                for s in subterms(a):
                    if s[0] == 'fld' and s[2] == '0' and s[1][0] == 'der' and has_call(s, '::last'):
                        eps.add(s)
        if len(eps) != 1:
            ctx.anchor_missing(rule, name, '%s: en-passant target leaf not found' % col)
            continue
        ep = eps.pop()
        top_ok = any(s[0] == 'fld' and s[2] == 'en_passant_target_stack' for s in subterms(ep))
        bad = []
        n = 0
        try:
            for t in range(64):
                for p in range(64):
                    env = {pawns: 1 << p, ep: 1 << t, ep[1]: 1 << t}
                    ms = matching(rets, env, skip=lambda a: a[0] == 'discr')
                    if len(ms) != 1:
                        bad.append((sq_name(1 << p), sq_name(1 << t), 'paths=%d' % len(ms)))
                        continue
                    n += 1
                    got = set()
                    for e in ms[0].events:
                        if e[0] == 'call' and e[1].endswith('::push'):
                            mv = e[2][1]
                            inner = dict(mv[4])['0']
                            f = dict(inner[4])
                            got.add((ev(f['from_square'], env), ev(f['to_square'], env), mv[3]))
                    want = {(1 << p, 1 << t, 'EnPassant')} if (geom(p, pawn_dirs(col)) >> t) & 1 else set()
                    if got != want:
                        bad.append((sq_name(1 << p), sq_name(1 << t), sorted((sq_name(a) or a, sq_name(b) or b) for a, b, _ in got)))
            # two pawns attacking the same target give two moves
            for t in range(64):
                ps = [p for p in range(64) if (geom(p, pawn_dirs(col)) >> t) & 1]
                if len(ps) == 2:
                    env = {pawns: (1 << ps[0]) | (1 << ps[1]), ep: 1 << t, ep[1]: 1 << t}
                    ms = matching(rets, env, skip=lambda a: a[0] == 'discr')
                    got = set()
                    for e in (ms[0].events if len(ms) == 1 else []):
                        if e[0] == 'call' and e[1].endswith('::push'):
                            f = dict(dict(e[2][1][4])['0'][4])
                            got.add(ev(f['from_square'], env))
                    if got != {1 << ps[0], 1 << ps[1]}:
                        bad.append(('pair', sq_name(1 << t), sorted(sq_name(x) or x for x in got)))
        except Unevaluable as e:
            ctx.anchor_missing(rule, name, '%s: term not evaluable %s' % (col, show(e.args[0])[:80]))
            continue
        ctx.ob(rule, name, '%s: en passant offered from p to t iff t is a pawn-attack square of p (64x64 pawn/target pairs)' % col, not bad and top_ok,
               found={'differences (pawn, target, generated)': bad[:4], 'target read from the top of the ep stack': top_ok}, expected='exact relation, no wrap',
               why='dropping a file mask creates a phantom capture from the h-file to the a-file')
        empt = [o for o in rets if dict(o.conds).get(ep) == 0]
        ctx.ob(rule, name, '%s: nothing generated without a target' % col, bool(empt) and all(not [e for e in o.events if e[0] == 'call' and e[1].endswith('::push')] for o in empt),
               expected='return when the target is empty', nontrivial=False)
    # ---- pushes
    name = TGT + 'generate_pawn_move_targets'
    for col in ('White', 'Black'):
        outs = Engine(facts).run(name, args=[None, COLORS[col]])
        ctx.touch(name)
        its = [o for o in outs if o.kind == 'backedge']
        own, opp = col.lower(), ('black' if col == 'White' else 'white')
        pawns = ('fld', ('idx', ('fld', ('fld', ('der', ('p', 1)), own), 'bitboards'), C(facts.variant_discr(PIECE_ADT, 'Pawn'))), '0')
        occ_own = ('fld', ('fld', ('fld', ('der', ('p', 1)), own), 'occupied'), '0')
        occ_opp = ('fld', ('fld', ('fld', ('der', ('p', 1)), opp), 'occupied'), '0')
        scan_env = {}

        def bitscan_of(o):
            """bit-scan iteration (`while let Some(sq) = squares.pop_lsb()`, or an Iterator wrapping it): a loop-carried bitboard R that starts
            as the own pawns, is tested non-empty, yields the element 1 << tz(R) and continues with R & !(1 << tz(R)).  Such a loop visits
            every set bit of the pawn set exactly once; R may occur on the path only through tz(R) and the non-empty test, so binding
            tz(R) to a pawn's index (and R to that single bit) evaluates the iteration for that pawn."""
            heads = [e for e in o.events if e[0] == 'loop_head']
            if not heads or not o.locals:
                return None
            h = heads[-1]
            for l, init in h[3].items():
                r0 = None
                for s in subterms(o.locals.get(l, ('unk',))):
                    if s[0] == 'bin' and s[1] == 'BitAnd' and s[3][0] == 'un' and s[3][1] == 'Not' and s[3][2] == ('bin', 'Shl', C(1), ('call', 'trailing_zeros', (s[2],), None)):
                        r0 = s[2]
                if r0 is None or not any(x == ('lv', h[2], l) for x in subterms(r0)):
                    continue
                src = init
                while src[0] in ('call', 'agg'):
                    if src[0] == 'call' and src[1].endswith('into_iter') and len(src[2]) == 1:
                        src = src[2][0]
                    elif src[0] == 'agg' and len(src[4]) == 1:
                        src = src[4][0][1]
                    else:
                        break
                if src != pawns and ('fld', src, '0') != pawns:
                    continue
                nonempty = any(a == r0 and isinstance(v, tuple) and v[0] == 'not' and 0 in v[1] for a, v in o.conds)
                tz = ('call', 'trailing_zeros', (r0,), None)
                # every other occurrence of R on the path is inside tz(R)
                def only_via_tz(t_):
                    if t_ == tz:
                        return True
                    if t_ == r0:
                        return False
                    return all(only_via_tz(x) for x in t_[1:] if isinstance(x, tuple) and x and isinstance(x[0], str)) if isinstance(t_, tuple) else True
                clean = all(only_via_tz(a) for a, v in o.conds if a != r0) and all(
                    only_via_tz(x) for e in o.events if e[0] == 'call' and e[1].endswith('::push') for x in e[2][1:])
                if nonempty and clean:
                    scan_env[id(o)] = r0
                    return tz
            return None

        def idx_of(o):
            found = set()
            for a, v in o.conds:
                for s in subterms(a):
                    if s[0] == 'fld' and s[2] == 'Some.0' and s[1][0] == 'call' and s[1][1].endswith('::next'):
                        found.add(s)
            if len(found) == 1:
                return next(iter(found))
            return bitscan_of(o)
        if not its or any(idx_of(o) is None for o in its):
            ctx.anchor_missing(rule, name, '%s: loop index not found' % col)
            continue
        d = 8 if col == 'White' else -8
        start = 1 if col == 'White' else 6
        bad = []
        n = 0
        try:
            for p in range(8, 56):
                s1, s2 = p + d, p + 2 * d
                for c1, c2 in itertools.product((0, 1, 2), repeat=2):
                    if not (0 <= s2 < 64) and c2:
                        continue
                    ownp = 1 << p
                    oo = 1 << p
                    op = 0
                    for sqi, c in ((s1, c1), (s2, c2)):
                        if not 0 <= sqi < 64:
                            continue
                        if c == 1:
                            ownp |= 1 << sqi
                            oo |= 1 << sqi
                        elif c == 2:
                            op |= 1 << sqi
                    env = {pawns: ownp, occ_own: oo, occ_opp: op}
                    def per_path(o, p=p):
                        e_ = {idx_of(o): p}
                        if id(o) in scan_env:
                            e_[scan_env[id(o)]] = 1 << p
                        return e_
                    ms = matching(its, env, skip=lambda a: a[0] == 'discr' or has_call(a, 'inline_size'), envf=per_path)
                    if not ms:
                        bad.append((sq_name(1 << p), (c1, c2), 'paths=0'))
                        continue
                    n += 1
                    gots = set()
                    for m in ms:
                        env2 = dict(env)
                        env2[idx_of(m)] = p
                        g = 0
                        for e in m.events:
                            if e[0] == 'call' and e[1].endswith('::push'):
                                tup = e[2][1]
                                if ev(tup[4][0][1], env2) != 1 << p:
                                    bad.append((sq_name(1 << p), 'origin'))
                                g |= ev(tup[4][1][1], env2)
                        gots.add(g)
                    if len(gots) != 1:
                        bad.append((sq_name(1 << p), (c1, c2), 'ambiguous paths'))
                        continue
                    got = gots.pop()
                    want = 0
                    if c1 == 0:
                        want |= 1 << s1
                        if p // 8 == start and c2 == 0:
                            want |= 1 << s2
                    if got != want:
                        bad.append((sq_name(1 << p), (c1, c2), sorted(sq_name(1 << x) for x in squares(got)), sorted(sq_name(1 << x) for x in squares(want))))
        except Unevaluable as e:
            ctx.anchor_missing(rule, name, '%s: term not evaluable %s' % (col, show(e.args[0])[:80]))
            continue
        ctx.ob(rule, name, '%s: single/double push targets for every pawn square and blocker configuration (%d cases)' % (col, n), not bad,
               found=bad[:4], expected='single step if free; double step from the start rank if both squares are free')
    ctx.floor(rule, 'pawn geometry obligations', sum(1 for o in ctx.obligations if o[0] == rule), 6)


# ---------------------------------------------------------------------------------------------------------
def pawn_attack_init(ctx, facts, name, parts, col):
    """True when, for this colour, the union of the attack map starts from the set-wise pawn attacks of the own pawns: the initial value
    of the accumulator is a shift/mask expression of the pawn set that denotes, for every single pawn, exactly its two forward
    diagonals (such expressions distribute over union).  A string describes the first discrepancy otherwise."""
    outs = Engine(facts, opaque=parts).run(name, args=[None, None, COLORS[col]])
    pawns = ('fld', ('idx', ('fld', ('fld', ('der', ('p', 2)), col.lower()), 'bitboards'), C(facts.variant_discr(PIECE_ADT, 'Pawn'))), '0')
    inits = set()
    for o in outs:
        if o.kind != 'backedge':
            continue
        head = [e for e in o.events if e[0] == 'loop_head'][-1]
        for l, t in (o.locals or {}).items():
            f0 = t
            if t[0] == 'agg' and t[4]:
                f0 = t[4][0][1]
            elif t[0] == 'upd':
                f0 = t[4]
            if f0[0] == 'bin' and f0[1] == 'BitOr' and any(s_[0] == 'lv' and s_[2] == l for s_ in subterms(f0)):
                if head[3].get(l) is not None:
                    inits.add(head[3][l])
    if len(inits) != 1:
        return 'no single initial value of the union'
    init = next(iter(inits))
    core = init[4][0][1] if init[0] == 'agg' and init[4] else init

    def linear(t):
        if t == pawns:
            return True
        if t[0] == 'c':
            return True
        if t[0] == 'bin' and t[1] in ('Shl', 'Shr'):
            return linear(t[2]) and is_const(t[3])
        if t[0] == 'bin' and t[1] == 'BitAnd':
            return (linear(t[2]) and is_const(t[3])) or (is_const(t[2]) and linear(t[3]))
        if t[0] == 'bin' and t[1] == 'BitOr':
            return linear(t[2]) and linear(t[3])
        if t[0] == 'un' and t[1] == 'Not':
            return is_const(t[2])
        return False
    if not linear(core):
        return 'initial value is not a shift/mask expression of the own pawns: ' + show(core)[:120]
    try:
        for i in range(64):
            got = ev(core, {pawns: 1 << i})
            if got != geom(i, pawn_dirs(col)):
                return 'pawn on %s attacks %s' % (sq_name(1 << i), sorted(sq_name(1 << x) for x in squares(got)))
    except Unevaluable:
        return 'not evaluable'
    return True


def r5_attack_map(ctx):
    rule = 'C01.R5-attack-map'
    facts = ctx.facts
    name = GAT
    parts = {TGT + 'generate_pawn_attack_targets', TGT + 'Targets::generate_sliding_targets', TGT + 'Targets::generate_targets_from_precomputed_tables'}
    outs = Engine(facts, opaque=parts).run(name)
    ctx.touch(name)
    ok = False
    found = None
    for o in outs:
        calls = [e for e in o.events if e[0] == 'call' and e[1] in parts]
        sig = []
        for e in calls:
            nm = e[1].rsplit('::', 1)[-1]
            if nm == 'generate_targets_from_precomputed_tables':
                pc = e[2][4]
                sig.append(nm + ':' + (pc[3] if pc[0] == 'agg' else show(pc)))
            else:
                sig.append(nm)
        found = sig
        same = all(show(e[2][-2 if 'precomputed' in e[1] else -1]) for e in calls)
        cols = {e[2][3] if 'precomputed' in e[1] or 'sliding' in e[1] else e[2][2] for e in calls}
        boards = {show(e[2][2] if 'precomputed' in e[1] or 'sliding' in e[1] else e[2][1]) for e in calls}
        lists = {show(e[2][1] if 'precomputed' in e[1] or 'sliding' in e[1] else e[2][0]) for e in calls}
        if set(sig) == {'generate_pawn_attack_targets', 'generate_sliding_targets', 'generate_targets_from_precomputed_tables:Knight',
                        'generate_targets_from_precomputed_tables:King'} and cols == {('p', 3)} and len(boards) == 1 and len(lists) == 1:
            ok = True
    # the pawn contribution may also be computed set-wise and used as the initial value of the union (decided per colour below)
    setwise = {}
    if not ok:
        for col in ('White', 'Black'):
            setwise[col] = pawn_attack_init(ctx, facts, name, parts, col)
        if all(v is True for v in setwise.values()):
            for o in outs:
                calls = [e for e in o.events if e[0] == 'call' and e[1] in parts]
                sig = set()
                for e in calls:
                    nm = e[1].rsplit('::', 1)[-1]
                    sig.add(nm + ':' + e[2][4][3] if nm == 'generate_targets_from_precomputed_tables' and e[2][4][0] == 'agg' else nm)
                cols = {e[2][3] for e in calls}
                if sig == {'generate_sliding_targets', 'generate_targets_from_precomputed_tables:Knight', 'generate_targets_from_precomputed_tables:King'} and cols == {('p', 3)}:
                    ok = True
    ctx.ob(rule, name, 'pawn, sliding, knight and king contributions for the same colour, board and list', ok, found={'calls': found, 'set-wise pawn attacks': setwise or None},
           expected=['pawn attacks', 'sliding', 'Knight table', 'King table'], why='a piece class missing from the attack map lets the king stand on a square it attacks')
    # union loop: attack_targets |= targets for every element
    backs = [o for o in outs if o.kind == 'backedge']
    oku = False
    for o in backs:
        head = [e for e in o.events if e[0] == 'loop_head'][-1]
        for l, t in (o.locals or {}).items():
            f0 = t
            if t[0] == 'agg' and t[4]:
                f0 = t[4][0][1]
            elif t[0] == 'upd':
                f0 = t[4]
            if f0[0] == 'bin' and f0[1] == 'BitOr' and any(s[0] == 'lv' and s[2] == l for s in subterms(f0)):
                init = head[3].get(l)
                oku = init is not None and (bb_of(init) == 0 or all(v is True for v in setwise.values()) and bool(setwise))
    if not oku:
        # the same union written as a fold: list.iter().fold(EMPTY, |acc, &(_, t)| acc | t) returned as the result
        for o in outs:
            if o.kind != 'return' or not o.value or o.value[0] != 'call' or not o.value[1].endswith('::fold'):
                continue
            it, init, clo = o.value[2][0], o.value[2][1], o.value[2][2]
            lists = {show(strip_refs(e[2][1] if 'precomputed' in e[1] or 'sliding' in e[1] else e[2][0])) for e in o.events if e[0] == 'call' and e[1] in parts}
            if clo[0] == 'agg' and clo[1] == 'closure' and bb_of(init) == 0 and len(lists) == 1:
                co = Engine(facts).run(clo[2])
                ctx.touch(clo[2])
                if len(co) == 1 and co[0].kind == 'return' and not co[0].conds:
                    v = co[0].value
                    core = v[4][0][1] if v[0] == 'agg' and v[4] else v
                    acc, el = ('fld', ('p', 2), '0'), ('fld', ('fld', ('der', ('p', 3)), '1'), '0')
                    oku = core in (('bin', 'BitOr', acc, el), ('bin', 'BitOr', el, acc))
    ctx.ob(rule, name, 'result = union of all target sets, starting from EMPTY', oku, expected='attack_targets |= targets')
    # sliding arms
    name = TGT + 'Targets::generate_sliding_targets'
    ro = {PS + '::get', MT + 'get_rook_targets', MT + 'get_bishop_targets'}
    outs = Engine(facts, readonly=ro).run(name)
    ctx.touch(name)
    pd = {v['discr']: v['name'] for v in facts.adts[PIECE_ADT]['variants']}
    arms = {}
    blockers = set()
    excl = set()
    for o in outs:
        if o.kind != 'backedge':
            continue
        pc = [v for a, v in o.conds if a[0] == 'discr' and a[1][0] == 'fld' and a[1][2] == 'Some.0' and a[1][1][0] == 'call' and a[1][1][1] == PS + '::get']
        pushes = [e for e in o.events if e[0] == 'call' and e[1].endswith('::push')]
        if not pushes:
            if pc and isinstance(pc[0], int):
                arms[pd.get(pc[0])] = 'skip'
            elif pc:
                arms['<other>'] = 'skip'
            continue
        tup = pushes[0][2][1]
        tgt = tup[4][1][1]
        calls = sorted({s[1].rsplit('::', 1)[-1] for s in subterms(tgt) if s[0] == 'call' and s[1].startswith(MT)})
        arms[pd.get(pc[0]) if pc and isinstance(pc[0], int) else '?'] = '|'.join(calls)
        for s in subterms(tgt):
            if s[0] == 'call' and s[1].startswith(MT):
                blockers.add(show(s[2][2]))
        # own-piece exclusion: t ^ (own & t)
        core = tgt[4][0][1] if tgt[0] == 'agg' else tgt
        if core[0] == 'bin' and core[1] == 'BitXor':
            excl.add('t ^ (own & t)')
        elif core[0] == 'bin' and core[1] == 'BitAnd' and any(x[0] == 'un' for x in (core[2], core[3])):
            excl.add('t & !own')
        else:
            excl.add('other: ' + show(core)[:60])
    want = {'Rook': 'get_rook_targets', 'Bishop': 'get_bishop_targets', 'Queen': 'get_bishop_targets|get_rook_targets'}
    got = {k: v for k, v in arms.items() if v != 'skip'}
    ctx.ob(rule, name, 'Rook -> rook lookup, Bishop -> bishop lookup, Queen -> union, others skipped', got == want, found=arms, expected=want)
    ctx.ob('C01.R9-slider-blockers', name, 'blockers = whole-board occupancy', len(blockers) == 1 and 'white.occupied' in next(iter(blockers)) and 'black.occupied' in next(iter(blockers)),
           found=sorted(blockers), expected='white.occupied | black.occupied', why='own pieces alone would let sliders pass through enemy pieces')
    ctx.ob('C01.R6-own-piece-exclusion', name, 'slider targets exclude own pieces', excl and all(not e.startswith('other') for e in excl), found=sorted(excl), expected='t ^ (own & t)')
    # leaper exclusion
    name = TGT + 'Targets::generate_targets_from_precomputed_tables'
    outs = Engine(facts, readonly={TGT + 'Targets::get_precomputed_targets'}).run(name)
    ctx.touch(name)
    okx = False
    for o in outs:
        for e in o.events:
            if e[0] == 'call' and e[1].endswith('::push'):
                tgt = e[2][1][4][1][1]
                s = show(tgt)
                okx = 'get_precomputed_targets' in s and 'Not(' in s and '.occupied' in s and 'BitAnd' in s
    ctx.ob('C01.R6-own-piece-exclusion', name, 'leaper targets = table & !own occupancy', okx, expected='get_precomputed_targets(sq, piece) & !occupied(own)')


def r4b_pawn_captures(ctx):
    """pawn capture targets = attack targets masked with the OPPONENT's occupancy; only non-empty intersections are kept"""
    rule = 'C01.R4-pawn-captures'
    facts = ctx.facts
    name = MGM + 'generate_pawn_moves'
    opaque = {TGT + 'generate_pawn_move_targets', TGT + 'generate_pawn_attack_targets', MGM + 'expand_piece_targets', MGM + 'generate_en_passant_moves'}
    outs = Engine(facts, opaque=opaque, readonly={BOARD + '::pieces', PS + '::occupied', CHESSMOVE + '::to_square', CHESSMOVE + '::from_square', CHESSMOVE + '::captures'},
                  max_paths=4000).run(name)
    ctx.touch(name)
    # the per-element body that fills the capture list, written as a closure (for_each) or as a loop
    bodies = iteration_bodies(facts, name, outs)
    found, n_push, ok_all = [], 0, True
    for b in bodies:
        for e in b['events']:
            if not (e[0] == 'call' and e[1].endswith('::push')):
                continue
            dst = strip_refs_t(e[2][0])
            if dst == ('p', 1):
                continue                      # pushes onto the caller's move list (promotions), not onto the capture list
            tup = e[2][1]
            if not (tup[0] == 'agg' and len(tup[4]) == 2):
                continue
            n_push += 1
            pawn_t, tgt = tup[4][0][1], tup[4][1][1]
            core = tgt[4][0][1] if tgt[0] == 'agg' else tgt
            okp = False
            if core[0] == 'bin' and core[1] == 'BitAnd':
                for x, m in ((core[2], core[3]), (core[3], core[2])):
                    ms = show(m)
                    is_mask = 'occupied' in ms and 'pieces' in ms and 'opposite(arg3)' in ms
                    # x = <elem>.1.0 and pawn = <elem>.0 for the same element
                    el = x[1][1] if (x[0] == 'fld' and x[2] == '0' and x[1][0] == 'fld' and x[1][2] == '1') else None
                    same = el is not None and pawn_t == ('fld', el, '0')
                    guarded = any(a == core and not is_false(v) for a, v in b['conds'])
                    if is_mask and same and guarded:
                        okp = True
            found.append({'form': b['form'], 'pushed': show(tup)[:200], 'conds': [show_cond(c) for c in b['conds']][-2:]})
            ok_all = ok_all and okp
    if n_push == 0:
        ctx.anchor_missing(rule, name, 'no push onto the capture-target list found (closure or loop)')
        return
    ctx.ob(rule, name, 'capture mask = occupancy of the opponent (color.opposite())', ok_all and n_push >= 1, found=found,
           expected='if target.overlaps(mask) { push((pawn, target & mask)) } with mask = board.pieces(color.opposite()).occupied()',
           why='masking with the own occupancy would let pawns capture their own pieces and never the enemy\'s')
    ctx.ob(rule, name, 'kept target = attack squares & mask, only when non-empty, for the same pawn', ok_all and n_push >= 1, found=found,
           expected='if target.overlaps(mask) { push((pawn, target & mask)) }')
    # the attack targets fed to the closure are those of the same colour
    gen = [e for o in outs for e in o.events if e[0] == 'call' and e[1] == TGT + 'generate_pawn_attack_targets']
    okc = bool(gen) and all(e[2][2] == ('p', 3) and e[2][1] == ('ref', ('der', ('p', 2))) for e in gen)
    ctx.ob(rule, name, 'attack targets generated for the mover on this board', okc, expected='generate_pawn_attack_targets(&mut attack_targets, board, color)', nontrivial=False)


def promotion_loop_form(ctx, name, names, cd):
    """generate_pawn_moves as ONE pass over the expanded pawn moves: `for m in all_pawn_moves { if m.to & LAST_RANK == 0 { standard.push(m) }
    else { for p in PAWN_PROMOTIONS { moves.push(promotion(m, p)) } } }; moves.append(&mut standard)`.  Decided per colour on the paths round
    the loop (inner loop over the constant walked element by element): which mask is tested, that a move on the mask yields exactly the
    promotions of the constant in order (and is not kept as an ordinary move), that any other move is kept exactly once, and that the kept
    list is appended to the caller's list once, after the loop.  None when the function does not have this shape."""
    facts = ctx.facts
    own_helpers = {h for h in facts.only_through({name}) if h != name and facts.fns[h].kind != 'Closure'}
    EXP = MGM + 'expand_piece_targets'
    res = {'masks': {}, 'split_ok': True, 'expansion_ok': True}
    for col in ('White', 'Black'):
        try:
            outs = Engine(facts, opaque={TGT + 'generate_pawn_move_targets', TGT + 'generate_pawn_attack_targets', EXP, MGM + 'generate_en_passant_moves'},
                          readonly={CHESSMOVE + '::to_square', CHESSMOVE + '::from_square', CHESSMOVE + '::captures'}, max_paths=4000,
                          inline_loops=own_helpers, unroll=True).run(name, args=[None, None, COLORS[col]])
        except PathLimit:
            return None
        seen_on = seen_off = seen_exit = False
        for o in outs:
            if o.kind in ('abort',):
                continue
            heads = [e for e in o.events if e[0] == 'loop_head' and not isinstance(e[2], tuple)]
            if not heads:
                continue
            h = heads[-1]
            exp = [e for e in o.events if e[0] == 'call' and e[1] == EXP]
            its = [v_ for v_ in h[3].values() if isinstance(v_, tuple) and v_[0] == 'call' and v_[1].endswith('into_iter')]
            # the loop walks the list expand_piece_targets has just filled
            if not exp or len(its) != 1 or not any(s_ == ('hv', exp[-1][3]) for s_ in subterms(its[0])):
                continue
            after = o.events[o.events.index(h) + 1:]
            inside = o.conds[h[4]:]
            nxt = [c for c in inside if c[0][0] == 'discr' and c[0][1][0] == 'call' and c[0][1][1].endswith('::next')]
            if len(nxt) != 1:
                return None
            elem = ('fld', nxt[0][0][1], 'Some.0')
            pushes = [e for e in after if e[0] == 'call' and e[1].endswith('::push')]
            if nxt[0][1] == 0:
                # after the loop: the kept list goes onto the caller's list exactly once
                apps = [e for e in after if e[0] == 'call' and (e[1].endswith('::append') or e[1].endswith('::extend')) and e[2][0] == ('ref', ('der', ('p', 1)))]
                res['split_ok'] = res['split_ok'] and len(apps) == 1 and o.kind == 'return'
                seen_exit = True
                continue
            if o.kind != 'backedge':
                return None
            tests = [c for c in inside if c is not nxt[0]]
            masks = set()
            on = None
            for a, v in tests:
                ks = [s_[1] for s_ in subterms(a) if s_[0] == 'c' and isinstance(s_[1], int) and not isinstance(s_[1], bool) and s_[1] in (RANK[8], RANK[1])]
                if a[0] == 'bin' and a[1] == 'BitAnd' and len(ks) == 1 and any(s_[0] == 'call' and s_[1] == CHESSMOVE + '::to_square' and is_iteration_element(s_[2][0]) for s_ in subterms(a)):
                    masks.add(ks[0])
                    on = not (v == 0)
                else:
                    return None
            if len(masks) != 1 or on is None:
                return None
            m_ = masks.pop()
            if res['masks'].setdefault(cd[col], m_) != m_:
                return None
            promo = [e for e in pushes if e[2][1][0] == 'agg' and e[2][1][3] == 'PawnPromotion']
            keep = [e for e in pushes if strip_refs(e[2][1]) == elem or (e[2][1][0] == 'call' and e[2][1][1].endswith('Clone>::clone') and strip_refs(e[2][1][2][0]) == elem)]
            if on:
                seen_on = True
                kinds = []
                good = len(promo) == len(pushes) == len(names or []) and not keep
                for e in promo:
                    f = dict(dict(e[2][1][4])['0'][4])
                    kinds.append(f['promote_to_piece'][3] if f['promote_to_piece'][0] == 'agg' else show(f['promote_to_piece']))
                    good = good and e[2][0] == ('ref', ('der', ('p', 1))) and 'from_square' in show(f['from_square']) and 'to_square' in show(f['to_square']) \
                        and 'captures' in show(f['captures'])
                res['expansion_ok'] = res['expansion_ok'] and good and kinds == list(names or [])
                res['split_ok'] = res['split_ok'] and not keep
            else:
                seen_off = True
                res['split_ok'] = res['split_ok'] and len(pushes) == 1 and len(keep) == 1 and not promo
        if not (seen_on and seen_off and seen_exit):
            return None
    return res


def r7_promotions(ctx):
    rule = 'C01.R7-promotion-set'
    facts = ctx.facts
    v = facts.consts.get(MGM + 'PAWN_PROMOTIONS')
    names = [x[2] for x in v[1]] if isinstance(v, tuple) and v[0] == 'array' else None
    ctx.ob(rule, MGM + 'PAWN_PROMOTIONS', 'exactly {Queen, Rook, Bishop, Knight}', names is not None and sorted(names) == ['Bishop', 'Knight', 'Queen', 'Rook'] and len(names) == 4,
           found=names, expected=['Queen', 'Rook', 'Bishop', 'Knight'])
    ctx.ob(rule, MGM + 'PAWN_PROMOTIONS', 'queen first (a coordinate pair naming a promotion plays the queen)', bool(names) and names[0] == 'Queen', found=names, nontrivial=False)
    # partition predicate: the last-rank mask per colour, wherever the colour is tested (inside the predicate or hoisted out of it)
    name = MGM + 'generate_pawn_moves'
    tbl = {}
    pouts = Engine(facts, opaque={TGT + 'generate_pawn_move_targets', TGT + 'generate_pawn_attack_targets', MGM + 'expand_piece_targets', MGM + 'generate_en_passant_moves'},
                   readonly={CHESSMOVE + '::to_square', CHESSMOVE + '::from_square', CHESSMOVE + '::captures'}, max_paths=4000).run(name)
    part_clo = set()
    for o in pouts:
        for e in o.events:
            if e[0] == 'call' and e[1].endswith('Iterator::partition') and e[2][1][0] == 'agg' and e[2][1][1] == 'closure':
                part_clo.add(e[2][1][2])
    polarity_ok = True
    for b in iteration_bodies(facts, name, pouts, engine=lambda: Engine(facts, readonly={CHESSMOVE + '::to_square'})):
        if b['form'] != 'closure' or b['where'] not in part_clo or b['value'] is None:
            continue
        ctx.touch(b['where'])
        cdv = [v2 for a, v2 in b['conds'] + b['parent_conds'] if a == ('discr', ('p', 3)) and isinstance(v2, int)]
        val = b['value']
        masks = [s_[1] for s_ in subterms(val) if s_[0] == 'c' and isinstance(s_[1], int) and not isinstance(s_[1], bool) and s_[1] in (RANK[8], RANK[1])]
        if len(set(cdv)) == 1 and len(masks) == 1:
            if cdv[0] in tbl and tbl[cdv[0]] != masks[0]:
                tbl[cdv[0]] = None
            else:
                tbl[cdv[0]] = masks[0]
            # true = "stays an ordinary move": the predicate must be `to & rank == 0`
            try:
                sq_t = [s_ for s_ in subterms(val) if s_[0] == 'call' and s_[1] == CHESSMOVE + '::to_square']
                on = ev(val, {('fld', sq_t[0], '0'): masks[0] & -masks[0], sq_t[0]: masks[0] & -masks[0]}) if sq_t else None
                off = ev(val, {('fld', sq_t[0], '0'): 1 << 27, sq_t[0]: 1 << 27}) if sq_t else None
                polarity_ok = polarity_ok and on == 0 and off == 1
            except Unevaluable:
                polarity_ok = False
    cd = cdiscr(facts)
    want = {cd['White']: RANK[8], cd['Black']: RANK[1]}
    loop_form = None
    if not part_clo:
        loop_form = promotion_loop_form(ctx, name, names, cd)
        if loop_form:
            tbl, polarity_ok = loop_form['masks'], True
    ctx.ob(rule, name, 'promotion rank: rank 8 for White, rank 1 for Black', tbl == want and polarity_ok, found={k: hex(v) for k, v in tbl.items()}, expected={k: hex(v) for k, v in want.items()})
    # expansion over the whole constant
    fn = facts.need_fn(name)
    # private helpers that only generate_pawn_moves calls are part of it (also when they contain the expansion loop)
    own_helpers = {h for h in facts.only_through({name}) if h != name and facts.fns[h].kind != 'Closure'}
    outs = Engine(facts, opaque={TGT + 'generate_pawn_move_targets', TGT + 'generate_pawn_attack_targets', MGM + 'expand_piece_targets', MGM + 'generate_en_passant_moves'},
                  readonly={CHESSMOVE + '::to_square', CHESSMOVE + '::from_square', CHESSMOVE + '::captures'}, max_paths=4000, inline_loops=own_helpers).run(name)
    ctx.touch(name)
    okp = False
    adapter_over_set = False

    def over_promotions(src):
        # the source must be the whole constant: iter()/into_iter() directly on (a reference to) it — no take/skip/slicing in between
        if src[0] != 'call' or src[1].rsplit('::', 1)[-1] not in ('iter', 'into_iter') or len(src[2]) != 1:
            return False
        a = src[2][0]
        for _ in range(8):
            if a[0] in ('ref', 'K', 'der'):
                a = a[1]
            elif a[0] == 'call' and (a[1].endswith('Deref>::deref') or a[1].endswith('as_slice')) and len(a[2]) == 1:
                a = a[2][0]
            else:
                break
        if a[0] == 'named' and a[1].endswith('PAWN_PROMOTIONS'):
            return True
        return a[0] == 'agg' and a[1] == 'array' and [x[3] for _, x in a[4] if x[0] == 'agg'] == names
    for o in outs:
        # adapter spelling (`flat_map(|m| PAWN_PROMOTIONS.iter().map(..))`, `for_each`): the elements of an adapter whose source is the constant
        inner = {e[2][1] for e in o.events if e[0] == 'adapter' and over_promotions(e[3])}
        for e in o.events:
            if e[0] == 'call' and e[1].endswith('::push'):
                mv = e[2][1]
                if mv[0] == 'agg' and mv[3] == 'PawnPromotion':
                    f = dict(dict(mv[4])['0'][4])
                    src = show(f['promote_to_piece'])
                    from_adapter = any(s_[0] == 'elem' and s_[1] in inner for s_ in subterms(f['promote_to_piece']))
                    adapter_over_set = adapter_over_set or from_adapter
                    okp = 'from_square' in show(f['from_square']) and 'to_square' in show(f['to_square']) and 'captures' in show(f['captures']) and \
                        ('PAWN_PROMOTIONS' in src or 'next' in src or from_adapter)
    # every standard pawn move that reaches the caller's list went through the last-rank split
    appended = set()
    for o in outs:
        if o.kind != 'return':
            continue
        for e in o.events:
            if e[0] == 'call' and (e[1].endswith('::append') or e[1].endswith('::extend') or e[1].endswith('::push')) and e[2][0] == ('ref', ('der', ('p', 1))):
                if e[1].endswith('::push'):
                    mv = e[2][1]
                    appended.add('push:' + (mv[3] if mv[0] == 'agg' else '?'))
                else:
                    src = e[2][1]
                    srcs = show(src)
                    part = [s for s in subterms(src) if s[0] == 'call' and s[1].endswith('Iterator::partition')]
                    if part and (srcs.rstrip(')').endswith('.0') or '.0)' in srcs[-6:] or srcs.endswith('.0')):
                        appended.add('append:partition.0')
                    elif src[0] == 'ref' and src[1][0] == 'L':
                        appended.add('append:local')
                    else:
                        appended.add('append:' + srcs[:60])
    # the engine snapshots only shared refs; `append(&mut standard_pawn_moves)` shows as a local: resolve through the partition destructuring
    fn = facts.need_fn(name)
    n_append = sum(1 for b, t_ in fn.calls() if (facts.callee_name(t_) or '').endswith('SmallVec::<A>::append'))
    n_partition = sum(1 for b, t_ in fn.calls() if (facts.callee_name(t_) or '').endswith('Iterator::partition'))
    # every return path that appends pawn moves must have performed the split
    unsplit = 0
    for o in outs:
        if o.kind != 'return':
            continue
        evs = [e[1] for e in o.events if e[0] == 'call']
        has_append = any(x.endswith('SmallVec::<A>::append') for x in evs)
        has_part = any(x.endswith('Iterator::partition') for x in evs)
        if has_append and not has_part:
            unsplit += 1
    split_ok = unsplit == 0 and n_partition == 1 and n_append == 1
    if loop_form:
        split_ok = loop_form['split_ok']
        okp, iters = okp and loop_form['expansion_ok'], True
    ctx.ob(rule, name, 'no pawn move reaches the list without passing the last-rank split', split_ok,
           found={'return paths appending without the split': unsplit, 'append sites': n_append, 'partition sites': n_partition, 'single-pass loop': bool(loop_form)},
           expected='partition by promotion rank on every path; one append of the non-promoting part',
           why='a pawn move onto the last rank that is emitted as an ordinary move leaves a pawn on the first/eighth rank')
    iters = False
    for o in outs:
        for e in o.events:
            if e[0] == 'call' and e[1].endswith('into_iter'):
                a = strip_refs(e[2][0])
                if a[0] == 'named' and a[1].endswith('PAWN_PROMOTIONS'):
                    iters = True
                if a[0] == 'agg' and a[1] == 'array' and [x[3] for _, x in a[4] if x[0] == 'agg'] == names:
                    iters = True
    ctx.ob(rule, name, 'each promotable move is expanded over every element of PAWN_PROMOTIONS, keeping from/to/capture', okp and (iters or adapter_over_set),
           expected='for &promotion in &PAWN_PROMOTIONS { push(PawnPromotion::new(from, to, captures, promotion)) }')


def r8_captures(ctx):
    rule = 'C01.R8-capture-annotation'
    facts = ctx.facts
    name = MGM + 'expand_piece_targets'
    outs = Engine(facts, readonly={PS + '::get', BOARD + '::pieces'}).run(name)
    ctx.touch(name)
    ok = False
    found = None
    for o in outs:
        for e in o.events:
            if e[0] == 'call' and e[1].endswith('::push'):
                mv = e[2][1]
                if mv[0] == 'agg' and mv[3] == 'Standard':
                    f = dict(dict(mv[4])['0'][4])
                    cap = f['captures']
                    found = show(cap)[:200]
                    gets = [s for s in subterms(cap) if s[0] == 'call' and s[1] == PS + '::get']
                    for g in gets:
                        pcs = [s for s in subterms(g) if s[0] == 'call' and s[1] == BOARD + '::pieces']
                        if pcs and pcs[0][2][1] == ('call', OPP, (('p', 3),), None):
                            ok = True
    # with pieces() expanded the colour shows as the opposite side's field; accept either form
    if not ok:
        outs2 = Engine(facts, readonly={PS + '::get'}).run(name)
        cd = cdiscr(facts)
        good = 0
        total = 0
        for o in outs2:
            for e in o.events:
                if e[0] == 'call' and e[1].endswith('::push') and e[2][1][0] == 'agg' and e[2][1][3] == 'Standard':
                    total += 1
                    f = dict(dict(e[2][1][4])['0'][4])
                    side = [s[2] for s in subterms(f['captures']) if s[0] == 'fld' and s[2] in ('white', 'black')]
                    opp_d = [v for a, v in o.conds if a == ('discr', ('call', OPP, (('p', 3),), None))]
                    if side and opp_d:
                        want = 'white' if opp_d[0] == cd['White'] else 'black'
                        good += side[0] == want
                    found = show(f['captures'])[:200]
        ok = total > 0 and good == total
    ctx.ob(rule, name, 'capture recorded = piece of the opponent on the target square', ok, found=found,
           expected='board.pieces(color.opposite()).get(target).map(Capture)', why='apply checks the recorded capture against what is really removed')


def r9_position_invariants(ctx):
    """The generator trusts the board: it offers castling whenever the right is still held and the squares are free, and an en-passant
    capture whenever a target is set.  On positions reached by legal play that is sound only if making a move maintains "right held =>
    king and rook on their home squares" and "target set => a pawn just stepped over it" - the effect tables of `apply` (the rule
    instances of C03.R1-R3 / C12.R5).  A rights table that forgets a case (rook takes rook between home corners) makes the generator
    offer a castle with a rook that is gone."""
    from . import c03
    sub = type(ctx)(ctx.prop, ctx.tier, ctx.facts, ctx.facts_info, ctx.seed)
    R = c03.rights_consts(sub)
    if R is not None:
        c03.standard_rules(sub, R)
        c03.r2_castle(sub, R)
        c03.r3_en_passant(sub)
    n = 0
    for s in sub.samples:
        inst = s['instance']
        if 'rights' in inst or 'row(' in inst or 'ep target' in inst or 'floor' in inst or 'single bits' in inst or 'relocated' in inst:
            n += 1
            ctx.ob('C01.R9-position-invariants', s['function'], inst, s['ok'], found=s['found'], expected=s['expected'],
                   why='castling and en passant are generated from the rights and the target the board holds: a right that survives the '
                       'departure or capture of its rook, or a target that does not follow a double step, yields an illegal move',
                   nontrivial='floor' not in inst)
    ctx.floor('C01.R9-position-invariants', 'imported effect-table instances', n, 10)


ALL_RULES = None        # filled below


def run(ctx):
    r1_filter_dominance(ctx)
    r2_filter_shape(ctx)
    r3_castle_guards(ctx)
    r4_pawn_geometry(ctx)
    r4b_pawn_captures(ctx)
    r5_attack_map(ctx)
    r7_promotions(ctx)
    r8_captures(ctx)
    r9_position_invariants(ctx)


ALL_RULES = [r1_filter_dominance, r2_filter_shape, r3_castle_guards, r4_pawn_geometry, r4b_pawn_captures, r5_attack_map, r7_promotions,
             r8_captures, r9_position_invariants]
