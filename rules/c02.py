"""C02 — move and attack queries do not depend on what the generator was asked before (cache-key coverage)."""
from sa.sym import Engine, show, show_cond, subterms, C, is_const, PathLimit
from sa.facts import field_reads, field_writes
from .common import *
from .tables import is_true, is_false
from . import c05

EXPLANATION = (
    'Static clauses: (R1) both caches are probed and filled under the same key term, built from the position key of the board argument '
    'and the colour argument of the query, and what is stored is exactly what is returned; (R2) everything move generation and attack '
    'generation read from the board (transitive field read-set of the call graph of generate_valid_moves / generate_attack_targets, cut'
    " at ChessMove::apply/undo) is covered by the position key or by the key's colour component: piece sets, castle-rights stack top, "
    'en-passant stack top - and nothing else (no turn, clocks or repetition state); (R3) the position key depends on the stack tops '
    'only and placement / stacks change only through their owner methods, which toggle it (imports C05.R1-R5 incl. who-may-write: no '
    "`&mut PieceSet` outside the board module, no in-place piece swap behind the key's back); (R4) no other mutable state of the "
    'generator can reach an answer: its remaining fields are written only at construction. 64-bit key collisions between different '
    'positions and LRU eviction are NOT decided. R4 does not count a function that only asks a cache for its size (len / is_empty / '
    'capacity on a shared borrow that flows nowhere else) as a user of the cache.'
)
ASSUMPTIONS = [
    "LruCache::get/put and HashMap::get/insert return what was stored under an equal key",
    "the position key covers placement, rights and ep target exactly (C05)",
    "rustc MIR construction and the chessfacts extractor are faithful",
]

MG = 'chess::move_generator::MoveGenerator'
TG = 'chess::move_generator::targets::Targets'
GVM = 'chess::move_generator::generate_valid_moves'
GAT = TG + '::generate_attack_targets'
HASH = BOARD + '::current_position_hash'
MI = 'chess::board::move_info::MoveInfo'
PI = 'chess::board::position_info::PositionInfo'
PS = 'chess::board::piece_set::PieceSet'


def r1_key_composition(ctx):
    rule = 'C02.R1-key-composition'
    facts = ctx.facts
    # ---- move cache
    name = MG + '::generate_moves'
    outs = Engine(facts, opaque={GVM}, readonly={HASH}).run(name)
    ctx.touch(name)
    want_key = {('call', HASH, (('ref', ('der', ('p', 2))),), ('e', 0)), ('cast', ('discr', ('p', 3)), 'u8')}
    miss = [o for o in outs if o.kind == 'return' and any(e[0] == 'call' and e[1] == GVM for e in o.events)]
    hit = [o for o in outs if o.kind == 'return' and not any(e[0] == 'call' and e[1] == GVM for e in o.events)]
    for o in miss:
        gets = [e for e in o.events if e[0] == 'call' and e[1].endswith('LruCache::<K, V, S>::get')]
        puts = [e for e in o.events if e[0] == 'call' and e[1].endswith('LruCache::<K, V, S>::put')]
        gen = [e for e in o.events if e[0] == 'call' and e[1] == GVM]
        ok = len(gets) == 1 and len(puts) == 1 and len(gen) == 1
        kg = kp = None
        if ok:
            kg = strip_ref(gets[0][2][1])
            kp = puts[0][2][1]
            comps = set(x for _, x in kg[4]) if kg[0] == 'agg' else set()
            ok = kg == kp and comps == want_key
        ctx.ob(rule, name, 'miss path: probed and stored under (position key of the board argument, colour argument)', ok,
               found={'get': show(kg) if kg else None, 'put': show(kp) if kp else None}, expected='(board.current_position_hash(), player as u8) for both',
               why='a key that ignores the queried colour or uses another board\'s key serves one position the answer of another')
        if len(gen) == 1 and len(puts) == 1:
            g = ('call', GVM, gen[0][2], gen[0][3])
            stored = puts[0][2][2]
            same = (strip_clone(stored) == g and strip_clone(o.value) == g)
            args_ok = gen[0][2][0] == ('ref', ('der', ('p', 2))) and gen[0][2][1] == ('p', 3)
            ctx.ob(rule, name, 'miss path: generates for the queried board and colour; stores and returns that list', same and args_ok,
                   found={'generated': show(g), 'stored': show(stored)[:120], 'returned': show(o.value)[:120]}, expected='moves = generate_valid_moves(board, player); put(key, moves.clone()); moves')
    for o in hit:
        gets = [e for e in o.events if e[0] == 'call' and e[1].endswith('LruCache::<K, V, S>::get')]
        val = strip_clone(o.value)
        if val[0] == 'ref':
            val = val[1]
        ok = len(gets) == 1 and val == ('der', ('fld', ('call', gets[0][1], gets[0][2], gets[0][3]), 'Some.0'))
        ctx.ob(rule, name, 'hit path: returns the cached list', ok, found=show(o.value)[:160], expected='cached.clone()')
    ctx.floor(rule, 'paths of generate_moves', len(miss) + len(hit), 2)
    # ---- attack cache
    name = MG + '::get_attack_targets'
    outs = Engine(facts, opaque={GAT}, readonly={HASH}).run(name)
    ctx.touch(name)
    n = 0
    for o in outs:
        if o.kind != 'return':
            continue
        n += 1
        gets = [e for e in o.events if e[0] == 'call' and e[1].endswith('HashMap::<K, V, S, A>::get')]
        ins = [e for e in o.events if e[0] == 'call' and e[1].endswith('HashMap::<K, V, S, A>::insert')]
        gen = [e for e in o.events if e[0] == 'call' and e[1] == GAT]
        if gen:
            ok = len(gets) == 1 and len(ins) == 1
            kg = kp = None
            if ok:
                kg = strip_ref(gets[0][2][1])
                kp = ins[0][2][1]
                comps = set(x for _, x in kg[4]) if kg[0] == 'agg' else set()
                g = ('call', GAT, gen[0][2], gen[0][3])
                ok = kg == kp and comps == want_key and ins[0][2][2] == g and o.value == g and gen[0][2][1] == ('ref', ('der', ('p', 2))) and gen[0][2][2] == ('p', 3)
            ctx.ob(rule, name, 'miss path: same (colour, position key) for lookup and insert; stores and returns the generated set', ok,
                   found={'get': show(kg) if kg else None, 'insert': show(kp) if kp else None, 'returned': show(o.value)[:100]},
                   expected='((player as u8, hash)) for both; value = generate_attack_targets(board, player)')
        else:
            ok = len(gets) == 1 and any(s[0] == 'call' and s[1].endswith('::get') for s in subterms(o.value))
            ctx.ob(rule, name, 'hit path: returns the cached set', ok, found=show(o.value)[:160], expected='cached')
    ctx.floor(rule, 'paths of get_attack_targets', n, 2)


def strip_ref(t):
    while t[0] == 'ref' and t[1][0] == 'K':
        t = t[1][1]
    return t


def strip_clone(t):
    while t[0] == 'call' and t[1].endswith('Clone>::clone'):
        t = t[2][0]
        t = strip_ref(t)
    return t


_USER_CACHE = {}


def move_cache_user(facts, name):
    """A method of the generator other than generate_moves that also works on the move cache (e.g. a `count_moves` that only needs the
    length): summary {'ok': every probe / store uses the key (position key of its board argument, its colour argument as u8) and every
    store puts generate_valid_moves(board, colour) of those same arguments, 'len_only': every value it returns is the length of the
    cached or the generated list, 'board': i, 'color': j, 'problems': [...]}"""
    key = (id(facts), name)
    if key in _USER_CACHE:
        return _USER_CACHE[key]
    f = facts.fns.get(name)
    res = {'ok': False, 'len_only': False, 'problems': []}
    if f is not None:
        pb = [i for i in range(1, f.arg_count + 1) if f.local_ty(i) in ('&mut ' + BOARD, '&' + BOARD)]
        pc = [i for i in range(1, f.arg_count + 1) if f.local_ty(i) == 'chess::board::color::Color']
        if len(pb) == 1 and len(pc) == 1:
            PB_, PC_ = ('p', pb[0]), ('p', pc[0])
            res['board'], res['color'] = pb[0], pc[0]
            want_key = {('call', HASH, (('ref', ('der', PB_)),), ('e', 0)), ('cast', ('discr', PC_), 'u8')}
            try:
                outs = Engine(facts, opaque={GVM}, readonly={HASH}).run(name)
            except PathLimit:
                outs = []
                res['problems'].append('path limit')
            ok = bool(outs)
            len_only = bool(outs)
            for o in outs:
                if o.kind != 'return':
                    continue
                lru = [e for e in o.events if e[0] == 'call' and 'LruCache' in e[1]]
                gens = [('call', GVM, e[2], e[3]) for e in o.events if e[0] == 'call' and e[1] == GVM]
                for e in lru:
                    m_ = e[1].rsplit('::', 1)[-1]
                    if m_ in ('len', 'is_empty', 'cap'):
                        continue
                    if m_ not in ('get', 'put', 'peek', 'contains'):
                        ok = False
                        res['problems'].append('cache operation ' + m_)
                        continue
                    k_ = strip_ref(e[2][1])
                    comps = set(x for _, x in k_[4]) if k_[0] == 'agg' else set()
                    if comps != want_key:
                        ok = False
                        res['problems'].append('key ' + show(k_)[:100])
                    if m_ == 'put':
                        st_ = strip_clone(e[2][2])
                        if not (st_ in gens and st_[2][0] == ('ref', ('der', PB_)) and st_[2][1] == PC_):
                            ok = False
                            res['problems'].append('stores ' + show(e[2][2])[:100])
                v = o.value
                inner = v[2][0] if (v is not None and v[0] == 'call' and v[1].endswith('::len') and len(v[2]) == 1) else None
                good = False
                if inner is not None:
                    srcs = [s_ for s_ in subterms(inner) if s_[0] == 'call' and (s_[1] == GVM or ('LruCache' in s_[1] and s_[1].rsplit('::', 1)[-1] in ('get', 'peek')))]
                    good = len(srcs) == 1 and (srcs[0][1] != GVM or (srcs[0][2][0] == ('ref', ('der', PB_)) and srcs[0][2][1] == PC_))
                len_only = len_only and good
            res['ok'] = ok
            res['len_only'] = ok and len_only
    _USER_CACHE[key] = res
    return res


ALLOWED_READS = {
    (BOARD, 'white'): 'placement (in the position key)',
    (BOARD, 'black'): 'placement (in the position key)',
    (BOARD, 'move_info'): 'container of the stacks',
    (MI, 'castle_rights_stack'): 'castling rights (top is in the position key)',
    (MI, 'en_passant_target_stack'): 'en-passant target (top is in the position key)',
    (PS, 'bitboards'): 'placement',
    (PS, 'occupied'): 'placement summary',
}


def r2_read_set(ctx):
    rule = 'C02.R2-read-set-coverage'
    facts = ctx.facts
    stop = {CHESSMOVE + '::apply', CHESSMOVE + '::undo'}
    for root, what in ((GVM, 'move generation'), (GAT, 'attack generation')):
        reach = facts.reachable_fns([root], stop=stop)
        reach_chess = {n for n in reach if n in facts.fns and facts.fns[n].crate == 'chess'}
        ctx.touch(root)
        found = {}
        for adt in (BOARD, MI, PI, PS):
            for f, b, fld in field_reads(facts, adt):
                owner = f.closure_of or f.name
                if f.name in reach_chess or owner in reach_chess:
                    found.setdefault((adt, fld), set()).add(f.name)
        bad = {k: sorted(v)[:3] for k, v in found.items() if k not in ALLOWED_READS}
        ctx.ob(rule, root, '%s reads only state covered by the cache key (%d fields read in %d functions)' % (what, len(found), len(reach_chess)),
               not bad, found={'%s.%s' % (k[0].rsplit('::', 1)[-1], k[1]): v for k, v in bad.items()},
               expected=sorted('%s.%s' % (k[0].rsplit('::', 1)[-1], k[1]) for k in ALLOWED_READS),
               why='an answer that depends on the turn, a clock or the repetition table is cached under a key that ignores it')
        ctx.floor(rule, 'functions reachable from ' + root.rsplit('::', 1)[-1], len(reach_chess), 8)
        # stack reads are reads of the top only
        for st in ('castle_rights_stack', 'en_passant_target_stack'):
            readers = found.get((MI, st), set())
            ok = all(r in (MI + '::peek_castle_rights', MI + '::peek_en_passant_target') for r in readers)
            if readers:
                ctx.ob(rule, root, '%s is read through its peek accessor only' % st, ok, found=sorted(readers), expected='peek_*', nontrivial=False)
    for nm in (MI + '::peek_castle_rights', MI + '::peek_en_passant_target'):
        outs = Engine(facts).run(nm)
        rets = [o for o in outs if o.kind == 'return']
        ok = len(rets) == 1 and any(s[0] == 'call' and s[1].endswith('::last') for s in subterms(rets[0].value))
        ctx.ob(rule, nm, 'returns the top of its stack', ok, found=show(rets[0].value) if rets else None, expected='*stack.last().unwrap()')


def r4_unkeyed_state(ctx):
    rule = 'C02.R4-unkeyed-state'
    facts = ctx.facts
    spec = {MG: {'cache', 'hit_count', 'targets'}, TG: {'attacks_cache'}}
    for adt, allowed in spec.items():
        a = facts.adts.get(adt)
        if a is None:
            ctx.anchor_missing(rule, adt)
            continue
        written = {}
        for f, b, how, fld in field_writes(facts, adt):
            if f.derived or f.impl_trait == 'std::default::Default':
                continue
            written.setdefault(fld, set()).add(f.name)
        extra = {k: sorted(v) for k, v in written.items() if k not in allowed}
        ctx.ob(rule, adt, 'fields written after construction ⊆ %s' % sorted(allowed), not extra, found=extra, expected={},
               why='any other mutable state that reaches an answer would have to be keyed like the caches')
        fields = [fd['name'] for v in a['variants'] for fd in v['fields']]
        ctx.extra.setdefault('generator_fields', {})[adt.rsplit('::', 1)[-1]] = fields
    # who may touch the caches: a second writer with its own idea of the key poisons later answers
    gate = facts.only_through({MG + '::get_attack_targets'})      # get_attack_targets and helpers that only it calls
    sites = {f.name for f, b in facts.call_sites(TG + '::cache_attack', crate='chess', kinds=('lib', 'bin'))}
    ctx.ob(rule, TG + '::cache_attack', 'attack cache filled only by MoveGenerator::get_attack_targets', bool(sites) and sites <= gate,
           found=sorted(sites), expected=[MG + '::get_attack_targets'],
           why='every cache entry must be written under the key its reader will use (checked for that one site by R1)')
    sites = {f.name for f, b in facts.call_sites(TG + '::get_cached_attack', crate='chess', kinds=('lib', 'bin'))}
    ctx.ob(rule, TG + '::get_cached_attack', 'attack cache read only by MoveGenerator::get_attack_targets', sites <= gate,
           found=sorted(sites), expected=[MG + '::get_attack_targets'], nontrivial=False)
    from sa.facts import field_reads
    users = {(f.closure_of or f.name) for f, b, fl in field_reads(facts, TG, 'attacks_cache')} | {(f.closure_of or f.name) for f, b, how, fl in field_writes(facts, TG, 'attacks_cache')}
    users = {u for u in users if not facts.fns[u].derived and facts.fns[u].impl_trait != 'std::default::Default'}
    ctx.ob(rule, TG + '.attacks_cache', 'field used only by its two accessors', users <= {TG + '::cache_attack', TG + '::get_cached_attack'}, found=sorted(users),
           expected=[TG + '::cache_attack', TG + '::get_cached_attack'])
    users = {(f.closure_of or f.name) for f, b, fl in field_reads(facts, MG, 'cache')} | {(f.closure_of or f.name) for f, b, how, fl in field_writes(facts, MG, 'cache')}
    from sa.facts import size_only_use
    # (a reader that only asks how many entries there are - statistics, a Display impl - neither changes nor hands out what is cached)
    users = {u for u in users if not facts.fns[u].derived and facts.fns[u].impl_trait != 'std::default::Default'
             and (u in (MG + '::generate_moves',) or not size_only_use(facts, facts.fns[u], MG, 'cache'))}
    # a second method working on the cache is admitted when it obeys the same key discipline as generate_moves (same key, stores what
    # generate_valid_moves returns for the queried board and colour)
    for u in sorted(users - {MG + '::generate_moves'}):
        if u.startswith(MG + '::'):
            r_ = move_cache_user(facts, u)
            ctx.touch(u)
            ctx.ob(rule, u, 'second user of the move cache: same key, stores the generated list of the queried board and colour', r_['ok'],
                   found=r_['problems'][:3], expected='(board.current_position_hash(), player as u8); put(key, generate_valid_moves(board, player))')
            if r_['ok']:
                users = users - {u}
    ctx.ob(rule, MG + '.cache', 'move cache used only by generate_moves (and the entry counter)', users <= {MG + '::generate_moves'},
           found=sorted(users), expected=[MG + '::generate_moves', MG + '::cache_entry_count'])
    # hit_count never reaches a result
    name = MG + '::generate_moves'
    outs = Engine(facts, opaque={GVM}, readonly={HASH}).run(name)
    leak = any(any(s[0] == 'fld' and s[2] == 'hit_count' for s in subterms(o.value)) for o in outs if o.value)
    leak = leak or any(any(s[0] == 'fld' and s[2] == 'hit_count' for s in subterms(a)) for o in outs for a, v in o.conds)
    ctx.ob(rule, name, 'hit counter does not influence the answer', not leak, expected='counter only incremented')


def all_rules(ctx):
    run(ctx)


def run(ctx):
    r1_key_composition(ctx)
    r2_read_set(ctx)
    sub = type(ctx)(ctx.prop, ctx.tier, ctx.facts, ctx.facts_info, ctx.seed)
    c05.r1_placement(sub)
    c05.r23_stacks(sub)
    c05.r5_tables(sub)
    c05.r4_who_may_write(sub)      # placement / rights / ep target changed behind the key's back (an in-place piece swap) = one key, two positions
    for s in sub.samples:
        ctx.ob(s['rule'].replace('C05.', 'C02.R3/C05.'), s['function'], s['instance'], s['ok'], found=s['found'], expected=s['expected'],
               why='two different positions must never share a cache key: the key has to be a function of the current position only',
               nontrivial='floor' not in s['instance'])
    r4_unkeyed_state(ctx)
