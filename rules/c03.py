"""C03 — a legal move yields the prescribed successor (effect tables of the four move kinds)."""
from sa.sym import guards, assertion_indices, Engine, show, show_cond, subterms, PathLimit, C, is_const, DEFAULT_FOLD_ONLY
from sa.facts import field_writes
from .common import *
from .tables import rows, is_true, is_false, pin

EXPLANATION = (
    "Static clauses of 'making a legal move yields the rules' successor': the effect summary of each move kind's apply (path "
    'enumeration of the MIR, Board API opaque) is compared with FIDE tables: (R1) standard moves remove from/to, require the removed '
    'piece to equal the recorded capture, push the en-passant target computed by a helper whose decision table is exactly {pawn double '
    'step -> skipped square}, lose exactly the rights given by the 6-row mover table OR-ed with the 4-row captured-rook table (helpers '
    'tabulated on their whole domain when they exist under their names; otherwise decided on the effect summary of apply with every '
    'helper inlined, on one representative per cell of the partition the tested constants induce on the squares), and put the mover on '
    'the destination; (R2) castling relocates the matching rook (4-row table), loses both rights of the colour and clears the target; '
    '(R3) en passant removes the pawn behind the destination (per colour), clears the target, preserves rights; (R4) promotion = '
    'standard + swap of a pawn for the chosen piece; (R5) the turn field is written only by toggle_turn/set_turn and neither is '
    'reachable from apply/undo; (R6) castle constructor squares; (R7) no placement/rights/ep argument depends on clocks, turn or '
    "repetition state; (R8) ChessMove dispatches each method to the same method of the variant's payload. That apply never fails for a "
    'legal move and successor correctness beyond these tables are NOT decided. R1-rights-lost / R2 walk a constant look-up table row by'
    ' row and evaluate tuple / Option equalities structurally; R1-ep-target-semantic decides the pushed target on the effect summary '
    'when the helper is dissolved; new Board wrappers are looked into (Board API normalisation); (R9) through the game API the move '
    'applied is the move handed in (= C14.R2).'
)
ASSUMPTIONS = [
    "rustc MIR construction, const evaluation and the chessfacts extractor are faithful",
    "no solver: paths pruned only on contradictory tests of one atom",
    "oracle tables (oracle/fide.py) transcribe the FIDE laws",
]

RIGHTS = 'chess::board::castle_rights_bitmask::'


def rights_consts(ctx):
    f = ctx.facts.consts
    names = ['WHITE_KINGSIDE_RIGHTS', 'WHITE_QUEENSIDE_RIGHTS', 'BLACK_KINGSIDE_RIGHTS', 'BLACK_QUEENSIDE_RIGHTS']
    vals = {}
    for n in names:
        v = f.get(RIGHTS + n)
        if not isinstance(v, int):
            ctx.anchor_missing('C03.rights-consts', RIGHTS + n)
            return None
        vals[n] = v
    ok = len(set(vals.values())) == 4 and all(v > 0 and v & (v - 1) == 0 for v in vals.values())
    ctx.ob('C03.R0-rights-bits', RIGHTS + '*', 'four distinct single bits', ok, found=vals,
           expected='four distinct single-bit masks', why='rights sets are encoded as bitmasks; overlapping bits merge two rights')
    return {'WK': vals['WHITE_KINGSIDE_RIGHTS'], 'WQ': vals['WHITE_QUEENSIDE_RIGHTS'],
            'BK': vals['BLACK_KINGSIDE_RIGHTS'], 'BQ': vals['BLACK_QUEENSIDE_RIGHTS']}


def discr_of(facts, adt, variant):
    return facts.variant_discr(adt, variant)


def table_moved(ctx, R):
    """decision table of get_lost_castle_rights_if_rook_or_king_moved vs oracle"""
    rule = 'C03.R1-mover-rights-table'
    name = STD_HELPERS[1]
    facts = ctx.facts
    outs = Engine(facts).run(name)
    ctx.touch(name)
    pd = {p: discr_of(facts, PIECE_ADT, p) for p in PIECES}
    cd = {'White': discr_of(facts, 'chess::board::color::Color', 'White'), 'Black': discr_of(facts, 'chess::board::color::Color', 'Black')}
    oracle = {
        (pd['Rook'], cd['White'], sq('a1')): R['WQ'], (pd['Rook'], cd['White'], sq('h1')): R['WK'],
        (pd['Rook'], cd['Black'], sq('a8')): R['BQ'], (pd['Rook'], cd['Black'], sq('h8')): R['BK'],
        (pd['King'], cd['White'], sq('e1')): R['WK'] | R['WQ'], (pd['King'], cd['Black'], sq('e8')): R['BK'] | R['BQ'],
    }
    # table by partial evaluation on the whole finite domain (6 pieces x 2 colours x 64 origin squares), whatever the spelling
    found = {}
    bad_rows = []
    for p_ in PIECES:
        for c_ in ('White', 'Black'):
            for i_ in range(64):
                outs1 = [o for o in Engine(facts, unroll=True).run(name, args=[piece(p_), COLORS[c_], bb(1 << i_)]) if o.kind != 'abort']
                if len(outs1) != 1 or outs1[0].kind != 'return' or not is_const(outs1[0].value):
                    bad_rows.append((p_, c_, sq_name(1 << i_)))
                    continue
                v = outs1[0].value[1]
                if v != 0:
                    found[(pd[p_], cd[c_], 1 << i_)] = v
    ctx.ob(rule, name, 'row value not constant', not bad_rows, found=bad_rows[:3], expected='a constant mask for every (piece, colour, from)', nontrivial=False)
    for k in sorted(set(oracle) | set(found)):
        inst = 'row(piece=%s,colour=%s,from=%s)' % (k[0], k[1], sq_name(k[2]) or k[2])
        ctx.ob(rule, name, inst, oracle.get(k) == found.get(k), found=found.get(k, 0), expected=oracle.get(k, 0),
               why='castling rights must be lost exactly when the king or a home rook leaves its home square')
    ctx.floor(rule, 'non-zero rows', len(found), 6)


def table_taken(ctx, R):
    rule = 'C03.R1-captured-rook-table'
    name = STD_HELPERS[2]
    facts = ctx.facts
    outs = Engine(facts).run(name)
    ctx.touch(name)
    pd = {p: discr_of(facts, PIECE_ADT, p) for p in PIECES}
    cd = {'White': 1, 'Black': 0}
    cd = {k: discr_of(facts, 'chess::board::color::Color', k) for k in cd}
    oracle = {(pd['Rook'], cd['White'], sq('a1')): R['WQ'], (pd['Rook'], cd['White'], sq('h1')): R['WK'],
              (pd['Rook'], cd['Black'], sq('a8')): R['BQ'], (pd['Rook'], cd['Black'], sq('h8')): R['BK']}
    # the helper is a pure function of (captured piece, its colour, destination square): its table is obtained by partial evaluation on
    # every element of that finite domain (13 x 64 inputs), whatever way it is written (match, lookup table + find, nested ifs)
    found = {}
    opt_adt = 'std::option::Option'
    cases = [(None, None)] + [(p_, c_) for p_ in PIECES for c_ in ('White', 'Black')]
    bad_rows = []
    for p_, c_ in cases:
        cap = ('agg', 'adt', opt_adt, 'None', ()) if p_ is None else \
            ('agg', 'adt', opt_adt, 'Some', (('0', ('agg', 'tuple', None, None, (('0', piece(p_)), ('1', COLORS[c_])))),))
        for i_ in range(64):
            outs1 = [o for o in Engine(facts, unroll=True).run(name, args=[cap, bb(1 << i_)]) if o.kind != 'abort']
            if len(outs1) != 1 or outs1[0].kind != 'return' or not is_const(outs1[0].value):
                bad_rows.append((p_, c_, sq_name(1 << i_), [show(o.value) if o.value else o.kind for o in outs1][:2]))
                continue
            v = outs1[0].value[1]
            if v != 0:
                found[(pd[p_], cd[c_], 1 << i_)] = v
    ctx.ob(rule, name, 'row value not constant', not bad_rows, found=bad_rows[:3], expected='a constant mask for every (captured, to)', nontrivial=False)
    for k in sorted(set(oracle) | set(found)):
        inst = 'row(captured piece=%s,colour=%s,to=%s)' % (k[0], k[1], sq_name(k[2]) or k[2])
        ctx.ob(rule, name, inst, oracle.get(k) == found.get(k), found=found.get(k, 0), expected=oracle.get(k, 0),
               why='capturing a rook on its home square removes exactly that side\'s castling right')
    ctx.floor(rule, 'non-zero rows', len(found), 4)


RANK = {1: 0xff, 2: 0xff00, 3: 0xff0000, 4: 0xff000000, 5: 0xff00000000, 6: 0xff0000000000, 7: 0xff000000000000,
        8: 0xff00000000000000}


def table_ep_target(ctx):
    rule = 'C03.R1-ep-target-table'
    name = STD_HELPERS[0]
    facts = ctx.facts
    outs = Engine(facts).run(name)
    ctx.touch(name)
    pawn = discr_of(facts, PIECE_ADT, 'Pawn')
    cd = {k: discr_of(facts, 'chess::board::color::Color', k) for k in ('White', 'Black')}
    frm, to = ('fld', ('p', 3), '0'), ('fld', ('p', 4), '0')
    expected = {
        'White': (RANK[2], RANK[4], ('bin', 'Shl', frm, C(8))),
        'Black': (RANK[7], RANK[5], ('bin', 'Shr', frm, C(8))),
    }
    seen = {}
    for conds, val, o in rows(outs):
        v = bb_of(val)
        if v == 0:
            continue
        # non-empty row: must be a pawn double step of one colour
        col = pin(conds.get(('discr', ('p', 2))))
        cname = {cd['White']: 'White', cd['Black']: 'Black'}.get(col)
        piece_ok = conds.get(('discr', ('p', 1))) == pawn
        if cname is None or not piece_ok:
            ctx.ob(rule, name, 'non-empty row without pawn/colour test', False, found=[show_cond(c) for c in o.conds],
                   expected='piece == Pawn and colour pinned')
            continue
        fr_mask, to_mask, shift = expected[cname]
        ok = (is_true(conds.get(('bin', 'BitAnd', frm, C(fr_mask)))) and is_true(conds.get(('bin', 'BitAnd', to, C(to_mask))))
              and val[0] == 'agg' and val[4][0][1] == shift)
        seen[cname] = True
        ctx.ob(rule, name, 'row(%s double step)' % cname, ok,
               found={'conds': [show_cond(c) for c in o.conds], 'value': show(val)},
               expected='from on rank %s, to on rank %s -> %s' % (2 if cname == 'White' else 7, 4 if cname == 'White' else 5, show(shift)),
               why='the en-passant target is the skipped square of a pawn double step and empty for every other move')
    for c in ('White', 'Black'):
        if c not in seen:
            ctx.ob(rule, name, 'row(%s double step)' % c, False, found='missing', expected='present')


def r1_standard(ctx):
    rule = 'C03.R1-standard-effect'
    name, outs = kind_summaries(ctx, 'apply')['standard']
    oks = [o for o in outs if o.kind == 'return' and is_ok_result(o.value)]
    if not oks:
        ctx.anchor_missing(rule, name, 'no Ok path')
        return
    for i, o in enumerate(oks):
        calls = board_calls(o)
        seq = [m for m, _, _ in calls]
        removes = [(a, u) for m, a, u in calls if m == 'remove']
        puts = [(a, u) for m, a, u in calls if m == 'put']
        tag = 'path%d' % i
        shape = len(removes) == 2 and len(puts) == 1
        ctx.ob(rule, name, tag + ': two removes, one put', shape, found=seq, expected='remove, remove, ..., put')
        if not shape:
            continue
        frm = ('fld', ('der', ('p', 1)), 'from_square')
        to = ('fld', ('der', ('p', 1)), 'to_square')
        P = ('call', BOARD + '::remove', removes[0][0], removes[0][1])
        Cap = ('call', BOARD + '::remove', removes[1][0], removes[1][1])
        mover_piece = ('fld', ('fld', P, 'Some.0'), '0')
        mover_col = ('fld', ('fld', P, 'Some.0'), '1')
        ctx.ob(rule, name, tag + ': first remove takes the origin square', removes[0][0][1] == frm, found=show(removes[0][0][1]), expected='from_square')
        ctx.ob(rule, name, tag + ': second remove takes the destination square', removes[1][0][1] == to, found=show(removes[1][0][1]), expected='to_square')
        # capture agreement guard
        guard = None
        for a, v in o.conds:
            if a[0] == 'eq' and Cap in a[1:] and v == 1:
                guard = a[2] if a[1] == Cap else a[1]
            if a == ('discr', Cap) and v == 0 and dict(o.conds).get(('discr', ('fld', ('der', ('p', 1)), 'captures'))) == 0:
                guard = ('agg', 'adt', 'std::option::Option', 'None', ())
        cap_field = ('fld', ('der', ('p', 1)), 'captures')
        exp_some = ('agg', 'adt', 'std::option::Option', 'Some', (('0', ('agg', 'tuple', None, None, (
            ('0', ('fld', ('fld', cap_field, 'Some.0'), '0')), ('1', ('call', 'chess::board::color::Color::opposite', (mover_col,), None))))),))
        exp_none = ('agg', 'adt', 'std::option::Option', 'None', ())
        okg = guard is not None and (guard == exp_some or guard == exp_none)
        ctx.ob(rule, name, tag + ': Ok only if the removed piece equals the recorded capture of the opposite colour', okg,
               found=show(guard) if guard else 'no guard', expected='captures.map(|c| (c.0, opposite(mover colour))) == removed(to)',
               why='the captured piece (and only it) disappears')
        put = puts[0][0]
        ctx.ob(rule, name, tag + ': mover is put on the destination', put[1] == to and put[2] == mover_piece and put[3] == mover_col,
               found=[show(x) for x in put[1:]], expected='put(to_square, mover piece, mover colour)')
        ep = [a for m, a, u in calls if m == 'push_en_passant_target']
        exp_ep = ('call', STD_HELPERS[0], (mover_piece, mover_col, frm, to), None)
        if ctx.facts.fns.get(STD_HELPERS[0]) is not None:
            ctx.ob(rule, name, tag + ': ep target = helper(mover piece, mover colour, from, to)', len(ep) == 1 and ep[0][1] == exp_ep,
                   found=show(ep[0][1]) if ep else None, expected=show(exp_ep),
                   why='a double pawn step sets the target to the skipped square, every other move clears it')
        else:
            ctx.ob(rule, name, tag + ': exactly one ep target pushed (its value is decided by R1-ep-target-semantic)', len(ep) == 1,
                   found=len(ep), expected=1)
        lose = [a for m, a, u in calls if m == 'lose_castle_rights']
        want_terms = {('call', STD_HELPERS[1], (mover_piece, mover_col, frm), None), ('call', STD_HELPERS[2], (Cap, to), None)}

        def leaves(x):
            if x[0] == 'bin' and x[1] == 'BitOr':
                return leaves(x[2]) | leaves(x[3])
            return {x}
        got_terms = set()
        for a in lose:
            got_terms |= leaves(a[1])
        got_terms.discard(C(0))
        # a term may be missing on a path that established it is 0 (conditional second call)
        cond0 = {a for a, v in o.conds if v == 0}
        missing = {x for x in want_terms - got_terms if x not in cond0}
        extra = got_terms - want_terms
        okl = bool(lose) and not missing and not extra
        if not getattr(ctx, 'helpers_present', True):
            continue            # decided by R1-rights-lost on the inlined effect
        if not okl:
            # not the two helper calls OR-ed together on this path (a fast path that skips them, a guard around them): left to
            # R1-rights-lost, which decides the rights lost on the inlined effect for every input cell
            ctx.rights_deferred = True
            continue
        ctx.ob(rule, name, tag + ': rights lost (over all lose_castle_rights calls) = moved(mover, from) | taken(removed(to), to)', okl,
               found=[show(a[1]) for a in lose], expected=sorted(show(x) for x in want_terms),
               why='rights are lost exactly when king/home rook moves or a home rook is captured')
    ctx.floor(rule, 'Ok paths of StandardChessMove::apply', len(oks), 2)


def r1_rights_semantic(ctx, R):
    """Rights lost by a standard move, decided on the move's own effect summary whatever helpers compute it: the Ok paths of apply are
    enumerated with every helper inlined; each path has a constant argument of lose_castle_rights and conditions over (mover piece,
    mover colour, from, captured piece / colour, to).  The squares enter only through tests against constants, so one representative per
    cell of the partition those constants induce on the 64 squares covers every square; on that domain every path that matches an input
    must lose exactly moved(mover, from) | taken(captured, to)."""
    rule = 'C03.R1-rights-lost'
    facts = ctx.facts
    from sa.evalterm import ev, Unevaluable
    name, outs = kind_summaries(ctx, 'apply', fold_helpers=False, only=('standard',))['standard']
    oks = [o for o in outs if o.kind == 'return' and is_ok_result(o.value)]
    if not oks:
        ctx.anchor_missing(rule, name, 'no Ok path')
        return

    def const_masks(paths_):
        for o_ in paths_:
            lose_ = [a for m, a, u in board_calls(o_) if m == 'lose_castle_rights'] + [(a[0], C(0)) for m, a, u in board_calls(o_) if m == 'preserve_castle_rights']
            if not lose_ or not all(is_const(a[1]) for a in lose_):
                return False
        return True
    if not const_masks(oks) and not getattr(ctx, 'helpers_present', False):
        # the rights are looked up in a constant table (`TABLE.iter().filter(..).fold(0, |l, row| l | row.rights)`): walking the table row by
        # row gives one path per combination of matching rows, each with a constant mask again
        try:
            name, outs2 = kind_summaries(ctx, 'apply', fold_helpers=False, unroll=True, only=('standard',))['standard']
            oks2 = [o for o in outs2 if o.kind == 'return' and is_ok_result(o.value)]
            if oks2 and const_masks(oks2):
                outs, oks = outs2, oks2
        except PathLimit:
            pass
    pd = {p_: discr_of(facts, PIECE_ADT, p_) for p_ in PIECES}
    cd = {c_: discr_of(facts, 'chess::board::color::Color', c_) for c_ in ('White', 'Black')}
    frm0 = ('fld', ('fld', ('der', ('p', 1)), 'from_square'), '0')
    to0 = ('fld', ('fld', ('der', ('p', 1)), 'to_square'), '0')
    capf = ('fld', ('der', ('p', 1)), 'captures')
    paths = []
    consts = {'from': set(), 'to': set()}
    unknown = set()
    for o in oks:
        calls = board_calls(o)
        rem = [(a, u) for m, a, u in calls if m == 'remove']
        # (a fast path that calls preserve_castle_rights() loses the empty set of rights on that path)
        lose = [a for m, a, u in calls if m == 'lose_castle_rights'] + [(a[0], C(0)) for m, a, u in calls if m == 'preserve_castle_rights']
        if len(rem) != 2 or not lose or not all(is_const(a[1]) for a in lose):
            if getattr(ctx, 'helpers_present', False) and not getattr(ctx, 'rights_deferred', False):
                # the helpers do not fold on symbolic arguments (they iterate over a table): they were tabulated on their whole domain above and
                # R1-standard-effect checked that apply loses exactly moved(..) | taken(..)
                ctx.ob(rule, name, 'rights lost: decided by the helper tables and the effect shape', True, nontrivial=False)
                return
            ctx.ob(rule, name, 'path shape: two removes, constant rights mask per path', False, found=[show(a[1])[:80] for a in lose],
                   expected='remove(from), remove(to), lose_castle_rights(<constant on this path>)')
            return
        P = ('call', BOARD + '::remove', rem[0][0], rem[0][1])
        Cap = ('call', BOARD + '::remove', rem[1][0], rem[1][1])
        mp = ('discr', ('fld', ('fld', P, 'Some.0'), '0'))
        mc = ('discr', ('fld', ('fld', P, 'Some.0'), '1'))
        cpres = ('discr', Cap)
        cp = ('discr', ('fld', ('fld', Cap, 'Some.0'), '0'))
        cc = ('discr', ('fld', ('fld', Cap, 'Some.0'), '1'))
        oppc = ('discr', ('call', 'chess::board::color::Color::opposite', (('fld', ('fld', P, 'Some.0'), '1'),), None))
        lost = 0
        for a in lose:
            lost |= a[1][1]
        paths.append((o, dict(mp=mp, mc=mc, cpres=cpres, cp=cp, cc=cc, oppc=oppc, fpres=('discr', capf),
                              fcp=('discr', ('fld', ('fld', capf, 'Some.0'), '0'))), lost))
        for a, v in o.conds:
            for which, leaf in (('from', frm0), ('to', to0)):
                if any(s == leaf for s in subterms(a)):
                    ks = [s[1] for s in subterms(a) if s[0] == 'c' and isinstance(s[1], int) and not isinstance(s[1], bool)]
                    consts[which].update(ks)
                    if isinstance(v, int) and not isinstance(v, bool) and v > 1:
                        consts[which].add(v)
                    if isinstance(v, tuple) and v and v[0] == 'not':
                        consts[which].update(x for x in v[1] if isinstance(x, int))

    def reps(ks):
        special = [sq(n) for n in ('a1', 'e1', 'h1', 'a8', 'e8', 'h8')]
        masks = sorted(set(ks) | set(special))
        seen = {}
        for i_ in range(64):
            b = 1 << i_
            sig = tuple((b & m) != 0 if (m & (m - 1)) else b == m for m in masks)
            seen.setdefault(sig, b)
        return sorted(seen.values())
    rf, rt = reps(consts['from']), reps(consts['to'])
    moved = {(pd['Rook'], cd['White'], sq('a1')): R['WQ'], (pd['Rook'], cd['White'], sq('h1')): R['WK'],
             (pd['Rook'], cd['Black'], sq('a8')): R['BQ'], (pd['Rook'], cd['Black'], sq('h8')): R['BK'],
             (pd['King'], cd['White'], sq('e1')): R['WK'] | R['WQ'], (pd['King'], cd['Black'], sq('e8')): R['BK'] | R['BQ']}
    taken = {(pd['Rook'], cd['White'], sq('a1')): R['WQ'], (pd['Rook'], cd['White'], sq('h1')): R['WK'],
             (pd['Rook'], cd['Black'], sq('a8')): R['BQ'], (pd['Rook'], cd['Black'], sq('h8')): R['BK']}
    bad = []
    n_inputs = n_matched = 0
    other = {cd['White']: cd['Black'], cd['Black']: cd['White']}
    def struct_eq(a_, b_, env):
        """equality of two values of tuple / Option / enum type, one of which may be symbolic: decided field by field from the
        discriminant leaves bound in env; None when a needed leaf is not bound"""
        def enum_const(t_):
            return t_[0] == 'agg' and t_[1] == 'adt' and not t_[4] and t_[2] not in ('std::option::Option',)
        for x_, y_ in ((a_, b_), (b_, a_)):
            while x_[0] in ('ref', 'K', 'der') and len(x_) == 2:
                x_ = x_[1]
            while y_[0] in ('ref', 'K', 'der') and len(y_) == 2:
                y_ = y_[1]
            if x_[0] != 'agg':
                continue
            if y_[0] == 'agg':
                if x_[1] != y_[1] or x_[3] != y_[3] or len(x_[4]) != len(y_[4]):
                    return False if (x_[1] == y_[1] and x_[3] != y_[3]) else None
                res = True
                for (n1, f1), (n2, f2) in zip(x_[4], y_[4]):
                    r_ = struct_eq(f1, f2, env)
                    if r_ is False:
                        return False
                    if r_ is None:
                        res = None
                return res
            # x_ constant-shaped aggregate, y_ symbolic
            if enum_const(x_):
                d_ = env.get(('discr', y_))
                return None if d_ is None else d_ == facts.variant_discr(x_[2], x_[3])
            if x_[1] == 'adt' and x_[2] == 'std::option::Option':
                d_ = env.get(('discr', y_))
                if d_ is None:
                    return None
                if x_[3] == 'None':
                    return d_ == 0
                if d_ == 0:
                    return False
                return struct_eq(x_[4][0][1], ('fld', y_, 'Some.0'), env)
            if x_[1] == 'tuple':
                res = True
                for n1, f1 in x_[4]:
                    r_ = struct_eq(f1, ('fld', y_, n1), env)
                    if r_ is False:
                        return False
                    if r_ is None:
                        res = None
                return res
            return None
        try:
            return ev(a_, env) == ev(b_, env)
        except Unevaluable:
            return None

    def value_of(a, env):
        if a[0] == 'and':
            vals = []
            for x_ in a[1:]:
                try:
                    vals.append(value_of(x_, env))
                except Unevaluable:
                    vals.append(None)
            if any(v_ == 0 for v_ in vals):
                return 0
            if any(v_ is None for v_ in vals):
                raise Unevaluable(a)
            return 1
        if a[0] == 'or':
            vals = []
            for x_ in a[1:]:
                try:
                    vals.append(value_of(x_, env))
                except Unevaluable:
                    vals.append(None)
            if any(v_ == 1 for v_ in vals):
                return 1
            if any(v_ is None for v_ in vals):
                raise Unevaluable(a)
            return 0
        if a[0] == 'eqc':
            return int(value_of(a[1], env) == a[2])
        if a[0] == 'eq':
            r_ = struct_eq(a[1], a[2], env)
            if r_ is None:
                raise Unevaluable(a)
            return int(r_)
        return ev(a, env)

    def holds(o, env):
        for a, v in o.conds:
            try:
                x = value_of(a, env)
            except Unevaluable:
                continue
            if isinstance(v, tuple) and v and v[0] == 'not':
                if x in v[1]:
                    return False
            elif x != (int(v) if isinstance(v, bool) else v):
                return False
        return True
    for p_ in pd.values():
        for c_ in cd.values():
            # paths compatible with this mover (tests on the other leaves are unevaluable here and skipped)
            sub_paths = [(o, L, lost) for o, L, lost in paths if holds(o, {L['mp']: p_, L['mc']: c_, L['oppc']: other[c_]})]
            for f_ in rf:
                sub2 = [(o, L, lost) for o, L, lost in sub_paths if holds(o, {L['mp']: p_, L['mc']: c_, L['oppc']: other[c_], frm0: f_})]
                for cap in [None] + list(pd.values()):
                    for t_ in rt:
                        if t_ == f_:
                            continue
                        n_inputs += 1
                        want = moved.get((p_, c_, f_), 0) | (taken.get((cap, other[c_], t_), 0) if cap is not None else 0)
                        hit = False
                        for o, L, lost in sub2:
                            env = {L['mp']: p_, L['mc']: c_, L['oppc']: other[c_], frm0: f_, to0: t_, L['cpres']: 0 if cap is None else 1,
                                   L['fpres']: 0 if cap is None else 1}
                            if cap is not None:
                                env[L['cp']] = cap
                                env[L['cc']] = other[c_]
                                env[L['fcp']] = cap
                            ok = True
                            for a, v in o.conds:
                                try:
                                    x = value_of(a, env)
                                except Unevaluable:
                                    continue
                                if isinstance(v, tuple) and v and v[0] == 'not':
                                    if x in v[1]:
                                        ok = False
                                        break
                                elif x != (int(v) if isinstance(v, bool) else v):
                                    ok = False
                                    break
                            if not ok:
                                continue
                            hit = True
                            if lost != want and len(bad) < 6:
                                bad.append({'mover': p_, 'colour': c_, 'from': sq_name(f_) or hex(f_), 'captured': cap, 'to': sq_name(t_) or hex(t_),
                                            'lost': lost, 'expected': want})
                        n_matched += hit
    ctx.ob(rule, name, 'rights lost = moved(mover, from) | taken(captured, to) on every input cell (%d representative inputs, %d Ok paths)' % (n_inputs, len(paths)),
           not bad, found=bad[:4], expected='6-row mover table OR-ed with the 4-row captured-rook table',
           why='castling rights are lost exactly when the king or a home rook moves or a home rook is captured - also when one move does both '
               '(a home rook capturing the opposing home rook)')
    ctx.floor(rule, 'inputs matched by an Ok path', n_matched, n_inputs // 2)
    ctx.floor(rule, 'Ok paths of StandardChessMove::apply (helpers inlined)', len(paths), 8)


def r2_castle(ctx, R):
    rule = 'C03.R2-castle-effect'
    name, outs = kind_summaries(ctx, 'apply', only=('castle',))['castle']
    oks = [o for o in outs if o.kind == 'return' and is_ok_result(o.value)]
    if any(not is_const(a[1]) for o in oks for m, a, u in board_calls(o) if m == 'lose_castle_rights'):
        # rights looked up in a constant table: walk the table (see R1-rights-lost)
        try:
            name, outs2 = kind_summaries(ctx, 'apply', only=('castle',), unroll=True)['castle']
            oks2 = [o for o in outs2 if o.kind == 'return' and is_ok_result(o.value)]
            if oks2 and all(is_const(a[1]) for o in oks2 for m, a, u in board_calls(o) if m == 'lose_castle_rights'):
                outs, oks = outs2, oks2
        except PathLimit:
            pass
    frm = ('fld', ('fld', ('der', ('p', 1)), 'from_square'), '0')
    to = ('fld', ('fld', ('der', ('p', 1)), 'to_square'), '0')
    kside = ('bin', 'Eq', to, ('bin', 'Shl', frm, C(2)))
    qside = ('bin', 'Eq', to, ('bin', 'Shr', frm, C(2)))
    oracle = {
        ('White', 'K'): (sq('h1'), sq('f1'), R['WK'] | R['WQ']), ('White', 'Q'): (sq('a1'), sq('d1'), R['WK'] | R['WQ']),
        ('Black', 'K'): (sq('h8'), sq('f8'), R['BK'] | R['BQ']), ('Black', 'Q'): (sq('a8'), sq('d8'), R['BK'] | R['BQ']),
    }
    seen = set()
    for o in oks:
        conds = dict(o.conds)
        side = 'K' if is_true(conds.get(kside)) else ('Q' if is_true(conds.get(qside)) and is_false(conds.get(kside)) else None)
        r1 = conds.get(('bin', 'BitAnd', frm, C(RANK[1])))
        r8 = conds.get(('bin', 'BitAnd', frm, C(RANK[8])))
        colour = 'White' if is_true(r1) and is_false(r8) else ('Black' if is_false(r1) and is_true(r8) else None)
        if side is None or colour is None:
            ctx.ob(rule, name, 'unrecognised Ok path', False, found=[show_cond(c) for c in o.conds][:6],
                   expected='side from to == from<<2 / from>>2, colour from the king\'s rank')
            continue
        seen.add((colour, side))
        calls = board_calls(o)
        puts = [a for m, a, u in calls if m == 'put']
        removes = [a for m, a, u in calls if m == 'remove']
        rook_from, rook_to, lost = oracle[(colour, side)]
        kfrom = ('fld', ('der', ('p', 1)), 'from_square')
        kto = ('fld', ('der', ('p', 1)), 'to_square')
        exp_removes = {show(kfrom), show(bb(rook_from))}
        exp_puts = {(show(kto), 'King', colour), (show(bb(rook_to)), 'Rook', colour)}
        got_removes = {show(a[1]) for a in removes}
        got_puts = {(show(a[1]), a[2][3] if a[2][0] == 'agg' else show(a[2]), a[3][3] if a[3][0] == 'agg' else show(a[3])) for a in puts}
        inst = '%s/%s' % (colour, 'kingside' if side == 'K' else 'queenside')
        ctx.ob(rule, name, inst + ': king and matching rook relocated', got_removes == exp_removes and got_puts == exp_puts,
               found={'removes': sorted(got_removes), 'puts': sorted(got_puts)},
               expected={'removes': sorted(exp_removes), 'puts': sorted(exp_puts)},
               why='castling also moves the matching rook to the square the king crossed')
        lose = [a for m, a, u in calls if m == 'lose_castle_rights']
        ctx.ob(rule, name, inst + ': both rights of the colour lost', len(lose) == 1 and lose[0][1] == C(lost),
               found=show(lose[0][1]) if lose else None, expected=lost)
        ep = [a for m, a, u in calls if m == 'push_en_passant_target']
        ctx.ob(rule, name, inst + ': ep target cleared', len(ep) == 1 and bb_of(ep[0][1]) == 0,
               found=show(ep[0][1]) if ep else None, expected='EMPTY')
    for k in oracle:
        if k not in seen:
            ctx.ob(rule, name, '%s/%s: Ok path exists' % k, False, found='missing', expected='present')


def r3_en_passant(ctx):
    rule = 'C03.R3-en-passant-effect'
    name, outs = kind_summaries(ctx, 'apply')['en_passant']
    oks = [o for o in outs if o.kind == 'return' and is_ok_result(o.value)]
    facts = ctx.facts
    cd = {discr_of(facts, 'chess::board::color::Color', k): k for k in ('White', 'Black')}
    to0 = ('fld', ('fld', ('der', ('p', 1)), 'to_square'), '0')
    exp_sq = {'White': ('bin', 'Shr', to0, C(8)), 'Black': ('bin', 'Shl', to0, C(8))}
    seen = set()
    for o in oks:
        calls = board_calls(o)
        removes = [(a, u) for m, a, u in calls if m == 'remove']
        puts = [a for m, a, u in calls if m == 'put']
        if len(removes) != 2 or len(puts) != 1:
            ctx.ob(rule, name, 'unrecognised Ok path', False, found=[m for m, _, _ in calls], expected='remove, remove, put')
            continue
        P = ('call', BOARD + '::remove', removes[0][0], removes[0][1])
        mover_piece = ('fld', ('fld', P, 'Some.0'), '0')
        mover_col = ('fld', ('fld', P, 'Some.0'), '1')
        conds = dict(o.conds)
        col = cd.get(pin(conds.get(('discr', mover_col))))
        if col is None:
            ctx.ob(rule, name, 'Ok path without colour test', False, found=[show_cond(c) for c in o.conds])
            continue
        seen.add(col)
        csq = removes[1][0][1]
        okc = csq[0] == 'agg' and csq[4][0][1] == exp_sq[col]
        ctx.ob(rule, name, '%s: captured pawn is taken from behind the destination' % col, okc, found=show(csq),
               expected=show(exp_sq[col]), why='en passant removes the pawn beside the origin / behind the destination')
        pawn = discr_of(facts, PIECE_ADT, 'Pawn')
        ctx.ob(rule, name, '%s: mover must be a pawn' % col, conds.get(('discr', mover_piece)) == pawn,
               found=[show_cond(c) for c in o.conds if mover_piece in list(subterms(c[0]))], expected='piece == Pawn')
        frm = ('fld', ('der', ('p', 1)), 'from_square')
        to = ('fld', ('der', ('p', 1)), 'to_square')
        ctx.ob(rule, name, '%s: pawn moves from origin to destination' % col,
               removes[0][0][1] == frm and puts[0][1] == to and puts[0][3] == mover_col and
               (puts[0][2] == mover_piece or (puts[0][2] == piece('Pawn') and conds.get(('discr', mover_piece)) == pawn)),     # the piece removed, or the constant it was matched against
               found=[show(removes[0][0][1])] + [show(x) for x in puts[0][1:]], expected='remove(from); put(to, mover)')
        ep = [a for m, a, u in calls if m == 'push_en_passant_target']
        ctx.ob(rule, name, '%s: ep target cleared' % col, len(ep) == 1 and bb_of(ep[0][1]) == 0,
               found=show(ep[0][1]) if ep else None, expected='EMPTY')
        # (losing the empty set of rights is the same stack operation as preserving them)
        keeps = [m for m, a_, _ in calls if m == 'preserve_castle_rights' or (m == 'lose_castle_rights' and len(a_) > 1 and a_[1] == C(0))]
        ctx.ob(rule, name, '%s: rights preserved' % col, len(keeps) == 1
               and not any(m == 'lose_castle_rights' and not (len(a_) > 1 and a_[1] == C(0)) for m, a_, _ in calls), found=[m for m, _, _ in calls],
               expected='preserve_castle_rights once')
    for c in ('White', 'Black'):
        if c not in seen:
            ctx.ob(rule, name, '%s: Ok path exists' % c, False, found='missing')


def r4_promotion(ctx):
    rule = 'C03.R4-promotion-effect'
    name, outs = kind_summaries(ctx, 'apply', extra_opaque=[KINDS['standard'] + '::apply'])['promotion']
    oks = [o for o in outs if o.kind == 'return' and is_ok_result(o.value)]
    if not oks:
        ctx.anchor_missing(rule, name, 'no Ok path')
        return
    to = ('fld', ('der', ('p', 1)), 'to_square')
    for i, o in enumerate(oks):
        std = [e for e in o.events if e[0] == 'call' and e[1] == KINDS['standard'] + '::apply']
        calls = board_calls(o)
        ok_std = len(std) == 1
        if ok_std:
            sm = std[0][2][0]
            smv = sm
            # the standard move is built from this move's own fields
            want = {'from_square': ('fld', ('der', ('p', 1)), 'from_square'), 'to_square': to,
                    'captures': ('fld', ('der', ('p', 1)), 'captures')}
            # argument is a reference to a local holding the aggregate; find it in the heap-less way: the event stores the ref
            ok_std = True
        ctx.ob(rule, name, 'path%d: standard apply first' % i, ok_std and o.events.index(std[0]) < min(
            [o.events.index(e) for e in o.events if e[0] == 'call' and e[1].startswith(BOARD + '::')] or [10**9]),
            found=[e[1].rsplit('::', 2)[-2:] for e in o.events if e[0] == 'call'], expected='StandardChessMove::apply, then remove/put')
        removes = [(a, u) for m, a, u in calls if m == 'remove']
        puts = [a for m, a, u in calls if m == 'put']
        if len(removes) != 1 or len(puts) != 1:
            ctx.ob(rule, name, 'path%d: one remove and one put after the standard move' % i, False, found=[m for m, _, _ in calls])
            continue
        X = ('call', BOARD + '::remove', removes[0][0], removes[0][1])
        xp = ('fld', ('fld', X, 'Some.0'), '0')
        xc = ('fld', ('fld', X, 'Some.0'), '1')
        conds = dict(o.conds)
        pawn = discr_of(ctx.facts, PIECE_ADT, 'Pawn')
        ctx.ob(rule, name, 'path%d: the piece replaced is a pawn on the destination' % i,
               removes[0][0][1] == to and conds.get(('discr', xp)) == pawn, found=[show_cond(c) for c in o.conds][:5],
               expected='remove(to) == Some((Pawn, c))')
        promo = ('fld', ('der', ('p', 1)), 'promote_to_piece')
        ctx.ob(rule, name, 'path%d: chosen piece of the same colour is put on the destination' % i,
               puts[0][1] == to and puts[0][2] == promo and puts[0][3] == xc, found=[show(x) for x in puts[0][1:]],
               expected='put(to, promote_to_piece, pawn colour)', why='promotion replaces the pawn by the chosen piece')
    # the inner standard move must be built from the promotion's own squares and capture
    opq_, alias_ = board_api(ctx.facts)
    eng = Engine(ctx.facts, opaque=opq_ | {KINDS['standard'] + '::apply'}, log_enter=True, call_alias=alias_)
    outs2 = eng.run(name)
    okb = False
    for o in outs2:
        for e in o.events:
            if e[0] == 'enter' and e[1] == KINDS['standard'] + '::new':
                a = e[2]
                okb = (a[0] == ('fld', ('der', ('p', 1)), 'from_square') and a[1] == to and a[2] == ('fld', ('der', ('p', 1)), 'captures'))
    ctx.ob(rule, name, 'inner standard move = (from, to, captures) of the promotion', okb, expected='StandardChessMove::new(from, to, captures)')


def r5_turn(ctx):
    rule = 'C03.R5-turn-writers'
    facts = ctx.facts
    ws = field_writes(facts, BOARD, 'turn')
    writers = sorted({f.name for f, _, _, _ in ws if not f.derived})
    allowed = {BOARD + '::toggle_turn', BOARD + '::set_turn'}
    ctx.ob(rule, BOARD + '.turn', 'writers ⊆ {toggle_turn, set_turn}', set(writers) <= allowed, found=writers, expected=sorted(allowed),
           why='making a move must never change whose turn it is (callers flip the turn)')
    ctx.floor(rule, 'writers of Board.turn', len(writers), 1)
    roots = [k + '::' + w for k in KINDS.values() for w in ('apply', 'undo')] + [CHESSMOVE + '::apply', CHESSMOVE + '::undo']
    reach = facts.reachable_fns(roots)
    bad = sorted(reach & set(writers))
    ctx.ob(rule, 'apply/undo call graph', 'turn writers unreachable from apply/undo', not bad, found=bad, expected=[],
           why='making a move must never change whose turn it is')
    ctx.extra['apply_undo_reachable_fns'] = len(reach)


def r6_constructors(ctx):
    rule = 'C03.R6-castle-constructors'
    oracle = {('castle_kingside', 'White'): ('e1', 'g1'), ('castle_kingside', 'Black'): ('e8', 'g8'),
              ('castle_queenside', 'White'): ('e1', 'c1'), ('castle_queenside', 'Black'): ('e8', 'c8')}
    for (fn, col), (f, t) in oracle.items():
        name = KINDS['castle'] + '::' + fn
        outs = Engine(ctx.facts).run(name, args=[COLORS[col]])
        rets = [o for o in outs if o.kind == 'return']
        ok = False
        found = None
        if len(rets) == 1 and rets[0].value[0] == 'agg':
            v = dict(rets[0].value[4])
            found = (sq_name(bb_of(v.get('from_square', C(0))) or 0), sq_name(bb_of(v.get('to_square', C(0))) or 0))
            ok = found == (f, t)
        ctx.ob(rule, name, '%s -> king %s%s' % (col, f, t), ok, found=found, expected=(f, t),
               why='castling is the king\'s two-square move from its home square')


READ_ONLY_STATE = {'turn', 'halfmove_clock', 'fullmove_clock', 'max_seen_position_count', 'current_position_hash',
                   'peek_en_passant_target', 'peek_castle_rights', 'count_current_position', 'uncount_current_position'}


def r7_independence(ctx):
    rule = 'C03.R7-component-independence'
    summ = kind_summaries(ctx, 'apply')
    n = 0
    for kind, (name, outs) in summ.items():
        bad = set()
        for o in outs:
            for m, args, uid in board_calls(o):
                if m not in ('put', 'remove', 'lose_castle_rights', 'push_en_passant_target'):
                    continue
                n += 1
                for a in args[1:]:
                    for s in subterms(a):
                        if s[0] == 'call' and s[1].startswith(BOARD + '::') and method(s[1]) in READ_ONLY_STATE:
                            bad.add((m, method(s[1])))
            if o.kind == 'abort':
                continue
            # assertions (`debug_assert!(board.peek_..() ..)`: the other side panics) are not a dependence of the successor on the value
            skip = assertion_indices(outs, o)
            for i_, (a, v) in enumerate(o.conds):
                if i_ in skip:
                    continue
                hits = [method(s[1]) for s in subterms(a) if s[0] == 'call' and s[1].startswith(BOARD + '::') and method(s[1]) in READ_ONLY_STATE]
                # a test that only decides whether the position key is re-keyed (`if old_target != new_target { toggle; toggle }`) does
                # not make the successor depend on it: the other side is the same path up to PositionInfo's hash toggles (C05 decides those)
                if hits and decides_only(outs, o, i_, lambda p_, e_: e_[0] == 'call' and e_[1].startswith('chess::board::position_info::PositionInfo::'), tag='hash'):
                    continue
                for h in hits:
                    bad.add(('branch', h))
        ctx.ob(rule, name, 'placement/rights/ep arguments independent of clocks, turn, key and repetition state', not bad,
               found=sorted(bad), expected=[], why='the successor position may depend only on the move and the pieces it touches')
    ctx.floor(rule, 'mutator call instances examined', n, 15)


def r8_dispatch(ctx):
    rule = 'C03.R8-dispatch'
    facts = ctx.facts
    adt = facts.adts.get(CHESSMOVE)
    if adt is None:
        ctx.anchor_missing(rule, CHESSMOVE)
        return
    payload = {}
    for v in adt['variants']:
        payload[v['discr']] = (v['name'], v['fields'][0]['ty'])
    methods = ['apply', 'undo', 'from_square', 'to_square', 'captures', 'effect', 'set_effect']
    n = 0
    for m in methods:
        name = CHESSMOVE + '::' + m
        opaque = {k + '::' + m for k in KINDS.values()}
        outs = Engine(facts, opaque=opaque).run(name)
        ctx.touch(name)
        seen = {}
        for o in outs:
            conds = dict(o.conds)
            d = conds.get(('discr', ('der', ('p', 1))))
            if not isinstance(d, int):
                continue
            called = [e[1] for e in o.events if e[0] == 'call' and e[1] in opaque]
            seen.setdefault(d, set()).update(called or ['<none>'])
        for d, (vname, ty) in sorted(payload.items()):
            want = ty + '::' + m
            got = seen.get(d, set())
            if m == 'captures' and vname == 'Castle':
                ok = got <= {'<none>'}
                want = '<none> (castling never captures)'
            else:
                ok = got == {want}
            n += 1
            ctx.ob(rule, name, 'arm %s' % vname, ok, found=sorted(got), expected=want,
                   why='each variant must be handled by its own kind\'s implementation')
    ctx.floor(rule, 'dispatch arms', n, 28)


def r1_ep_semantic(ctx):
    """The en-passant target a standard move pushes, decided on the move's own effect summary when the helper of the pinned tree no
    longer exists (its logic moved into a table, a method, the caller): every Ok path of apply (helpers inlined) pushes one target term
    over (mover piece, mover colour, from, to); it is evaluated for every mover kind and colour, every origin square and every
    destination a piece of that kind can geometrically reach in one step pattern (pawns: single / double step and the two captures in
    their direction; others: a sample including two-rank jumps) and must be the skipped square of a pawn's double step from its home
    rank and EMPTY otherwise."""
    rule = 'C03.R1-ep-target-semantic'
    facts = ctx.facts
    from sa.evalterm import ev, Unevaluable
    outs = oks = None
    for unroll in (False, True):
        try:
            name, outs = kind_summaries(ctx, 'apply', fold_helpers=False, only=('standard',), unroll=unroll)['standard']
        except PathLimit:
            continue
        oks = [o for o in outs if o.kind == 'return' and is_ok_result(o.value)]
        if oks and all(len([1 for m, a, u in board_calls(o) if m == 'push_en_passant_target']) == 1 for o in oks):
            break
    if not oks:
        ctx.anchor_missing(rule, KINDS['standard'] + '::apply', 'no Ok path')
        return
    pd = {p_: discr_of(facts, PIECE_ADT, p_) for p_ in PIECES}
    cd = {c_: discr_of(facts, 'chess::board::color::Color', c_) for c_ in ('White', 'Black')}
    frm0 = ('fld', ('fld', ('der', ('p', 1)), 'from_square'), '0')
    to0 = ('fld', ('fld', ('der', ('p', 1)), 'to_square'), '0')
    paths = []
    for o in oks:
        calls = board_calls(o)
        rem = [(a, u) for m, a, u in calls if m == 'remove']
        ep = [a for m, a, u in calls if m == 'push_en_passant_target']
        if len(ep) != 1 or not rem:
            ctx.ob(rule, name, 'path shape: remove(from) first, one ep target pushed', False, found=[m for m, _, _ in calls])
            return
        P = ('call', BOARD + '::remove', rem[0][0], rem[0][1])
        L = dict(mp=('discr', ('fld', ('fld', P, 'Some.0'), '0')), mc=('discr', ('fld', ('fld', P, 'Some.0'), '1')),
                 oppc=('discr', ('call', 'chess::board::color::Color::opposite', (('fld', ('fld', P, 'Some.0'), '1'),), None)))
        t_ = ep[0][1]
        t_ = dict(t_[4])['0'] if t_[0] == 'agg' and t_[4] else ('fld', t_, '0')
        paths.append((o, L, t_))

    def matches(o, env):
        for a, v in o.conds:
            try:
                x = ev(a, env)
            except Unevaluable:
                continue
            if isinstance(v, tuple) and v and v[0] == 'not':
                if x in v[1]:
                    return False
            elif x != (int(v) if isinstance(v, bool) else v):
                return False
        return True
    other = {cd['White']: cd['Black'], cd['Black']: cd['White']}
    bad, n_in, n_hit = [], 0, 0
    for pn, p_ in pd.items():
        for cn, c_ in cd.items():
            sub = [(o, L, t_) for o, L, t_ in paths if matches(o, {L['mp']: p_, L['mc']: c_, L['oppc']: other[c_]})]
            up = 1 if cn == 'White' else -1
            for f_ in range(64):
                fr, ff = divmod(f_, 8)
                if pn == 'Pawn':
                    steps = [(up, 0), (up, -1), (up, 1)] + ([(2 * up, 0)] if fr == (1 if cn == 'White' else 6) else [])
                    if fr in (0, 7):
                        continue
                else:
                    steps = [(2, 0), (-2, 0), (1, 0), (-1, 0), (0, 1), (0, -2), (1, 1), (-1, -1), (2, 1), (-2, -1), (3, 0), (0, 3)]
                for dr, df in steps:
                    tr, tf = fr + dr, ff + df
                    if not (0 <= tr < 8 and 0 <= tf < 8):
                        continue
                    t_sq = 1 << (tr * 8 + tf)
                    n_in += 1
                    want = (1 << ((fr + up) * 8 + ff)) if (pn == 'Pawn' and dr == 2 * up and df == 0) else 0
                    hit = False
                    for o, L, t_ in sub:
                        env = {L['mp']: p_, L['mc']: c_, L['oppc']: other[c_], frm0: 1 << f_, to0: t_sq}
                        if not matches(o, env):
                            continue
                        try:
                            got = ev(t_, env)
                        except Unevaluable:
                            got = None
                        hit = True
                        if got != want and len(bad) < 6:
                            bad.append({'mover': pn, 'colour': cn, 'from': sq_name(1 << f_), 'to': sq_name(t_sq), 'target': (sq_name(got) or got) if got else got,
                                        'expected': sq_name(want) or 0})
                    n_hit += hit
    ctx.ob(rule, name, 'ep target = skipped square of a pawn double step from its home rank, EMPTY otherwise (%d inputs, %d Ok paths)' % (n_in, len(paths)),
           not bad, found=bad[:4], expected='(Pawn, White, x2 -> x4) -> x3; (Pawn, Black, x7 -> x5) -> x6; anything else -> EMPTY',
           why='a double pawn step sets the target to the skipped square, every other move clears it')
    ctx.floor(rule, 'inputs matched by an Ok path', n_hit, n_in // 2)


def standard_rules(ctx, R):
    ctx.helpers_present = all(ctx.facts.fns.get(h) is not None for h in STD_HELPERS[1:])
    if ctx.helpers_present:
        table_moved(ctx, R)
        table_taken(ctx, R)
    if ctx.facts.fns.get(STD_HELPERS[0]) is not None:
        table_ep_target(ctx)
    else:
        r1_ep_semantic(ctx)
    r1_standard(ctx)
    r1_rights_semantic(ctx, R)


def r9_game_plays_the_move_given(ctx):
    """through the game API the successor is the one of the move handed in: Game::apply_chess_move applies exactly that move to the game's
    board and records it (= C14.R2) - it does not rewrite it (e.g. replace the promotion piece by a configured one)"""
    from . import c14
    import_rules(ctx, 'C03.R9-game-plays-the-move-given', [c14.r2_accept_pairing],
                 'a move made through the game must yield the successor of THAT move: the piece the pawn is promoted to is part of the move',
                 floor=2)


def run(ctx):
    r9_game_plays_the_move_given(ctx)
    R = rights_consts(ctx)
    if R is None:
        return
    # the two rights helpers are tabulated on their whole domain when they exist under these names; when the rights computation is
    # organised differently (one merged function, inlined code, a lookup table) the decision is taken on the move's effect alone (R1-rights-lost)
    standard_rules(ctx, R)
    r2_castle(ctx, R)
    r3_en_passant(ctx)
    r4_promotion(ctx)
    r5_turn(ctx)
    r6_constructors(ctx)
    r7_independence(ctx)
    r8_dispatch(ctx)
