"""C04 — undo restores the previous state exactly (structural clauses R1, R2, R4; DESIGN §4)."""
from collections import Counter, defaultdict

from sa.sym import Engine, show, show_cond, subterms, PathLimit, C
from .common import *

EXPLANATION = (
    "Static clauses of 'undo restores the previous state': (R1) on every Ok path each move kind's apply performs exactly one push on "
    'each of the en-passant, castle-rights and half-move stacks and one full-move increment, and each undo exactly one pop of each and '
    "one decrement (effect summaries by path enumeration of the MIR with the Board API opaque); (R2) per square, undo's put/remove "
    "sequence is the reverse of apply's with put and remove exchanged and each piece put back comes from the matching source (mover, "
    'recorded capture, kind constant); (R3) the position key is restored: every placement / rights / en-passant change toggles exactly '
    'the keys of the old and the new stack top with the values really on the stacks, on the push side and on the pop side alike '
    '(imports C05.R1-R3); (R4) every ChessMove::apply / toggle_turn on a board the function did not create is matched by undo / a '
    'second toggle on every path to a return or loop head, except in the listed mutator roots. Bit-for-bit equality of whole states '
    'over arbitrary histories is NOT decided; these are necessary conditions of it. R4 lets Game register the positions it reaches on '
    "its own board (count / uncount_current_position); (R6) once a move's apply or undo reaches the occurrence counters, counting and "
    'un-counting must be exact inverses (imports C17.R1).'
)
ASSUMPTIONS = [
    "rustc MIR construction and the chessfacts extractor are faithful",
    "paths are enumerated without a solver: infeasible paths are only pruned on contradictory tests of one atom",
    "panicking paths (unwrap on Err/None) are aborts, not returns; Err paths of apply/undo are outside the property",
    "Board mutators are involutions on the hash given C05.R1-R3 (imported, not re-analysed here)",
]

MUTATOR_ROOTS = {
    # function -> reason it may change a borrowed board permanently
    'chess::game::game::Game::apply_chess_move': 'plays the move for good (game API)',
    'chess::game::game::Game::make_alpha_beta_best_move': 'plays the engine move for good',
    'chess::game::game::Game::make_waterfall_book_then_alpha_beta_move': 'plays the engine move for good',
    'chess::game::computer_vs_computer::computer_vs_computer': 'game loop flips the turn after a move',
    'chess::game::human_vs_computer::play_computer': 'game loop flips the turn after a move',
    'chess::game::player_vs_player::player_vs_player': 'game loop flips the turn after a move',
    'chess::game::stockfish_elo::play_game': 'game loop flips the turn after a move',
    'chess::chess_move::chess_move::ChessMove::apply': 'dispatcher of the permanent operation itself',
    'chess::chess_move::chess_move::ChessMove::undo': 'dispatcher of the inverse operation itself',
}
for _k in KINDS.values():
    MUTATOR_ROOTS[_k + '::apply'] = 'the operation itself'
    MUTATOR_ROOTS[_k + '::undo'] = 'the inverse operation itself'


def count_class(calls, names):
    return sum(1 for m, _, _ in calls if m in names)


def r1_stack_balance(ctx):
    rule = 'C04.R1-stack-balance'
    total_paths = 0
    for which, plus, minus in (('apply', (EP_PUSH, RIGHTS_PUSH, HALF_PUSH, FULL_INC), (EP_POP, RIGHTS_POP, HALF_POP, FULL_DEC)),
                               ('undo', (EP_POP, RIGHTS_POP, HALF_POP, FULL_DEC), (EP_PUSH, RIGHTS_PUSH, HALF_PUSH, FULL_INC))):
        summ = kind_summaries(ctx, which)
        for kind, (name, outs) in summ.items():
            oks = [o for o in outs if o.kind == 'return' and is_ok_result(o.value)]
            if not oks:
                ctx.anchor_missing(rule, name, 'no Ok path found')
                continue
            total_paths += len(oks)
            for label, pos, neg in zip(('ep', 'rights', 'halfmove', 'fullmove'), plus, minus):
                counts = Counter()
                bad = Counter()
                for o in oks:
                    calls = board_calls(o)
                    counts[count_class(calls, pos)] += 1
                    bad[count_class(calls, neg)] += 1
                verb = 'pushes' if which == 'apply' else 'pops'
                ok = set(counts) == {1} and set(bad) == {0}
                inst = '%s:%s=%s' % (label, verb, '/'.join(str(c) for c in sorted(counts)))
                if set(bad) != {0}:
                    inst += ',inverse-ops=%s' % '/'.join(str(c) for c in sorted(bad))
                ctx.ob(rule, name, inst if not ok else '%s:%s=1' % (label, verb), ok,
                       found={'per-path counts': dict(counts), 'inverse ops': dict(bad), 'ok_paths': len(oks)},
                       expected='exactly one per Ok path, no inverse operation',
                       why='an apply/undo pair that does not push and pop each stack exactly once leaves clocks, rights or '
                           'the en-passant target (and the key) shifted after undo')
    ctx.extra['r1_ok_paths'] = total_paths
    ctx.floor(rule, 'ok-paths of the 8 apply/undo bodies', total_paths, 16)


# ---- R2 -----------------------------------------------------------------------------------------------
def placement_ops(o):
    """[(op, square term, piece term, colour term, result term)] for put/remove on a path"""
    ops = []
    for e in o.events:
        if e[0] != 'call':
            continue
        m = e[1]
        if m == BOARD + '::put':
            ops.append(('put', e[2][1], e[2][2], e[2][3], ('call', e[1], e[2], e[3])))
        elif m == BOARD + '::remove':
            ops.append(('remove', e[2][1], None, None, ('call', e[1], e[2], e[3])))
    return ops


def move_field_conds(o):
    """conditions that only mention fields of the move (self) — used to pair apply paths with undo paths"""
    res = {}
    for a, v in o.conds:
        if any(s[0] == 'call' or s[0] == 'hv' for s in subterms(a)):
            # the colour of a piece taken off the board by this move: same symbol in apply and undo
            if a[0] == 'discr' and a[1][0] == 'fld' and a[1][2] == '1' and a[1][1][0] == 'fld' \
                    and a[1][1][2] == 'Some.0' and a[1][1][1][0] == 'call' and a[1][1][1][1] == BOARD + '::remove':
                res[('discr', 'MOVER_COLOR')] = v
            continue
        res[a] = v
    return res


def removed_nothing(o, rterm):
    """the path established that this remove() returned None (nothing was on the square)"""
    for a, v in o.conds:
        if a == ('discr', rterm) and v == 0:
            return True
        if a[0] == 'eq' and rterm in a[1:] and v == 1:
            other = a[2] if a[1] == rterm else a[1]
            if other[0] == 'agg' and other[3] == 'None':
                return True
    return False


def compatible(c1, c2):
    for a, v in c1.items():
        if a in c2 and c2[a] != v:
            # allow ('not', ...) vs value when value not excluded
            w = c2[a]
            if isinstance(v, tuple) and v and v[0] == 'not' and not isinstance(w, tuple):
                if w not in v[1]:
                    continue
            if isinstance(w, tuple) and w and w[0] == 'not' and not isinstance(v, tuple):
                if v not in w[1]:
                    continue
            return False
    return True


def piece_source(t, removes, conds=(), facts=None):
    """classify where a piece/colour argument of `put` comes from"""
    if t is None:
        return 'n/a'
    if t[0] == 'agg' and t[1] == 'adt':
        # a constant that the path has just established to be the value taken off the board is that value
        # (`Some((Piece::Pawn, c)) => put(sq, Piece::Pawn, c)` is `Some((p, c)) if p == Pawn => put(sq, p, c)`)
        if facts is not None and t[2] in facts.adts:
            try:
                dv = facts.variant_discr(t[2], t[3])
            except Exception:
                dv = None
            for a, v in conds:
                if a[0] == 'discr' and v == dv and isinstance(v, int) and a[1][0] == 'fld':
                    for i, r in enumerate(removes):
                        if any(s_ == r for s_ in subterms(a[1])):
                            return 'const:%s=removed#%d' % (t[3], i)
        return 'const:' + str(t[3])
    for s in subterms(t):
        if s[0] == 'fld' and s[2] in ('captures', 'Some.0') and any(x[0] == 'fld' and x[2] == 'captures' for x in subterms(s)):
            return 'capture'
    for s in subterms(t):
        if s[0] == 'fld' and s[2] == 'promote_to_piece':
            return 'promotion-field'
    for i, r in enumerate(removes):
        if any(s == r for s in subterms(t)):
            opp = any(s[0] == 'call' and s[1].endswith('Color::opposite') for s in subterms(t))
            return 'removed#%d%s' % (i, ':opposite' if opp else '')
    return 'other:' + show(t)[:60]


def r2_mirror(ctx):
    rule = 'C04.R2-placement-mirror'
    ap = kind_summaries(ctx, 'apply')
    un = kind_summaries(ctx, 'undo')
    pairs = 0
    for kind in KINDS:
        an, aouts = ap[kind]
        unn, uouts = un[kind]
        aoks = [o for o in aouts if o.kind == 'return' and is_ok_result(o.value)]
        uoks = [o for o in uouts if o.kind == 'return' and is_ok_result(o.value)]
        seen = set()
        for a in aoks:
            ca = move_field_conds(a)
            aops = placement_ops(a)
            for u in uoks:
                cu = move_field_conds(u)
                if not compatible(ca, cu):
                    continue
                uops = placement_ops(u)
                # per-square kind sequences
                a_sq = defaultdict(list)
                u_sq = defaultdict(list)
                for op in aops:
                    if op[0] == 'remove' and removed_nothing(a, op[4]):
                        continue
                    a_sq[norm_square(op[1])].append(op)
                for op in uops:
                    if op[0] == 'remove' and removed_nothing(u, op[4]):
                        continue
                    u_sq[norm_square(op[1])].append(op)
                sig = (tuple(sorted((show(k), tuple(o[0] for o in v)) for k, v in a_sq.items())),
                       tuple(sorted((show(k), tuple(o[0] for o in v)) for k, v in u_sq.items())))
                if sig in seen:
                    continue
                seen.add(sig)
                pairs += 1
                squares = set(a_sq) | set(u_sq)
                for s in sorted(squares, key=show):
                    want = [('put' if o[0] == 'remove' else 'remove') for o in reversed(a_sq.get(s, []))]
                    got = [o[0] for o in u_sq.get(s, [])]
                    ctx.ob(rule, unn, 'square %s: %s' % (show(s), ','.join(got) or 'untouched'), want == got,
                           found={'apply': [o[0] for o in a_sq.get(s, [])], 'undo': got},
                           expected={'undo': want},
                           why='undo must replay apply\'s placement operations on each square in reverse with put and '
                               'remove exchanged, otherwise a piece is left on / missing from that square after undo')
                # provenance of what undo puts back
                u_removes = [o[4] for o in uops if o[0] == 'remove']
                a_removes = [o for o in aops if o[0] == 'remove']
                for s in sorted(squares, key=show):
                    ra = list(reversed(a_sq.get(s, [])))
                    us = u_sq.get(s, [])
                    if [('put' if o[0] == 'remove' else 'remove') for o in ra] != [o[0] for o in us]:
                        continue
                    for oa, ou in zip(ra, us):
                        if ou[0] != 'put':
                            continue
                        # oa is apply's remove whose result must be what undo puts back
                        cls = classify_removed(a, oa[4], aops)
                        src_p = piece_source(ou[2], u_removes, u.conds, ctx.facts)
                        src_c = piece_source(ou[3], u_removes, u.conds, ctx.facts)
                        ok = provenance_ok(cls, src_p, src_c)
                        ctx.ob(rule, unn, 'put-back on %s: piece<-%s colour<-%s (apply removed: %s)' % (
                            show(s), src_p, src_c, cls), ok,
                            found={'piece': show(ou[2]), 'colour': show(ou[3])},
                            expected='piece and colour taken from the source that mirrors what apply removed there',
                            why='undo must restore exactly the piece apply took off this square')
    ctx.floor(rule, 'apply/undo path pairs', pairs, 8)


def norm_square(t):
    """square terms of apply and undo are compared after replacing the mover's colour by a symbol"""
    def rec(x):
        if not isinstance(x, tuple):
            return x
        if x and x[0] == 'discr':
            return ('discr', 'MOVER_COLOR') if any(s[0] == 'call' for s in subterms(x[1])) else x
        return tuple(rec(y) for y in x)
    return rec(t)


def classify_removed(o, rterm, aops):
    """what apply knows about the result of one of its removes"""
    # mover: its payload is put somewhere later
    for op in aops:
        if op[0] == 'put' and op[2] is not None and any(s == rterm for s in subterms(op[2])):
            return 'mover'
    for a, v in o.conds:
        if a[0] in ('eq',) and v == 1 and rterm in a[1:]:
            other = a[2] if a[1] == rterm else a[1]
            if any(s[0] == 'fld' and s[2] == 'captures' for s in subterms(other)) or other[0] == 'agg':
                return 'checked-capture'
        if a[0] == 'discr' and any(s == rterm for s in subterms(a)) and a[1] != rterm:
            return 'checked-piece-discr=%s' % (v,)
    return 'unchecked'


def provenance_ok(cls, src_p, src_c):
    if cls == 'mover':
        return (src_p.startswith('removed#') or '=removed#' in src_p) and (src_c.startswith('removed#') or src_c.startswith('const:'))
    if cls == 'checked-capture':
        return src_p == 'capture' and (src_c.endswith(':opposite') or src_c.startswith('const:'))
    if cls.startswith('checked-piece-discr'):
        return src_p.startswith('const:') or src_p.startswith('removed#')
    # unchecked (en passant victim, castle pieces): constants / opposite colour accepted
    return src_p.startswith('const:') and (src_c.endswith(':opposite') or src_c.startswith('const:') or src_c.startswith('removed#'))


# ---- R4 bracket rule ------------------------------------------------------------------------------------
APPLY = CHESSMOVE + '::apply'
UNDO = CHESSMOVE + '::undo'
TOGGLE = BOARD + '::toggle_turn'


def board_root(t):
    """'borrowed' if the &mut Board argument is reachable from a parameter / captured variable, 'local' otherwise"""
    x = t
    while True:
        if x[0] == 'ref':
            x = x[1]
        elif x[0] in ('fld', 'idx'):
            x = x[1]
        elif x[0] == 'der':
            x = x[1]
        else:
            break
    if x[0] == 'p':
        return 'borrowed'
    if x[0] == 'L':
        return 'local'
    return 'borrowed'


def bracket_events(o):
    ev = []
    for e in o.events:
        if e[0] == 'loop_head':
            ev.append(('head', e[2]))
        elif e[0] == 'call' and e[1] in (APPLY, UNDO):
            ev.append(('apply' if e[1] == APPLY else 'undo', e[2][0], e[2][1], e[5]))
        elif e[0] == 'call' and e[1] == TOGGLE:
            ev.append(('toggle', None, e[2][0], e[5]))
        elif e[0] == 'call' and any(e[1] == k + '::' + w for k in KINDS.values() for w in ('apply', 'undo')):
            ev.append(('apply' if e[1].endswith('::apply') else 'undo', e[2][0], e[2][1], e[5]))
    return ev


def r4_brackets(ctx):
    rule = 'C04.R4-bracket'
    facts = ctx.facts
    targets = set()
    raw_callees = {APPLY, UNDO, TOGGLE, BOARD + '::set_turn'} | {k + '::' + w for k in KINDS.values() for w in ('apply', 'undo')}
    site_count = Counter()
    for callee in raw_callees:
        for f, b in facts.call_sites(callee, crate='chess', kinds=('lib',)):
            targets.add(f.name)
            site_count[callee.rsplit('::', 1)[-1]] += 1
    ctx.floor(rule, 'ChessMove::apply call sites', len(facts.call_sites(APPLY, crate='chess')), 5)
    ctx.floor(rule, 'ChessMove::undo call sites', len(facts.call_sites(UNDO, crate='chess')), 3)
    ctx.floor(rule, 'Board::toggle_turn call sites', len(facts.call_sites(TOGGLE, crate='chess')), 5)
    brackets = 0
    # a helper all of whose call sites are inside mutator roots is part of them (e.g. "apply and record in the history" shared by the three
    # functions of Game that play a move for good)
    root_helpers = facts.only_through(set(MUTATOR_ROOTS)) - set(MUTATOR_ROOTS)
    for name in sorted(targets):
        fn = facts.fns[name]
        ctx.touch(name)
        if name in MUTATOR_ROOTS:
            ctx.ob(rule, name, 'mutator-root', True, found=MUTATOR_ROOTS[name], nontrivial=False)
            continue
        if name in root_helpers:
            ctx.ob(rule, name, 'mutator-root helper (every call site is inside a mutator root)', True, nontrivial=False)
            continue
        eng = Engine(facts, inline_filter=lambda n, c: False, max_paths=20000)
        try:
            outs = eng.run(name)
        except PathLimit as e:
            ctx.anchor_missing(rule, name, 'path limit: %s' % e)
            continue
        problems = {}
        n_br = set()
        for o in outs:
            if o.kind not in ('return', 'backedge'):
                continue
            stack = []
            parity = 0
            evs = bracket_events(o)
            for ev in evs + [('end', o.kind)]:
                if ev[0] in ('head', 'end'):
                    if stack:
                        problems.setdefault('apply without undo before %s' % ('loop head' if ev[0] == 'head' else o.kind),
                                            stack[-1][3])
                    if parity % 2:
                        problems.setdefault('unpaired toggle_turn before %s' % ('loop head' if ev[0] == 'head' else o.kind), '')
                    continue
                if board_root(ev[2]) == 'local':
                    continue
                if ev[0] == 'apply':
                    stack.append(ev)
                elif ev[0] == 'undo':
                    if not stack:
                        problems.setdefault('undo without apply', ev[3])
                    else:
                        top = stack.pop()
                        if top[1] != ev[1]:
                            problems.setdefault('undo of a different move than the innermost apply', ev[3])
                        else:
                            n_br.add((top[3], ev[3]))
                elif ev[0] == 'toggle':
                    parity += 1
        brackets += len(n_br)
        if problems:
            for p, where in sorted(problems.items()):
                ctx.ob(rule, name, p, False, found={'at': where}, expected='every apply/toggle on a borrowed board is undone on all paths',
                       why='a caller\'s board would be left changed by a function that is supposed to only look ahead')
        else:
            ctx.ob(rule, name, 'balanced (%d bracket(s), %d paths)' % (len(n_br), len(outs)), True)
    ctx.extra['brackets_found'] = brackets
    ctx.floor(rule, 'apply/undo brackets on borrowed boards', brackets, 3)
    # every function that receives &mut Board and is not a root must not call raw mutators directly
    r4_raw_mutators(ctx)


def r4_raw_mutators(ctx):
    rule = 'C04.R4-raw-mutator'
    facts = ctx.facts
    allowed_prefixes = tuple(list(KINDS.values()) + [BOARD + '::', CHESSMOVE + '::'])
    n = 0
    # helpers that only ever run as part of a move kind's apply / undo (or of Board itself) are part of them
    gates = {nm for nm in facts.fns if nm.startswith(allowed_prefixes)}
    inside = facts.only_through(gates)
    for m in BOARD_MUTATORS:
        if m in ('toggle_turn',):
            continue
        callee = BOARD + '::' + m
        for f, b in facts.call_sites(callee, crate='chess', kinds=('lib', 'bin')):
            n += 1
            ok = f.name.startswith(allowed_prefixes) or f.name.startswith('chess::board::Board::starting_position') or (f.closure_of or f.name) in inside
            # the occurrence table is not touched by apply / undo; the game registering the positions it actually reaches on its own board
            # (Game::from_board, Game::save_move) is the intended user of the counter and changes nothing a move's undo has to restore
            if not ok and m in ('count_current_position', 'uncount_current_position') and (f.closure_of or f.name).startswith('chess::game::game::Game::'):
                ok = True
            ctx.ob(rule, f.name, 'calls Board::%s' % m, ok, found=f.blocks[b]['term']['span'],
                   expected='raw placement/stack mutators are used only by the four move kinds and by Board itself',
                   why='a raw mutation outside apply/undo has no inverse registered and breaks undo/neutrality',
                   nontrivial=False)
    ctx.floor(rule, 'raw mutator call sites', n, 20)


def r5_primitives(ctx):
    """the state primitives behind apply/undo are exact inverses: +1 / -1 on the move counter, one push / one pop per stack"""
    rule = 'C04.R5-primitive-inverses'
    facts = ctx.facts
    MI = 'chess::board::move_info::MoveInfo'
    fm = ('fld', ('der', ('p', 1)), 'fullmove_clock')
    for m, op in (('increment_fullmove_clock', 'Add'), ('decrement_fullmove_clock', 'Sub')):
        name = MI + '::' + m
        outs = Engine(facts).run(name)
        ctx.touch(name)
        rets = [o for o in outs if o.kind == 'return']
        ok = False
        found = None
        for o in rets:
            ws = [e for e in o.events if e[0] == 'write' and e[1] == fm]
            if len(ws) == 1:
                found = show(ws[0][2])
                ok = ws[0][2] == ('bin', op, fm, C(1)) and len(rets) == 1
        ctx.ob(rule, name, 'move counter %s 1 (plain arithmetic, the exact inverse of its sibling)' % ('+' if op == 'Add' else '-'), ok, found=found,
               expected='fullmove_clock %s 1' % ('+' if op == 'Add' else '-'),
               why='if one direction saturates, clamps or skips while the other does not, undo no longer restores the counter')
    stacks = {
        'en_passant_target_stack': (['push_en_passant_target'], ['pop_en_passant_target']),
        'castle_rights_stack': (['lose_castle_rights', 'preserve_castle_rights'], ['pop_castle_rights']),
        'halfmove_clock_stack': (['push_halfmove_clock', 'increment_halfmove_clock', 'reset_halfmove_clock'], ['pop_halfmove_clock']),
    }
    for st, (pushers, poppers) in stacks.items():
        for m in pushers + poppers:
            name = MI + '::' + m
            outs = Engine(facts).run(name)
            ctx.touch(name)
            rets = [o for o in outs if o.kind == 'return']
            good = bool(rets)
            for o in rets:
                pu = [e for e in o.events if e[0] == 'call' and e[1].endswith('Vec::<T, A>::push') and any(s[0] == 'fld' and s[2] == st for s in subterms(e[2][0]))]
                po = [e for e in o.events if e[0] == 'call' and e[1].endswith('Vec::<T, A>::pop') and any(s[0] == 'fld' and s[2] == st for s in subterms(e[2][0]))]
                other = [e for e in o.events if e[0] == 'call' and ('Vec::<T, A>::' in e[1]) and e not in pu and e not in po
                         and not e[1].endswith('::len')]
                want = (1, 0) if m in pushers else (0, 1)
                good = good and (len(pu), len(po)) == want and not other
            ctx.ob(rule, name, 'exactly one %s on %s on every returning path' % ('push' if m in pushers else 'pop', st), good,
                   found=[[e[1].rsplit('::', 1)[-1] for e in o.events if e[0] == 'call' and 'Vec::<T, A>::' in e[1]] for o in rets][:2],
                   expected='one push' if m in pushers else 'one pop')


def r3_key_restored(ctx):
    """undo restores the position key only if every state change toggles exactly the keys of what it changes, with the values actually
    on the stacks (= C05.R1-R3): a toggle computed from a reconstructed 'previous' value is not cancelled by the pop"""
    from . import c05
    import_rules(ctx, 'C04.R3-key-restored', [c05.r1_placement, c05.r23_stacks],
                 'apply followed by undo must leave the position key unchanged: the push side and the pop side have to toggle the same pair '
                 'of keys (old top, new top) - also when the requested change is partly void (a right that is already lost)', floor=6)


def r6_occurrence_table(ctx):
    """On the pinned tree apply / undo leave the occurrence table alone (the game registers positions itself).  Once a move's apply
    reaches count_current_position (repetition tracking wired into the moves), the table is part of what undo must restore: count and
    uncount then have to be exact inverses at every nesting depth (C17.R1), like the other primitives of R5."""
    facts = ctx.facts
    reach = facts.reachable_fns([CHESSMOVE + '::apply', CHESSMOVE + '::undo'] + [k + '::apply' for k in KINDS.values()] + [k + '::undo' for k in KINDS.values()])
    if not ({BOARD + '::count_current_position', BOARD + '::uncount_current_position'} & reach):
        return
    from . import c17
    import_rules(ctx, 'C04.R6-occurrence-table', [c17.r1_inverse],
                 'apply registers the position it reaches and undo releases it: undo restores the board only if un-counting is the exact inverse of counting')


def run(ctx):
    r3_key_restored(ctx)
    r5_primitives(ctx)
    r6_occurrence_table(ctx)
    r1_stack_balance(ctx)
    r2_mirror(ctx)
    r4_brackets(ctx)
