"""C05 — the position key is a pure function of the position (toggle discipline, who-may-write, key tables)."""
from collections import Counter

from sa.sym import Engine, show, show_cond, subterms, C, is_const
from sa.facts import field_writes
from .common import *
from .tables import pin

EXPLANATION = (
    "Static clauses of 'the key is the XOR of one constant per (piece,colour,square), per rights set and per ep square': (R1) "
    'Board::put / Board::remove XOR exactly the key indexed by the (piece, square, colour) they actually place / take, on exactly their'
    ' success paths (terms of the hash write reconstructed from MIR with everything below Board expanded); (R2) every rights-stack '
    'operation toggles the key of the old top and of the new top, or leaves the top unchanged; (R3) the same for the en-passant stack '
    '(top-only dependence); (R4) the hash field, the piece bitboards and the three stacks are written only by their owner methods, '
    "which are called only by the Board delegators, and no function hands out &mut to the private state types; (R5) this build's 848 "
    'key constants are non-zero and pairwise distinct, and every index used on them is within the table dimension. XOR linearity and '
    "absence of collisions between different positions are NOT decided; 'for every draw' is decided only for the draw compiled. R2/R3 "
    'cover every &mut Board method from which a push / pop on the rights or en-passant stack is reachable (discovered), each stack '
    'separately; toggles may be skipped on a path that established old top == new top; further owner methods are admitted only when '
    'called from delegators these rules decide. R2/R3 report a discovered compound method that exceeds the path limit per method and '
    'continue with R4.'
)
ASSUMPTIONS = [
    "rustc MIR construction, const evaluation and the chessfacts extractor are faithful",
    "an empty en-passant target contributes no key (the code's own convention: toggle of EMPTY is a no-op)",
    "Vec::push/pop/last have their documented meaning",
]

PI = 'chess::board::position_info::PositionInfo'
PS = 'chess::board::piece_set::PieceSet'
MI = 'chess::board::move_info::MoveInfo'
TBL = 'chess::board::position_info::'
T_PIECES, T_EP, T_RIGHTS = TBL + 'ZOBRIST_PIECES_TABLE', TBL + 'ZOBRIST_EN_PASSANT_TABLE', TBL + 'ZOBRIST_CASTLING_RIGHTS_TABLE'
HASH_LV = ('fld', ('fld', ('der', ('p', 1)), 'position_info'), 'current_position_hash')


def strip_cast(t):
    while t[0] == 'cast':
        t = t[1]
    return t


def key_of(leaf):
    """classify an XOR operand as a zobrist key lookup"""
    if leaf[0] != 'idx':
        return None
    path = []
    x = leaf
    while x[0] == 'idx':
        path.append(strip_cast(x[2]))
        x = x[1]
    path.reverse()
    if x == ('named', T_PIECES) and len(path) == 3:
        return ('piece',) + tuple(path)
    if x == ('named', T_EP) and len(path) == 1:
        return ('ep', path[0])
    if x == ('named', T_RIGHTS) and len(path) == 1:
        return ('rights', path[0])
    return None


def xor_leaves(t):
    if t[0] == 'bin' and t[1] == 'BitXor':
        return xor_leaves(t[2]) + xor_leaves(t[3])
    return [t]


def final_hash_toggles(o):
    """list of key classifications XOR-ed into the hash on this path, or None if the hash is written in another way"""
    val = o.heap.get(HASH_LV)
    if val is None:
        return []
    leaves = xor_leaves(val)
    base = [l for l in leaves if l == HASH_LV]
    if len(base) != 1:
        return None
    keys = []
    for l in leaves:
        if l == HASH_LV:
            continue
        k = key_of(l)
        if k is None:
            return None
        keys.append(k)
    return keys


def tz(t):
    return ('call', 'trailing_zeros', (t,), None)


def r1_placement(ctx):
    rule = 'C05.R1-toggle-placement'
    facts = ctx.facts
    eng = Engine(facts)
    # ---- put
    name = BOARD + '::put'
    outs = eng.run(name)
    ctx.touch(name)
    want = ('piece', ('discr', ('p', 3)), tz(('fld', ('p', 2), '0')), ('discr', ('p', 4)))
    n_ok = 0
    for o in outs:
        if o.kind != 'return':
            continue
        keys = final_hash_toggles(o)
        placed = [e for e in o.events if e[0] == 'write' and e[1] != HASH_LV]
        if is_ok_result(o.value):
            n_ok += 1
            ok = keys == [want]
            side = None
            for e in placed:
                for s in subterms(e[1]):
                    if s[0] == 'fld' and s[2] in ('white', 'black'):
                        side = s[2]
            cd = pin(dict(o.conds).get(('discr', ('p', 4))))
            col_ok = (side == 'white' and cd == facts.variant_discr('chess::board::color::Color', 'White')) or \
                     (side == 'black' and cd == facts.variant_discr('chess::board::color::Color', 'Black'))
            ctx.ob(rule, name, 'Ok path (%s): toggles exactly key(piece, square, colour) of the piece placed' % side, ok and col_ok,
                   found={'toggles': [show_key(k) for k in keys] if keys is not None else 'unrecognised hash update',
                          'placed in': side, 'colour discr': cd},
                   expected=show_key(want), why='the key must change by exactly the constant of the piece placed')
            # the bitboard written is indexed by the same piece
            idxs = [strip_cast(s[2]) for e in placed for s in subterms(e[1]) if s[0] == 'idx']
            ctx.ob(rule, name, 'Ok path (%s): placement and key use the same piece index' % side,
                   idxs and all(i == ('discr', ('p', 3)) for i in idxs), found=[show(i) for i in idxs], expected='piece as usize')
        else:
            ctx.ob(rule, name, 'Err path: no toggle, no placement', keys == [] and not placed,
                   found={'toggles': keys, 'writes': [show(e[1]) for e in placed]}, expected='nothing changes when put fails',
                   why='a failed put must leave the key alone')
    ctx.floor(rule, 'Ok paths of Board::put', n_ok, 2)
    # ---- remove
    name = BOARD + '::remove'
    outs = eng.run(name)
    ctx.touch(name)
    n_some = 0
    for o in outs:
        if o.kind != 'return':
            continue
        keys = final_hash_toggles(o)
        placed = [e for e in o.events if e[0] == 'write' and e[1] != HASH_LV]
        v = o.value
        if v[0] == 'agg' and v[3] == 'Some':
            n_some += 1
            tup = dict(v[4])['0']
            rp, rc = dict(tup[4])['0'], dict(tup[4])['1']
            want = ('piece', ('discr', rp), tz(('fld', ('p', 2), '0')), discr_term(rc, facts))
            side = None
            for e in placed:
                for s in subterms(e[1]):
                    if s[0] == 'fld' and s[2] in ('white', 'black'):
                        side = s[2]
            col_ok = rc[0] == 'agg' and rc[3].lower() == side
            ok = keys is not None and len(keys) == 1 and norm_key(keys[0], facts) == norm_key(want, facts)
            ctx.ob(rule, name, 'Some path (%s): toggles exactly key(removed piece, square, colour)' % side, ok and col_ok,
                   found={'toggles': [show_key(k) for k in keys] if keys is not None else 'unrecognised hash update',
                          'returned': show(v), 'cleared in': side},
                   expected=show_key(want), why='the key must change by exactly the constant of the piece taken off')
            idxs = [strip_cast(s[2]) for e in placed for s in subterms(e[1]) if s[0] == 'idx']
            ctx.ob(rule, name, 'Some path (%s): cleared bitboard and key use the removed piece' % side,
                   idxs and all(i == ('discr', rp) for i in idxs), found=[show(i) for i in idxs], expected=show(('discr', rp)))
        else:
            ctx.ob(rule, name, 'None path: no toggle, no change', keys == [] and not placed,
                   found={'toggles': keys, 'writes': [show(e[1]) for e in placed]}, expected='nothing changes')
    ctx.floor(rule, 'Some paths of Board::remove', n_some, 2)


def discr_term(t, facts):
    if t[0] == 'agg':
        d = facts.variant_discr(t[2], t[3])
        return C(d)
    return ('discr', t)


def norm_key(k, facts):
    return tuple(x if not (isinstance(x, tuple) and x[0] == 'c') else ('c', int(x[1])) for x in k)


def show_key(k):
    return '%s[%s]' % (k[0], ', '.join(show(x) for x in k[1:]))


def stack_ops(o, stack_field):
    """[(kind, value term, epoch index in events)] of Vec::push / Vec::pop on MoveInfo.<stack_field>"""
    res = []
    for i, e in enumerate(o.events):
        if e[0] != 'call':
            continue
        if e[1] in ('std::vec::Vec::<T, A>::push', 'std::vec::Vec::<T, A>::pop'):
            tgt = e[2][0]
            if any(s[0] == 'fld' and s[2] == stack_field for s in subterms(tgt)):
                if e[1].endswith('push'):
                    res.append(('push', e[2][1], i, e))
                else:
                    res.append(('pop', ('fld', ('call', e[1], e[2], e[3]), 'Some.0'), i, e))
    return res


def top_reads(t, stack_field):
    """epochs at which term t reads the top of the stack (last(deref(stack)))"""
    eps = []
    for s in subterms(t):
        if s[0] == 'call' and s[1] == 'core::slice::<impl [T]>::last' and isinstance(s[3], tuple):
            if any(x[0] == 'fld' and x[2] == stack_field for x in subterms(s)):
                eps.append(s[3][1])
    return eps


def stack_methods(facts, stack):
    """Every `&mut Board` method from which a push / pop on MoveInfo.<stack> can be reached: the named delegators and any method a
    maintainer adds beside them (a combined `push_move_state`) - each of them changes the top of the stack and must re-key the hash."""
    writers = {f.name for f, b, how, fl in field_writes(facts, MI, stack, kinds=('lib',)) if not f.derived and f.impl_trait != 'std::default::Default'}
    out = []
    for name, f in sorted(facts.fns.items()):
        if not name.startswith(BOARD + '::') or f.kind == 'Closure' or f.crate != 'chess' or f.crate_kind != 'lib' or f.derived:
            continue
        if f.arg_count < 1 or f.local_ty(1) != '&mut ' + BOARD:
            continue
        if facts.reachable_fns([name]) & writers:
            out.append(name)
    return out


def r23_stacks(ctx):
    facts = ctx.facts
    eng = Engine(facts)
    cases = [
        ('C05.R2-toggle-rights', 'castle_rights_stack', 'rights', ['lose_castle_rights', 'pop_castle_rights', 'preserve_castle_rights']),
        ('C05.R3-top-only', 'en_passant_target_stack', 'ep', ['push_en_passant_target', 'pop_en_passant_target']),
    ]
    for rule, stack, kind, methods in cases:
        n = 0
        names = [BOARD + '::' + m for m in methods]
        names += [x for x in stack_methods(facts, stack) if x not in names]
        for name in names:
            if facts.fns.get(name) is None:
                continue                      # a delegator that was merged away: whatever took its place is in the discovered list
            try:
                outs = eng.run(name)
            except PathLimit:
                # a compound method (one that applies whole moves) reaches the stack writers: not one of the small delegators this clause
                # summarises; reported as such, and the remaining clauses (who writes the key, R4) still run
                ctx.ob(rule, name, 'a board method that reaches the writers of %s is a small delegator: stack operation and key toggle in step' % stack, False,
                       found='more paths than the summariser follows (the method applies or takes back whole moves)', expected='one stack operation + its key toggles per path',
                       why='the key must change exactly when the top of the stack changes; a method that restores key or stack wholesale is outside what this rule can relate')
                continue
            ctx.touch(name)
            for o in outs:
                if o.kind != 'return':
                    continue
                ops = stack_ops(o, stack)
                keys = final_hash_toggles(o)
                if keys is not None:
                    keys = [k for k in keys if k[0] == kind or k[0] not in ('rights', 'ep', 'piece')]       # this stack's keys (+ unknown ones)
                if not ops:
                    # a path of a combined method that leaves this stack alone must not toggle its keys either
                    if keys:
                        ctx.ob(rule, name, 'toggle without a change of the stack', False, found=[show_key(k) for k in keys], expected='no %s key toggled' % kind)
                    continue
                if len(ops) != 1:
                    ctx.ob(rule, name, 'exactly one stack operation', False, found=[x[0] for x in ops], expected='one push or pop')
                    continue
                n += 1
                op, val, pos, ev = ops[0]
                if keys is None:
                    ctx.ob(rule, name, 'hash update recognised', False, found=show(o.heap.get(HASH_LV)), expected='hash ^= key ...')
                    continue
                # epoch of the stack operation = number of impure events before it
                impure_before = sum(1 for e in o.events[:pos] if e[0] in ('call', 'write') and (e[0] == 'write' or isinstance(e[3], int)))
                before_epoch = impure_before
                after_epoch = impure_before + 1
                classes = []
                for k in keys:
                    if k[0] != kind:
                        classes.append('foreign:' + show_key(k))
                        continue
                    idx = strip_payload(k[1])
                    if idx[0] == 'call' and idx[1] == 'trailing_zeros' and idx[2][0][0] == 'fld' and idx[2][0][2] == '0':
                        idx = strip_payload(idx[2][0][1])     # ep keys are indexed by the square's bit index
                    valn = strip_payload(val)
                    tr = top_reads(k[1], stack)
                    if idx == valn and op == 'push':
                        classes.append('new-top(pushed)')
                    elif idx == valn and op == 'pop':
                        classes.append('old-top(popped)')
                    elif tr and all(e <= before_epoch for e in tr):
                        classes.append('old-top(read before)' if op == 'push' else 'stale-read')
                    elif tr and all(e >= after_epoch for e in tr):
                        classes.append('new-top(read after)' if op == 'pop' else 'stale-read')
                    else:
                        classes.append('other:' + show(k[1])[:80])
                conds = dict(o.conds)
                # ep: a toggle of EMPTY is a no-op by convention -> account for the path condition
                tag = ''
                if kind == 'ep':
                    z = [show_cond(c) for c in o.conds if c[0][0] == 'fld' and c[0][2] == '0']
                    tag = ' [%s]' % '; '.join(z) if z else ''
                # ep: toggling EMPTY is a no-op by convention; a path that established emptiness of a value is
                # excused from (and cannot perform) that value's toggle
                excused = set()
                if kind == 'ep':
                    for a, v in o.conds:
                        if v == 0 and a[0] == 'fld' and a[2] == '0':
                            x = strip_payload(a[1])
                            if x == strip_payload(val):
                                excused.add('new-top(pushed)' if op == 'push' else 'old-top(popped)')
                            tr = top_reads(a[1], stack)
                            if tr and all(e <= before_epoch for e in tr) and op == 'push':
                                excused.add('old-top(read before)')
                            if tr and all(e >= after_epoch for e in tr) and op == 'pop':
                                excused.add('new-top(read after)')
                # `if old != new { toggle(old); toggle(new) }`: on the path where the two tops were found EQUAL the two toggles cancel and
                # may be skipped altogether
                def side(t_):
                    x_ = strip_payload(t_)
                    if x_ == strip_payload(val):
                        return 'new' if op == 'push' else 'old'
                    tr_ = top_reads(t_, stack)
                    if tr_ and all(e_ <= before_epoch for e_ in tr_):
                        return 'old' if op == 'push' else None
                    if tr_ and all(e_ >= after_epoch for e_ in tr_):
                        return 'new' if op == 'pop' else None
                    return None
                for a, v in o.conds:
                    l_ = r_ = None
                    if a[0] == 'bin' and a[1] in ('Eq', 'Ne'):
                        l_, r_, eq_ = a[2], a[3], (a[1] == 'Eq') == bool(v) if v in (0, 1, True, False) else None
                    elif a[0] == 'eq':
                        l_, r_, eq_ = a[1], a[2], bool(v) if v in (0, 1, True, False) else None
                    if l_ is not None and eq_ and {side(l_), side(r_)} == {'old', 'new'}:
                        excused |= {'old-top(read before)', 'new-top(pushed)', 'new-top(read after)', 'old-top(popped)'}
                if op == 'push':
                    core = strip_payload(val)
                    if core[0] == 'fld' and core[2] == 'Some.0':
                        core = core[1]
                    unchanged = top_reads(val, stack) and all(e <= before_epoch for e in top_reads(val, stack)) and \
                        core[0] == 'call' and core[1] == 'core::slice::<impl [T]>::last'
                    if unchanged:
                        ok = not keys
                        want = 'top unchanged: no toggle'
                    else:
                        need = Counter(x for x in ['old-top(read before)', 'new-top(pushed)'] if x not in excused)
                        ok = Counter(classes) == need
                        want = sorted(need.elements())
                else:
                    need = Counter(x for x in ['new-top(read after)', 'old-top(popped)'] if x not in excused)
                    ok = Counter(classes) == need
                    want = sorted(need.elements())
                missing = ''
                if not ok and isinstance(want, list):
                    miss = Counter(want) - Counter(classes)
                    if miss:
                        missing = 'missing-toggle(%s)' % ','.join(sorted(x.split('(')[0] for x in miss))
                    else:
                        missing = 'extra-toggle'
                ctx.ob(rule, name, (missing or ('%s: toggles old and new top' % op)) if not ok else '%s: %s%s' % (op, ','.join(sorted(classes)) or 'no toggle', ''),
                       ok, found={'op': op, 'toggles': classes, 'path': tag}, expected=want,
                       why='the key must be a function of the current top of the %s only: when the top changes from a to b the '
                           'key of a must be retired and the key of b added' % stack)
        ctx.floor(rule, 'stack operations examined', n, 3 if kind == 'rights' else 4)


def strip_payload(t):
    """value identity modulo deref of a reference to the popped/peeked element"""
    while t[0] in ('der',):
        t = t[1]
    return t


def r4_who_may_write(ctx):
    rule = 'C05.R4-who-may-write'
    facts = ctx.facts
    spec = [
        (PI, 'current_position_hash', {PI + '::update_zobrist_hash_toggle_piece', PI + '::update_zobrist_hash_toggle_en_passant_target',
                                       PI + '::update_zobrist_hash_toggle_castling_rights'}, 3),
        (PS, 'bitboards', {PS + '::put', PS + '::remove'}, 2),
        (PS, 'occupied', {PS + '::put', PS + '::remove'}, 2),
        (MI, 'en_passant_target_stack', {MI + '::push_en_passant_target', MI + '::pop_en_passant_target'}, 2),
        (MI, 'castle_rights_stack', {MI + '::lose_castle_rights', MI + '::pop_castle_rights', MI + '::preserve_castle_rights'}, 3),
        (MI, 'halfmove_clock_stack', {MI + '::push_halfmove_clock', MI + '::increment_halfmove_clock', MI + '::reset_halfmove_clock',
                                      MI + '::pop_halfmove_clock'}, 4),
        (MI, 'fullmove_clock', {MI + '::increment_fullmove_clock', MI + '::decrement_fullmove_clock', MI + '::set_fullmove_clock'}, 3),
        (PI, 'position_count', {PI + '::count_current_position', PI + '::uncount_current_position'}, 2),
        (PI, 'max_seen_position_count_stack', {PI + '::count_current_position', PI + '::uncount_current_position'}, 2),
    ]
    for adt, field, allowed, floor in spec:
        ws = [(f, b, how) for f, b, how, _ in field_writes(facts, adt, field) if not f.derived]
        writers = {(f.closure_of or f.name) for f, _, _ in ws}
        # a helper all of whose call sites are inside the owner methods is part of them (what the owners toggle is decided by R1-R3)
        # a further method of the owner type itself that only Board delegators (or the owner type) call is one more owner method
        # (`PieceSet::remove_located` beside `PieceSet::remove`): what the calling delegator toggles is decided by R1-R3 all the same
        more = set()
        for w in writers - allowed:
            wf = facts.fns.get(w)
            if wf is not None and w.startswith(adt + '::') and wf.kind != 'Closure':
                cs = {(f_.closure_of or f_.name) for f_, _ in facts.call_sites(w, crate='chess', kinds=('lib', 'bin'))}
                # ... provided the Board-level callers are delegators whose toggles R1-R3 decide (put / remove / the stack delegators): a
                # NEW Board method that changes placement through it is not covered by those rules and stays a violation here
                decided = {BOARD + '::' + m_ for m_ in ('put', 'remove', 'push_en_passant_target', 'pop_en_passant_target', 'lose_castle_rights',
                                                        'pop_castle_rights', 'preserve_castle_rights')} | set(allowed)
                if cs and all(c_ in decided or (c_.startswith(adt + '::') and c_ in allowed) for c_ in cs):
                    more.add(w)
        ctx.ob(rule, '%s.%s' % (adt, field), 'writers ⊆ owner methods', writers <= (allowed | more) or writers <= (facts.only_through(allowed) | more), found=sorted(writers),
               expected=sorted(allowed), why='state that the key (or undo) depends on may only change through its owner methods')
        ctx.floor(rule, 'writers of %s.%s' % (adt, field), len(writers), 1)      # non-vacuity only: a refactoring may legitimately route a writer through a sibling
    # owner methods are called only by the Board delegators
    owners = {}
    for adt, field, allowed, _ in spec:
        for a in allowed:
            owners[a] = adt
    n_sites = 0
    for owner in sorted(owners):
        sites = facts.call_sites(owner, crate='chess', kinds=('lib', 'bin'))
        callers = {f.name for f, _ in sites}
        n_sites += len(sites)
        ok = all(c.startswith(BOARD + '::') or c.startswith(owners[owner] + '::') for c in callers)
        ctx.ob(rule, owner, 'called only from Board delegators', ok, found=sorted(callers), expected='chess::board::Board::* (or the owner type itself)',
               nontrivial=False)
    ctx.floor(rule, 'owner-method call sites', n_sites, 10)
    tog = [PI + '::update_zobrist_hash_toggle_piece', PI + '::update_zobrist_hash_toggle_en_passant_target',
           PI + '::update_zobrist_hash_toggle_castling_rights']
    counts = [len(facts.call_sites(t, crate='chess')) for t in tog]
    ctx.ob(rule, 'update_zobrist_hash_toggle_* call sites', 'each toggle method has a call site (what each delegator toggles is decided by R1-R3)',
           all(c >= 1 for c in counts), found=counts, expected='>= 1 each', nontrivial=False)
    # nobody hands out &mut to the private state types
    bad = []
    n = 0
    for f in facts.fns.values():
        if f.crate != 'chess' or f.kind == 'Closure':
            continue
        sig = f.raw.get('sig') or ''
        if '->' not in sig:
            continue
        n += 1
        ret = sig.split('->', 1)[1]
        # a function that is private to the board module (or one of its sub-modules) is part of the owner's implementation, not a leak
        vis = f.raw.get('vis') or ''
        import re as _re
        m_ = _re.search(r'Restricted\(DefId\([^~]*~ \w+\[[0-9a-f]+\](.*)\)\)', vis)
        inside_owner = vis in ('', None) and f.name.startswith('chess::board::') or (m_ is not None and m_.group(1).startswith('::board'))
        for ty in (PS, MI, PI):
            if 'mut ' + ty in ret and not inside_owner:
                bad.append((f.name, ret.strip()))
    ctx.ob(rule, 'function signatures', 'no function visible outside the board module returns &mut PieceSet/MoveInfo/PositionInfo', not bad, found=bad, expected=[],
           why='a leaked &mut would let placement or stacks change without the key')
    ctx.floor(rule, 'signatures scanned', n, 100)
    # fields are private and the three types live in private modules
    for adt in (BOARD, PS, MI, PI):
        a = facts.adts.get(adt)
        if a is None:
            ctx.anchor_missing(rule, adt)
            continue
        pubf = [fd['name'] for v in a['variants'] for fd in v['fields'] if fd['vis'] == 'pub']
        ctx.ob(rule, adt, 'all fields private', not pubf, found=pubf, expected=[], nontrivial=False)
    for mod in ('chess::board::piece_set', 'chess::board::move_info', 'chess::board::position_info'):
        vis = facts.mods.get(('chess', 'lib', mod))
        ctx.ob(rule, mod, 'module is private', vis is not None and vis != 'pub', found=vis, expected='restricted', nontrivial=False)


def r5_tables(ctx):
    rule = 'C05.R5-key-tables'
    facts = ctx.facts
    vals = []
    dims = {}
    for name, shape in ((T_PIECES, (6, 64, 2)), (T_RIGHTS, (16,)), (T_EP, (64,))):
        v = facts.consts.get(name)
        if v is None:
            ctx.anchor_missing(rule, name)
            return

        def flat(x, depth=0, got=None):
            if isinstance(x, tuple) and x and x[0] == 'array':
                got.setdefault(depth, set()).add(len(x[1]))
                out = []
                for y in x[1]:
                    out.extend(flat(y, depth + 1, got))
                return out
            return [x]
        got = {}
        fl = flat(v, 0, got)
        shape_found = tuple(sorted(got[d])[0] if len(got[d]) == 1 else tuple(sorted(got[d])) for d in sorted(got))
        ctx.ob(rule, name, 'dimensions %s' % (shape,), shape_found == shape, found=shape_found, expected=shape)
        vals.extend(fl)
        dims[name] = shape_found
    nz = all(isinstance(x, int) and x != 0 for x in vals)
    ctx.ob(rule, 'ZOBRIST_*', '%d constants non-zero' % len(vals), nz, found=sum(1 for x in vals if not x), expected=0,
           why='a zero key makes a component invisible in the position key')
    ctx.ob(rule, 'ZOBRIST_*', '%d constants pairwise distinct (across the three tables)' % len(vals), len(set(vals)) == len(vals),
           found=len(vals) - len(set(vals)), expected=0, why='two equal keys make two different components indistinguishable')
    ctx.floor(rule, 'key constants', len(vals), 848)
    # index domains
    piece = facts.adts.get(PIECE_ADT)
    color = facts.adts.get('chess::board::color::Color')
    pd = sorted(v['discr'] for v in piece['variants'])
    cdv = sorted(v['discr'] for v in color['variants'])
    ctx.ob(rule, PIECE_ADT, 'discriminants 0..5 index the first dimension', pd == list(range(6)), found=pd, expected=list(range(6)))
    ctx.ob(rule, 'chess::board::color::Color', 'discriminants 0..1 index the third dimension', cdv == [0, 1], found=cdv, expected=[0, 1])
    allr = facts.consts.get('chess::board::castle_rights_bitmask::ALL_CASTLE_RIGHTS')
    ctx.ob(rule, 'ALL_CASTLE_RIGHTS', 'rights masks index a 16-entry table', isinstance(allr, int) and 0 < allr < 16, found=allr, expected='< 16')
    ctx.extra['key_table_digest'] = hex(hash(tuple(vals)) & 0xffffffffffff)


def run(ctx):
    r1_placement(ctx)
    r23_stacks(ctx)
    r4_who_may_write(ctx)
    r5_tables(ctx)
