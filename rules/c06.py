"""C06 — check / checkmate / stalemate verdicts and move annotations."""
from sa.sym import Engine, show, show_cond, subterms, C, is_const, PathLimit
from .common import *
from .tables import is_true, is_false, pin

EXPLANATION = (
    "Static clauses: (R1) player_is_in_check(p) is 'p's king bitboard overlaps the attack map of opposite(p)' (term reconstructed from "
    'MIR, per colour); (R2) decision tables: checkmate = in-check AND no legal move for the same player; game_ending maps (no move, '
    'check) to Checkmate, (no move, no check) to Stalemate, (some move) to None; (R3) every listed move is annotated from the position '
    'it produces: apply < classification < undo < set_effect, table mate->Checkmate, check->Check, else None, classified colour = '
    'opponent of the mover; (R4) a draw verdict never pre-empts checkmate/stalemate: every Draw row of game_ending has established that'
    ' a legal move exists. (R5) the attack cache is keyed by colour and position (= C02.R1); (R6) the attack map has all four piece-'
    'class contributions for the queried colour and exact pawn attacks (= C01.R5, C01.R4). (R7) the list whose emptiness decides mate '
    'and stalemate is the pseudo-legal list minus exactly the moves whose simulation leaves the king attacked (imports C01.R1/R2: every'
    ' candidate is simulated, none is dropped or kept on a shortcut). Slider / leaper geometry is NOT decided here (C11). R7 imports '
    'all clauses of C01 (the list whose emptiness decides mate / stalemate is the legal move list). R3 rows may be refined into several'
    ' variants; rows must stay disjoint and contain their standard variant.'
)
ASSUMPTIONS = [
    "rustc MIR construction and the chessfacts extractor are faithful",
    "MoveGenerator::generate_moves / get_attack_targets return the legal moves / attacked squares (C01, C02, C11)",
]

EVAL = 'chess::evaluate::'
MG = 'chess::move_generator::MoveGenerator'
GEN = MG + '::generate_moves'
ATT = MG + '::get_attack_targets'
IN_CHECK = EVAL + 'player_is_in_check'
IN_MATE = EVAL + 'player_is_in_checkmate'
OPP = 'chess::board::color::Color::opposite'


def r1_in_check(ctx):
    rule = 'C06.R1-in-check'
    facts = ctx.facts
    name = IN_CHECK
    outs = Engine(facts, opaque={ATT}).run(name)
    ctx.touch(name)
    king = facts.variant_discr(PIECE_ADT, 'King')
    cd = {facts.variant_discr('chess::board::color::Color', c): c for c in ('White', 'Black')}
    seen = set()
    for o in outs:
        if o.kind != 'return':
            continue
        col = cd.get(pin(dict(o.conds).get(('discr', ('p', 3)))))
        if col is None:
            ctx.ob(rule, name, 'path without colour test', False, found=[show_cond(c) for c in o.conds])
            continue
        seen.add(col)
        v = o.value
        # expected: Not(eqc(BitAnd(K, A), 0))
        ok = False
        detail = show(v)
        core = v[2] if v[0] == 'un' and v[1] == 'Not' else None
        if core is not None and core[0] == 'eqc' and core[2] == 0 and core[1][0] == 'bin' and core[1][1] == 'BitAnd':
            a, b = core[1][2], core[1][3]
            kterm = None
            aterm = None
            for x in (a, b):
                if any(s[0] == 'call' and s[1] == ATT for s in subterms(x)):
                    aterm = x
                else:
                    kterm = x
            if kterm is not None and aterm is not None:
                side = [s[2] for s in subterms(kterm) if s[0] == 'fld' and s[2] in ('white', 'black')]
                idx = [s[2] for s in subterms(kterm) if s[0] == 'idx']
                call = [s for s in subterms(aterm) if s[0] == 'call' and s[1] == ATT][0]
                colarg = call[2][2]
                ok = (side == [col.lower()] and idx == [C(king)] and colarg == ('call', OPP, (('p', 3),), None)
                      and call[2][1] == ('ref', ('der', ('p', 1))))
                detail = {'king of': side, 'piece index': [show(i) for i in idx], 'attacker colour': show(colarg)}
        ctx.ob(rule, name, '%s: own king ∩ attacks(opposite colour)' % col, ok, found=detail,
               expected='pieces(%s).locate(King) overlaps get_attack_targets(board, opposite(player))' % col,
               why='the side to move is in check exactly when its king is attacked by the other side')
    for c in ('White', 'Black'):
        if c not in seen:
            ctx.ob(rule, name, '%s path exists' % c, False, found='missing')
    # current_player_is_in_check = player_is_in_check(board.turn())
    n2 = EVAL + 'current_player_is_in_check'
    outs = Engine(facts, readonly={IN_CHECK, BOARD + '::turn'}).run(n2)
    ctx.touch(n2)
    rets = [o for o in outs if o.kind == 'return']
    ok = len(rets) == 1 and rets[0].value[0] == 'call' and rets[0].value[1] == IN_CHECK and \
        rets[0].value[2][2][0] == 'call' and rets[0].value[2][2][1] == BOARD + '::turn'
    ctx.ob(rule, n2, 'classifies the side to move (board.turn())', ok, found=show(rets[0].value) if rets else None,
           expected='player_is_in_check(board, mg, board.turn())')


def r2_tables(ctx):
    rule = 'C06.R2-verdict-table'
    facts = ctx.facts
    # ---- player_is_in_checkmate
    name = IN_MATE
    outs = Engine(facts, opaque={GEN, ATT}, readonly={IN_CHECK}).run(name)
    ctx.touch(name)
    rows = {}
    for o in outs:
        if o.kind != 'return':
            continue
        chk = None
        for a, v in o.conds:
            if a[0] == 'call' and a[1] == IN_CHECK:
                chk = (1 if is_true(v) else 0, a[2][2])
        gen = [e for e in o.events if e[0] == 'call' and e[1] == GEN]
        val = o.value
        vdesc = 'false' if val == C(False) else ('true' if val == C(True) else None)
        empt = None
        if vdesc is None:
            calls = [s for s in subterms(val) if s[0] == 'call' and s[1].endswith('::is_empty')]
            neg = val[0] == 'un' and val[1] == 'Not'
            if calls and any(s[0] == 'call' and s[1] == GEN for s in subterms(calls[0])):
                g = [s for s in subterms(calls[0]) if s[0] == 'call' and s[1] == GEN][0]
                empt = g[2][2]
                vdesc = 'not-empty' if neg else 'empty'
            elif val[0] == 'call' and val[1] == IN_CHECK:
                vdesc = 'check'
                chk2 = val[2][2]
        # also the other evaluation order: branch on emptiness, return check
        e_cond = None
        for a, v in o.conds:
            if a[0] == 'call' and a[1].endswith('::is_empty') and any(s[0] == 'call' and s[1] == GEN for s in subterms(a)):
                g = [s for s in subterms(a) if s[0] == 'call' and s[1] == GEN][0]
                e_cond = (1 if is_true(v) else 0, g[2][2])
        rows[(chk[0] if chk else None, e_cond[0] if e_cond else None)] = (vdesc, chk[1] if chk else None, empt or (e_cond[1] if e_cond else None))
    # normalise to truth table over (check, empty)
    tt = {}
    players = set()
    for (c, e), (vdesc, pc, pe) in rows.items():
        for cv in ([c] if c is not None else [0, 1]):
            for ev in ([e] if e is not None else [0, 1]):
                if vdesc == 'false':
                    r = 0
                elif vdesc == 'true':
                    r = 1
                elif vdesc == 'empty':
                    r = ev
                elif vdesc == 'not-empty':
                    r = 1 - ev
                elif vdesc == 'check':
                    r = cv
                else:
                    r = None
                tt[(cv, ev)] = r
        for p in (pc, pe):
            if p is not None:
                players.add(p)
    for cv in (0, 1):
        for ev in (0, 1):
            want = 1 if (cv and ev) else 0
            ctx.ob(rule, name, 'row(check=%d,no-move=%d) -> %s' % (cv, ev, 'mate' if tt.get((cv, ev)) else 'not mate'), tt.get((cv, ev)) == want,
                   found=tt.get((cv, ev)), expected=want, why='checkmate exactly when in check and without a legal move')
    ctx.ob(rule, name, 'check and move list computed for the same player', players == {('p', 3)}, found=[show(p) for p in players],
           expected='the `player` parameter')
    # ---- game_ending
    name = EVAL + 'game_ending'
    ro = {BOARD + '::max_seen_position_count', BOARD + '::halfmove_clock', BOARD + '::turn', IN_CHECK}
    outs = Engine(facts, opaque={GEN, ATT}, readonly=ro).run(name)
    ctx.touch(name)
    ge = 'chess::evaluate::GameEnding'
    table = {}
    draw_rows = []
    for o in outs:
        if o.kind != 'return':
            continue
        v = o.value
        verdict = 'None' if v[3] == 'None' else dict(v[4])['0'][3]
        emp = chk = None
        for a, val in o.conds:
            if a[0] == 'call' and a[1].endswith('::is_empty') and any(s[0] == 'call' and s[1] == GEN for s in subterms(a)):
                emp = 1 if is_true(val) else 0
                g = [s for s in subterms(a) if s[0] == 'call' and s[1] == GEN][0]
                gen_player = g[2][2]
            if a[0] == 'call' and a[1] == IN_CHECK:
                chk = 1 if is_true(val) else 0
                chk_player = a[2][2]
        if verdict == 'Draw':
            draw_rows.append((o, emp))
            continue
        for ev in ([emp] if emp is not None else [0, 1]):
            for cv in ([chk] if chk is not None else [0, 1]):
                table.setdefault((ev, cv), set()).add(verdict)
    oracle = {(1, 1): 'Checkmate', (1, 0): 'Stalemate', (0, 1): 'None', (0, 0): 'None'}
    for k in sorted(oracle):
        got = table.get(k, set())
        ctx.ob(rule, name, 'row(no-move=%d,check=%d) -> %s' % (k[0], k[1], '/'.join(sorted(got)) or 'nothing'), got == {oracle[k]},
               found=sorted(got), expected=oracle[k],
               why='checkmate = check and no legal move; stalemate = no check and no legal move')
    return draw_rows, name


def r4_precedence(ctx, draw_rows, name):
    rule = 'C06.R4-verdict-precedence'
    if not draw_rows:
        ctx.ob(rule, name, 'no draw rows', True, nontrivial=False)
        return
    bad = [o for o, emp in draw_rows if emp != 0]
    kinds = set()
    for o in bad:
        for a, v in o.conds:
            for s in subterms(a):
                if s[0] == 'call' and s[1].startswith(BOARD + '::'):
                    kinds.add(method(s[1]))
    ctx.ob(rule, name, 'Draw returned before mate/stalemate is ruled out' if bad else 'every Draw row has a legal move', not bad,
           found={'draw rows without a non-empty move list': len(bad), 'clauses': sorted(kinds)}, expected='candidates non-empty on every Draw path',
           why='a mated or stalemated side must be reported as such, not as a clock/repetition draw')


def apply_undo_bracket(o, ap, un, atoms):
    """every classification atom of the path was evaluated after the apply and before the undo (event order)"""
    idx_ap = [i for i, e in enumerate(o.events) if e[0] == 'call' and e[1] == ap]
    idx_un = [i for i, e in enumerate(o.events) if e[0] == 'call' and e[1] == un]
    if len(idx_ap) != 1 or len(idx_un) != 1 or idx_ap[0] > idx_un[0]:
        return False
    # the engine stamps every impure call with the epoch it starts and every read-only atom with the epoch it was read in
    lo_, hi_ = o.events[idx_ap[0]][7], o.events[idx_un[0]][7]
    return all(isinstance(a[3], tuple) and lo_ <= a[3][1] < hi_ for a, v in atoms)


def effect_rows(facts):
    """{(mate, check): {effect variants stored on the iteration paths of the classification routine where the in-mate / in-check atoms have
    these values}}.  The standard tree gives (1,None)->Checkmate, (0,1)->Check, (0,0)->None; a refinement of one row into several variants
    (say a separate variant for a double check) shows up as a row with several variants."""
    n2 = MG + '::lazily_update_chess_move_effect_for_checks_and_checkmates'
    ap, un, se = CHESSMOVE + '::apply', CHESSMOVE + '::undo', CHESSMOVE + '::set_effect'
    outs = Engine(facts, opaque={ap, un, se, GEN}, readonly={IN_CHECK, IN_MATE, EVAL + 'game_ending', EVAL + 'player_is_in_stalemate'}, max_paths=20000).run(n2)
    rows = {}
    for o in outs:
        if o.kind != 'backedge':
            continue
        heads = [i_ for i_, e in enumerate(o.events) if e[0] == 'loop_head']
        body = o.events[heads[-1]:] if heads else o.events
        sets = [e for e in body if e[0] == 'call' and e[1] == se]
        if len(sets) != 1:
            continue
        atoms = [(a, v) for a, v in o.conds if a[0] == 'call' and a[1] in (IN_CHECK, IN_MATE)]
        mate = dict((a[1], 1 if is_true(v) else 0) for a, v in atoms)
        eff = sets[0][2][1]
        rows.setdefault((mate.get(IN_MATE), mate.get(IN_CHECK)), set()).add(eff[3] if eff and eff[0] == 'agg' else show(eff))
    return rows


def r3_annotation(ctx):
    rule = 'C06.R3-effect-annotation'
    facts = ctx.facts
    # who is classified = f(colour argument of the list-level routine) o g(what the public entry passes for it): must be opposite(mover),
    # wherever the `.opposite()` is written
    n3_ = MG + '::generate_moves_and_lazily_update_chess_move_effects'
    n2_ = MG + '::lazily_update_chess_move_effect_for_checks_and_checkmates'
    passed = set()
    for o in Engine(facts, opaque={n2_, GEN}).run(n3_):
        for e in o.events:
            if e[0] == 'call' and e[1] == n2_:
                passed.add(e[2][3])
    OPP_OF = lambda t: ('call', OPP, (t,), None)
    if passed == {('p', 3)}:
        want_players = {OPP_OF(('p', 4))}          # entry passes the mover: the routine itself must take the opposite
    elif passed == {OPP_OF(('p', 3))}:
        want_players = {('p', 4)}                  # entry already passes the opponent
    else:
        want_players = None
    # analysed from the routine that annotates a whole list; a private per-move helper (if any) is inlined, a for_each closure is
    # interpreted as the loop body
    n2 = MG + '::lazily_update_chess_move_effect_for_checks_and_checkmates'
    name = n2
    ap, un, se = CHESSMOVE + '::apply', CHESSMOVE + '::undo', CHESSMOVE + '::set_effect'
    # (move generation itself is never expanded here: a routine that classifies by looking at the reply list directly shows up as a
    # path whose verdict does not rest on the in-check / in-mate atoms)
    outs = Engine(facts, opaque={ap, un, se, GEN}, readonly={IN_CHECK, IN_MATE, EVAL + 'game_ending', EVAL + 'player_is_in_stalemate'}, max_paths=20000).run(n2)
    ctx.touch(n2)
    for h in facts.only_through({n2}):
        ctx.touch(h)
    table = {}
    n = 0
    its = [o for o in outs if o.kind == 'backedge']
    every = bool(its)
    for o in its:
        heads = [i_ for i_, e in enumerate(o.events) if e[0] == 'loop_head']
        body = o.events[heads[-1]:] if heads else o.events
        ev = [e for e in body if e[0] == 'call' and e[1] in (ap, un, se)]
        names = [e[1] for e in ev]
        if not names:
            every = False          # an iteration that leaves the move unclassified
            continue
        n += 1
        order_ok = names.count(ap) == 1 and names.count(un) == 1 and names.count(se) == 1 and \
            names.index(ap) < names.index(un) < names.index(se)
        same_move = order_ok and all(is_iteration_element(e[2][0]) for e in ev) and len({strip_refs_t(e[2][0]) for e in ev}) == 1
        # classification atoms must be evaluated between apply and undo (checked on the engine's epochs by apply_undo_bracket)
        atoms = [(a, v) for a, v in o.conds if a[0] == 'call' and a[1] in (IN_CHECK, IN_MATE)]
        ep_ok = order_ok
        players = {a[2][2] for a, v in atoms}
        boards = {a[2][0] for a, v in atoms}
        eff = [e for e in ev if e[1] == se][0][2][1] if names.count(se) == 1 else None
        mate = dict((a[1], 1 if is_true(v) else 0) for a, v in atoms)
        key = (mate.get(IN_MATE), mate.get(IN_CHECK))
        table.setdefault(key, set()).add(eff[3] if eff and eff[0] == 'agg' else show(eff))
        ctx.ob(rule, name, 'path(mate=%s,check=%s): apply < classify < undo < set_effect' % key, order_ok and ep_ok and same_move and apply_undo_bracket(o, ap, un, atoms),
               found={'calls': [x.rsplit('::', 1)[-1] for x in names], 'classified in epoch': [a[3] for a, v in atoms]},
               expected='classification between apply and undo of the same move',
               why='a move is annotated according to the position it produces')
        ctx.ob(rule, name, 'path(mate=%s,check=%s): classified player is the opponent of the mover on the caller\'s board' % key,
               want_players is not None and players == want_players and boards == {('ref', ('der', ('p', 3)))},
               found={'classified': [show(p_) for p_ in players], 'entry passes': [show(p_) for p_ in passed]}, expected='opposite(mover)',
               why='the side that may be in check after a move is the opponent of the mover')
    oracle = {(1, None): 'Checkmate', (0, 1): 'Check', (0, 0): 'None'}
    # a row may be refined into several variants (Check / DoubleCheck); the rows must stay disjoint and each must contain its standard variant
    for k, want in oracle.items():
        got = sorted(table.get(k, ()))
        elsewhere = {v for k2, vs in table.items() if k2 != k for v in vs}
        ctx.ob(rule, name, 'row(mate=%s,check=%s) -> %s' % (k[0], k[1], want), want in got and not (set(got) & elsewhere), found=got, expected=want,
               why='annotation: checkmate, else check, else neither')
    ctx.floor(rule, 'return paths', n, 3)
    # every listed move goes through the classification; the walk over the list ends only when it is exhausted
    exits = [o for o in outs if o.kind == 'return']
    early = []
    for o in exits:
        heads = [e for e in o.events if e[0] == 'loop_head']
        if heads and isinstance(heads[0][2], tuple):
            ad = [e for e in o.events if e[0] == 'adapter' and e[2] == heads[0][2]]
            if not (ad and ad[0][1] == 'for_each' and not ad[0][4]):
                early.append(o)
        elif not any(c[0][0] == 'discr' and c[0][1][0] == 'call' and c[0][1][1].endswith('Iterator>::next') and c[1] == 0 for c in o.conds):
            early.append(o)
    src_ok = all(any(('p', 2) in set(subterms(x[1])) for x in iteration_sources(o)) for o in its) and bool(its)
    ctx.ob(rule, n2, 'every listed move is classified: each iteration calls the classification on the current move, no early exit',
           every and not early and src_ok, found={'iteration paths': len(its), 'early exits': len(early), 'iterates over the list argument': src_ok},
           expected='for m in moves.iter_mut() { apply; classify; undo; set_effect }',
           why='every legal move listed must be annotated according to the position it produces; a shortcut that stamps some moves without '
               'looking misses discovered checks')
    gate = facts.only_through({n2})
    setters = {(f.closure_of or f.name) for f, b in facts.call_sites(CHESSMOVE + '::set_effect', crate='chess', kinds=('lib', 'bin'))}
    ctx.ob(rule, CHESSMOVE + '::set_effect', 'effects are stored only by the classification routine', bool(setters) and setters <= gate, found=sorted(setters),
           expected=sorted(gate), why='an effect written anywhere else is not derived from the position the move produces')
    n3 = MG + '::generate_moves_and_lazily_update_chess_move_effects'
    outs = Engine(facts, opaque={n2, GEN}).run(n3)
    ctx.touch(n3)
    okc = False
    for o in outs:
        ev = [e for e in o.events if e[0] == 'call']
        if [e[1] for e in ev] == [GEN, n2]:
            okc = ev[0][2][2] == ('p', 3) and ev[1][2][3] in (('p', 3), ('call', OPP, (('p', 3),), None)) and ev[1][2][2] == ev[0][2][1]
    ctx.ob(rule, n3, 'annotates the list generated for the same player and board', okc, expected='generate_moves(board, player); update(moves, board, player)')


def r5_attack_cache(ctx):
    # the attack map used by every verdict is served from a cache: its key must cover position and colour (= C02.R1)
    from . import c02
    sub = type(ctx)(ctx.prop, ctx.tier, ctx.facts, ctx.facts_info, ctx.seed)
    c02.r1_key_composition(sub)
    for s in sub.samples:
        if 'get_attack_targets' in s['function']:
            ctx.ob('C06.R5-attack-cache-key', s['function'], s['instance'], s['ok'], found=s['found'], expected=s['expected'],
                   why='a long-lived generator must answer in-check queries for one colour independently of earlier queries for the other',
                   nontrivial='floor' not in s['instance'])


def r6_attack_map(ctx):
    """the attack map every verdict is computed from has all four piece-class contributions, pawn attacks exact (= C01.R5 and the
    pawn-attack part of C01.R4; the slider / leaper geometry behind it is C11)"""
    from . import c01
    sub = type(ctx)(ctx.prop, ctx.tier, ctx.facts, ctx.facts_info, ctx.seed)
    c01.r5_attack_map(sub)
    c01.r4_pawn_geometry(sub)
    n = 0
    for s in sub.samples:
        inst = s['instance']
        if s['rule'].startswith('C01.R5') or 'attack set of a pawn' in inst or s['rule'] in ('C01.R9-slider-blockers',):
            n += 1
            ctx.ob('C06.R6-attack-map', s['function'], inst, s['ok'], found=s['found'], expected=s['expected'],
                   why='check, mate and stalemate verdicts are read off this map: a piece class or direction missing from it (for one colour, on one '
                       'file) turns a check into "not in check" and a mate into a stalemate',
                   nontrivial='floor' not in inst)
    ctx.floor('C06.R6-attack-map', 'attack-map obligations imported', n, 4)


def r7_move_list(ctx):
    """mate and stalemate are read off the emptiness of the legal-move list: it must be the pseudo-legal moves minus exactly those that
    leave the king attacked (= C01.R1 / R2; a pre-filter that drops a real evasion turns a check into a mate)"""
    from . import c01
    import_rules(ctx, 'C06.R7-legal-move-list', [c01.r1_filter_dominance, c01.r2_filter_shape, c01.r3_castle_guards, c01.r4_pawn_geometry,
                                                 c01.r4b_pawn_captures, c01.r7_promotions, c01.r8_captures, c01.r9_position_invariants],
                 'a legality filter that discards (or keeps) a move without simulating it makes "no legal move" - and with it checkmate, '
                 'stalemate and the # annotation - wrong in the positions where that move is the only evasion', floor=6)


def run(ctx):
    r7_move_list(ctx)
    r5_attack_cache(ctx)
    r6_attack_map(ctx)
    r1_in_check(ctx)
    draw_rows, name = r2_tables(ctx)
    r3_annotation(ctx)
    r4_precedence(ctx, draw_rows, name)
