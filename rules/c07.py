"""C07 — search answers with a legal move and leaves the board untouched."""
from sa.sym import Engine, show, show_cond, subterms, C, is_const, PathLimit
from .common import *
from .tables import is_true, is_false
from . import c04

EXPLANATION = (
    'Static clauses: (R1) both declared outcomes are really produced by alpha_beta_search: Err(DepthTooLow) under search_depth() < 1 '
    'before anything else, Err(NoAvailableMoves) when the root move list is empty, and the `pop().unwrap()` that takes the best move is'
    ' only reachable once the list was found non-empty; (R2) no function reachable from the search builds a ChessMove except the move '
    "generator (and derived Clone): the returned move is an element popped from the scored copies of the generator's list; (R3) every "
    'apply / toggle_turn on a borrowed board in the search call graph is undone on all paths (C04.R4 instances); the root tasks work on'
    ' clones; (R4) both recursive calls of alpha_beta_minimax pass depth-1 and are guarded by the depth == 0 return. Legality beyond '
    "'one of the generator's moves for this position' (R5 imports the cache-key rules of C02/C05) and panics from lock poisoning are "
    'NOT decided; (R6) no division by a possibly-zero value in the search call graph; (R7) imports the legality-filter rules C01.R1/R2 '
    "(the candidates searched are legal). R3 also imports C04.R4's who-may-call rule for the raw board mutators over the search call "
    'graph; R7 now imports ALL clauses of C01 (generation, castling guards, pawn geometry, promotions), since the move returned is one '
    'of the generated moves. R6 ignores the divisor assertion rustc emits for a non-zero literal divisor. R1 also demands that no '
    'candidate is removed from the root list before its emptiness test (retain / remove / truncate ...); path-limit fallback with '
    'opaque move application. The parallel task body is the closure handed to the rayon adapter. R1: the non-emptiness guard of '
    'pop().unwrap() is void if candidates are removed after the emptiness test, except retain(|m| !P(m)) under filter(|m| P(m)).count()'
    ' < len with the same predicate call.'
)
ASSUMPTIONS = [
    "rayon's par_iter().map().collect() yields one scored entry per candidate (so a non-empty candidate list gives a non-empty vector)",
    "rustc MIR construction and the chessfacts extractor are faithful",
]

AB = 'chess::alpha_beta_searcher::'
SEARCH = AB + 'alpha_beta_search'
MINIMAX = AB + 'alpha_beta_minimax'
GEN_EFF = 'chess::move_generator::MoveGenerator::generate_moves_and_lazily_update_chess_move_effects'
SERR = AB + 'SearchError'


SHRINKERS = {'retain', 'retain_mut', 'remove', 'swap_remove', 'truncate', 'clear', 'pop', 'drain', 'split_off', 'dedup', 'dedup_by', 'dedup_by_key', 'drain_filter', 'extract_if'}


def search_outcomes(ctx):
    facts = ctx.facts
    opaque = {n for n in facts.fns if n.startswith('chess::move_generator') or n.startswith(AB + 'prioritize')}
    opaque |= {AB + 'SearchContext::reset_stats'}
    ro = {BOARD + '::turn', AB + 'SearchContext::search_depth'}
    ctx.touch(SEARCH)
    try:
        return Engine(facts, opaque=opaque, readonly=ro).run(SEARCH)
    except PathLimit:
        # the root routine itself plays moves (a filter over the candidates that tries each one): keep move application opaque so that the
        # paths of the routine are still enumerated and reported for what they do with the candidate list
        opaque2 = opaque | {CHESSMOVE + '::apply', CHESSMOVE + '::undo'} | {n for n in facts.fns if n.startswith('chess::evaluate::')}
        return Engine(facts, opaque=opaque2, readonly=ro, max_paths=20000).run(SEARCH)


def _strip_rd(t):
    while isinstance(t, tuple) and t and t[0] in ('ref', 'der'):
        t = t[1]
    if isinstance(t, tuple):
        return tuple(_strip_rd(x) for x in t)
    return t


def unexcused_shrink(facts, o):
    """the non-emptiness established by the emptiness test is lost again when candidates are removed afterwards (retain, truncate, ...) on
    the way to the parallel scoring - unless what is removed provably leaves an element: `retain(|m| !P(m))` under the path condition
    `list.iter().filter(|m| P(m)).count() < list.len()` with the same predicate call P."""
    ev = o.events
    stop = next((i for i, e in enumerate(ev) if e[0] == 'call' and 'par_iter' in e[1]), len(ev))
    for i, e in enumerate(ev[:stop]):
        nm = e[1].rsplit('::', 1)[-1] if e[0] in ('call', 'adapter') and isinstance(e[1], str) else None
        if nm not in SHRINKERS:
            continue
        excused = False
        if e[0] == 'adapter' and nm == 'retain':
            c1 = next((x[1] for x in reversed(ev[:i]) if x[0] == 'closure'), None)
            for a, v in o.conds:
                if not (a[0] == 'bin' and a[1] == 'Lt' and is_true(v) and a[2][0] == 'call' and a[2][1].endswith('Iterator>::count') and a[3][0] == 'call' and a[3][1].endswith('::len')):
                    continue
                flt = a[2][2][0]
                if not (flt[0] == 'call' and flt[1].endswith('Iterator::filter') and len(flt[2]) == 2 and flt[2][1][0] == 'agg' and flt[2][1][1] == 'closure'):
                    continue
                c0 = flt[2][1][2]
                lst = _strip_rd(a[3][2][0])
                if lst not in {_strip_rd(x) for x in subterms(flt[2][0])}:
                    continue
                try:
                    r0 = [x for x in Engine(facts, opaque=set(facts.fns) - {c0}).run(c0) if x.kind != 'abort']
                    r1 = [x for x in Engine(facts, opaque=set(facts.fns) - {c1}).run(c1) if x.kind != 'abort'] if c1 else []
                except Exception:
                    continue
                if len(r0) == 1 and len(r1) == 1 and r0[0].kind == r1[0].kind == 'return' and r0[0].value[0] == 'call' and \
                        r1[0].value[:2] == ('un', 'Not') and r1[0].value[2][0] == 'call' and r1[0].value[2][1] == r0[0].value[1] and \
                        _strip_rd(r1[0].value[2][2]) == _strip_rd(r0[0].value[2]):
                    excused = True
        if not excused:
            return True
    return False


def empty_guard(o):
    """1/0 if the path established (non-)emptiness of the root candidate list, else None"""
    for a, v in o.conds:
        s = show(a)
        if a[0] == 'call' and (a[1].endswith('::is_empty')) :
            return 1 if is_true(v) else 0
        if ('len' in s) and a[0] in ('eqc', 'bin', 'call'):
            if a[0] == 'call' and a[1].endswith('::len') and isinstance(v, int):
                return 1 if v == 0 else None
    return None


def r1_declared_outcomes(ctx, rule_prefix='C07.R1'):
    rule = rule_prefix + '-declared-outcomes'
    facts = ctx.facts
    outs = search_outcomes(ctx)
    depth_atom = None
    n = 0
    seen = {'DepthTooLow': [], 'NoAvailableMoves': []}
    for o in outs:
        if o.kind == 'return' and is_err_result(o.value):
            n += 1
            inner = dict(o.value[4])['0']
            if inner[0] == 'agg' and inner[2] == SERR:
                seen.setdefault(inner[3], []).append(o)
    # DepthTooLow
    ok = False
    for o in seen['DepthTooLow']:
        conds = [(a, v) for a, v in o.conds]
        first_calls = [e[1] for e in o.events if e[0] == 'call']
        # the conditions of this path that test the configured depth hold exactly when the depth is 0 (any spelling: < 1, == 0, ...)
        dterms = {s for c in conds for s in subterms(c[0]) if s[0] == 'call' and s[1] == AB + 'SearchContext::search_depth'}
        dconds = [c for c in conds if any(s in dterms for s in subterms(c[0]))]
        guard = False
        if dconds:
            try:
                from sa.evalterm import ev, Unevaluable
                def holds(d):
                    env = {t: d for t in dterms}
                    for a, v in dconds:
                        x = ev(a, env)
                        if isinstance(v, tuple) and v[0] == 'not':
                            if x in v[1]:
                                return False
                        elif x != int(v):
                            return False
                    return True
                guard = holds(0) and not any(holds(d) for d in range(1, 256))
            except Exception:
                guard = False
        ok = bool(guard) and not any(GEN_EFF == x or 'par_iter' in x for x in first_calls)
    ctx.ob(rule, SEARCH, 'Err(DepthTooLow) returned under search_depth() < 1 before generating or searching', ok,
           found=[[show_cond(c) for c in o.conds] for o in seen['DepthTooLow']][:2], expected='if search_depth() < 1 { return Err(DepthTooLow) }',
           why='at depth 0 the search must report that the depth is too low (and never compute depth - 1)')
    # NoAvailableMoves
    ok = False
    for o in seen['NoAvailableMoves']:
        g = empty_guard(o)
        calls = [e[1] for e in o.events if e[0] == 'call']
        ok = g == 1 and GEN_EFF in calls and not any('par_iter' in x for x in calls)
        # ... and the list tested is the generated list: nothing may take candidates out of it first (a filter that drops every legal move
        # turns "no move available" into an answer for a position that has moves)
        shrunk = [x for x in calls if x.rsplit('::', 1)[-1] in SHRINKERS] + [e[1] for e in o.events if e[0] == 'adapter' and isinstance(e[1], str) and e[1].rsplit('::', 1)[-1] in SHRINKERS]
        if shrunk:
            ok = False
            ctx.ob(rule, SEARCH, 'the root list tested for emptiness is the generated list (no candidate is removed before the test)', False,
                   found=sorted(set(shrunk)), expected='generate; if candidates.is_empty() { return Err(NoAvailableMoves) }',
                   why='whenever the side to move has a legal move the search must answer with one; removing candidates before the emptiness test '
                       'makes it answer NoAvailableMoves in positions where every legal move is filtered out')
    ctx.ob(rule, SEARCH, 'Err(NoAvailableMoves) returned when the root move list is empty' if seen['NoAvailableMoves'] else
           'NoAvailableMoves is never constructed', ok and bool(seen['NoAvailableMoves']),
           found=[[show_cond(c) for c in o.conds] for o in seen['NoAvailableMoves']][:2] or 'no path constructs SearchError::NoAvailableMoves',
           expected='if candidates.is_empty() { return Err(NoAvailableMoves) }',
           why='in a position with no legal move the search must report that no move is available; it never panics')
    # pop().unwrap() only after non-emptiness was established
    unguarded = 0
    total = 0
    for o in outs:
        pops = [e for e in o.events if e[0] == 'panic' and any(s[0] == 'call' and s[1].endswith('Vec::<T, A>::pop') for s in subterms(e[2]))]
        if not pops:
            continue
        total += 1
        if empty_guard(o) != 0 or unexcused_shrink(facts, o):
            unguarded += 1
    ctx.ob(rule, SEARCH, 'pop().unwrap() reachable with an empty root list' if unguarded else 'pop().unwrap() guarded by a non-empty root list',
           unguarded == 0 and total > 0, found={'panic paths': total, 'without a dominating non-empty test': unguarded},
           expected='every path to scored_moves.pop().unwrap() has tested candidates non-empty',
           why='a stalemated or mated root position must not make the search panic')
    # every variant of the error type is constructed somewhere in the search
    adt = facts.adts.get(SERR)
    variants = [v['name'] for v in adt['variants']] if adt else []
    built = set()
    for f in facts.fns.values():
        if f.crate != 'chess' or f.derived:
            continue
        for b in f.blocks:
            for s in b['stmts']:
                if s['k'] == 'assign' and s['rv']['k'] == 'aggregate' and s['rv'].get('adt') == SERR:
                    built.add(s['rv']['variant'])
    for v in variants:
        ctx.ob(rule, SERR, 'variant %s is constructed' % v, v in built, found=sorted(built), expected=variants, nontrivial=False)
    # depth - 1 dominated by the depth guard: the closure computes search_depth() - 1
    clo = par_task(facts, SEARCH)
    if facts.fns.get(clo) is not None:
        ctx.touch(clo)


def r2_no_fabrication(ctx):
    rule = 'C07.R2-no-fabrication'
    facts = ctx.facts
    reach = facts.reachable_fns([SEARCH])
    move_adts = {CHESSMOVE} | set(KINDS.values())
    bad = []
    n = 0
    for name in sorted(reach):
        f = facts.fns.get(name)
        if f is None or f.crate != 'chess':
            continue
        for b in f.blocks:
            if b['cleanup']:
                continue
            for s in b['stmts']:
                if s['k'] == 'assign' and s['rv']['k'] == 'aggregate' and s['rv'].get('adt') in move_adts:
                    n += 1
                    allowed = (name.startswith('chess::move_generator') or f.derived or name.startswith(tuple(KINDS.values()))
                               or name.startswith('chess::chess_move::'))
                    if not allowed:
                        bad.append((name, s['rv']['adt'].rsplit('::', 1)[-1], s['span']))
    ctx.ob(rule, 'call graph of alpha_beta_search (%d functions)' % len(reach), 'ChessMove values are built only by the move generator',
           not bad, found=bad[:5], expected=[], why='the search must return one of the position\'s generated moves, never a fabricated one')
    ctx.floor(rule, 'ChessMove construction sites in the search call graph', n, 4)
    ctx.extra['search_reachable_fns'] = len(reach)
    # the Ok value is the move component of the popped (score, move) pair; pairs are (score, clone(candidate))
    outs = search_outcomes(ctx)
    oks = [o for o in outs if o.kind == 'return' and is_ok_result(o.value)]
    okv = bool(oks) and all(any(s[0] == 'call' and s[1].endswith('Vec::<T, A>::pop') for s in subterms(o.value)) for o in oks)
    ctx.ob(rule, SEARCH, 'returned move is popped from the scored list', okv, found=[show(o.value)[:120] for o in oks][:2], expected='scored_moves.pop().1')
    clo = par_task(facts, SEARCH)
    eng = Engine(facts, opaque={MINIMAX, CHESSMOVE + '::apply', CHESSMOVE + '::undo', BOARD + '::toggle_turn',
                                'chess::move_generator::MoveGenerator::new'}, readonly={AB + 'SearchContext::search_depth'})
    couts = eng.run(clo)
    rets = [o for o in couts if o.kind == 'return']
    okc = False
    for o in rets:
        v = o.value
        if v[0] == 'agg' and v[1] == 'tuple' and len(v[4]) == 2:
            mv = v[4][1][1]
            okc = mv == ('der', ('p', 2)) or (mv[0] == 'call' and mv[1].endswith('Clone>::clone') and mv[2][0] == ('ref', ('der', ('p', 2))))
    ctx.ob(rule, clo, 'each scored entry carries a clone of its own candidate', okc, found=[show(o.value)[:160] for o in rets][:1],
           expected='(score, chess_move.clone())')
    return couts


def r3_neutrality(ctx):
    rule = 'C07.R3-board-neutrality'
    facts = ctx.facts
    reach = facts.reachable_fns([SEARCH])
    sub = type(ctx)(ctx.prop, ctx.tier, ctx.facts, ctx.facts_info, ctx.seed)
    c04.r4_brackets(sub)
    n = 0
    for s in sub.samples:
        if s['function'] in reach and s['rule'] == 'C04.R4-bracket' and 'floor' not in s['instance']:
            n += 1
            ctx.ob(rule, s['function'], s['instance'], s['ok'], found=s['found'], expected=s['expected'],
                   why='whatever the search returns, the caller\'s board must be observably identical before and after')
    ctx.floor(rule, 'bracketed functions in the search call graph', n, 3)
    # ... and nothing in the search call graph changes board state outside those brackets: a registration of the root position that one
    # return path forgets to take back leaves the caller's board (its occurrence table) changed although an error was returned
    sreach = facts.reachable_fns([SEARCH] + [c.name for c in facts.closures_of(SEARCH)])
    import_rules(ctx, rule, [c04.r4_raw_mutators],
                 'whatever the search returns - a move or a declared error - the caller\'s board must be observably identical before and after: '
                 'state changed through a raw mutator has no undo registered on the paths that return early',
                 keep=lambda s: s['function'] in sreach or 'floor' in s['instance'], floor=1)
    # the root closure only touches clones: it captures the board by shared reference
    clo = facts.fns.get(par_task(facts, SEARCH))
    if clo is not None:
        env_ty = clo.local_ty(1)
        ctx.ob(rule, clo.name, 'parallel root task takes its environment by shared reference (Fn): can only clone the board',
               env_ty.startswith('&') and not env_ty.startswith('&mut'), found=env_ty, expected='&{closure}', nontrivial=False)


def r4_measure(ctx):
    rule = 'C07.R4-termination-measure'
    facts = ctx.facts
    opaque = {n for n in facts.fns if n.startswith('chess::move_generator') or n.startswith(AB + 'prioritize')
              or n.startswith(CHESSMOVE)} | set(x for x in search_cache_fns(facts) if x) | {'chess::evaluate::score', BOARD + '::toggle_turn'}
    eng = Engine(facts, opaque=opaque, readonly={BOARD + '::turn', BOARD + '::current_position_hash'}, max_paths=20000)
    outs = eng.run(MINIMAX)
    ctx.touch(MINIMAX)
    sites = {}
    for o in outs:
        for e in o.events:
            if e[0] == 'call' and e[1] == MINIMAX:
                d = e[2][3]
                guard = dict(o.conds).get(('p', 4))
                guarded = isinstance(guard, tuple) and guard[0] == 'not' and 0 in guard[1]
                sites.setdefault(e[5], []).append((d, guarded))
    for span, lst in sorted(sites.items()):
        ds = {show(d) for d, g in lst}
        ok = all(d == ('bin', 'Sub', ('p', 4), C(1)) and g for d, g in lst)
        ctx.ob(rule, MINIMAX, 'recursive call passes depth - 1 under depth != 0 (site %d)' % (sorted(sites).index(span) + 1), ok,
               found={'depth argument': sorted(ds), 'guarded': all(g for d, g in lst)}, expected='depth - 1, after `if depth == 0 { return }`',
               why='the recursion must terminate: the search never hangs')
    ctx.floor(rule, 'recursive call sites', len(sites), 1)      # both branches may share one helper that recurses
    return outs


def r5_candidates_are_current(ctx):
    """R2 makes the answer one of the generator's moves for the root position; that list is served from a cache of the caller's
    long-lived generator, so it is the list of THIS position only if the cache key separates positions and colours (= C02.R1-R4 incl.
    the key discipline and key tables of C05)"""
    from . import c02
    sub = type(ctx)(ctx.prop, ctx.tier, ctx.facts, ctx.facts_info, ctx.seed)
    c02.all_rules(sub)
    n = 0
    for s in sub.samples:
        n += 1
        ctx.ob('C07.R5-candidates-of-this-position', s['function'], s['instance'], s['ok'], found=s['found'], expected=s['expected'],
               why='a stale move list (e.g. one that still contains a castle whose right is gone) makes the search answer with a move that is not legal here',
               nontrivial='floor' not in s['instance'])
    ctx.floor('C07.R5-candidates-of-this-position', 'cache-key obligations imported', n, 20)


def r6_no_arithmetic_panic(ctx):
    """the search answers or returns a declared error: no division / remainder whose divisor can be zero on the way (rustc emits a
    DivisionByZero / RemainderByZero assertion exactly when the divisor is not a non-zero constant)"""
    rule = 'C07.R6-no-division-panic'
    facts = ctx.facts
    reach = facts.reachable_fns([SEARCH] + [c.name for c in facts.closures_of(SEARCH)])
    bad = []
    n = 0
    for nme in sorted(reach):
        f = facts.fns.get(nme)
        if f is None or f.crate != 'chess':
            continue
        n += 1
        for b in f.blocks:
            t = b['term']
            if t['k'] == 'assert' and (t['msg'].startswith('DivisionByZero') or t['msg'].startswith('RemainderByZero')):
                # at mir-opt-level 0 the assertion is emitted for a literal divisor too: `_c = Eq(const 8, const 0); assert(!_c)` cannot fire
                cl = t['cond'].get('place', {}).get('local') if t['cond'].get('k') in ('move', 'copy') else None
                lit = False
                for st in b['stmts']:
                    if st['k'] == 'assign' and st['place']['local'] == cl and not st['place']['proj']:
                        rv = st['rv']
                        lit = rv['k'] == 'binop' and rv['op'] == 'Eq' and rv['a'].get('k') == 'const' and rv['b'].get('k') == 'const' and \
                            isinstance(rv['a'].get('value'), int) and rv['b'].get('value') == 0 and rv['a']['value'] != 0
                if not lit:
                    bad.append((nme, t.get('span')))
    ctx.ob(rule, SEARCH, 'no division or remainder by a value that can be zero in the search call graph', not bad, found=bad[:4], expected=[],
           why='a search that panics (e.g. a statistic divided by a counter that is zero when every child came from the cache) does not answer with a legal move')
    ctx.floor(rule, 'functions of the search call graph scanned', n, 10)


def r7_candidates_are_legal(ctx):
    """R2 makes the answer one of the generator's moves; those are legal only if every pseudo-legal move went through the legality
    filter and the filter simulates each candidate (= C01.R1 / R2)"""
    from . import c01
    import_rules(ctx, 'C07.R7-candidates-are-legal', [c01.r1_filter_dominance, c01.r2_filter_shape, c01.r3_castle_guards, c01.r4_pawn_geometry,
                                                      c01.r4b_pawn_captures, c01.r5_attack_map, c01.r7_promotions, c01.r8_captures, c01.r9_position_invariants],
                 'a candidate that skipped the apply / attack-map / undo simulation (e.g. an en-passant capture judged by the squares of the '
                 'capturing pawn alone) can be returned by the search although it leaves the own king in check', floor=6)


def run(ctx):
    r7_candidates_are_legal(ctx)
    r6_no_arithmetic_panic(ctx)
    r1_declared_outcomes(ctx)
    r2_no_fabrication(ctx)
    r3_neutrality(ctx)
    r4_measure(ctx)
    r5_candidates_are_current(ctx)
