"""C08 — search value equals fixed-depth minimax (memo key, branch duality, leaf/recursion discipline, root selection)."""
from sa.sym import assertion_indices, Engine, show, show_cond, subterms, C, is_const, PathLimit
from .common import *
from .tables import is_true, is_false
from . import c07

EXPLANATION = (
    'Static clauses: (R1) the key under which alpha_beta_minimax memoises its result covers everything the result depends on: position '
    '(key), remaining depth, side to move / maximising flag, alpha, beta; each key component is an influencer itself or a provably '
    'injective packing of influencers (bit-range analysis of casts, shifts, masks and `|`: no field can overwrite another, nothing is '
    'sign-extended, shifted or masked away); (R2) the maximising and the minimising loop are exact duals: value init MIN/MAX, child '
    'searched with (depth-1, current window, negated flag), value = max/min(value, child), window update on the own bound, cut-off test'
    ' beta <= alpha - which is the ONLY data-dependent branch of an iteration (no second exit from, no shortcut inside, the move loop) '
    '-, store and return the value (the function is analysed once per value of the maximising flag, so a loop body shared by both '
    'players splits into these two branches); (R3) leaf and no-move returns are evaluate::score(board, mg, board.turn(), depth), '
    'whatever is stored in the cache is stored under the key probed at entry and is the value returned, children are searched between '
    'apply;toggle and undo;toggle, the root passes depth-1, the full window and the negated maximise flag of the side to move; (R4) the'
    ' root picks arg-max / arg-min of the scored list (descending sort, reversed iff maximising, pop). (R5) the cache primitives use '
    'the key they are given verbatim: one look-up, one insert; (R6) every node and the root search ALL legal moves: the list iterated '
    "is the generator's list for (board, side to move) passed only through reordering functions (sort / reverse / swap), nothing is "
    'filtered, truncated or dropped. Numerical equality with minimax (soundness of pruning as arithmetic) and hash collisions are NOT '
    'decided. (R7) no value depends on a visit counter (imports C09.R2). R2 reports a recursive call that hands the child anything '
    'beyond (depth-1, window, side).'
)
ASSUMPTIONS = [
    "alpha-beta pruning with the window discipline pinned by R2/R3 returns the minimax value (textbook theorem, not re-proved)",
    "std::cmp::{max,min}, slice::sort_by, slice::reverse, Vec::pop have their documented meaning",
    "rustc MIR construction and the chessfacts extractor are faithful",
]

AB = 'chess::alpha_beta_searcher::'
MINIMAX = AB + 'alpha_beta_minimax'
SEARCH = AB + 'alpha_beta_search'
SCORE = 'chess::evaluate::score'
CHECK, SET = AB + 'check_cache', AB + 'set_cache'
I16MIN, I16MAX = -32768, 32767


def resolve_cache_fns(ctx):
    """the cache probe / store functions are found by what they do (look up / insert into search_result_cache), not by name"""
    global CHECK, SET
    c, st_ = search_cache_fns(ctx.facts)
    if c is None or st_ is None:
        ctx.anchor_missing('C08.anchor', 'search_result_cache', 'expected exactly one function that looks up and one that inserts into the search cache')
        return False
    CHECK, SET = c, st_
    return True


def minimax_outcomes(ctx, flag=None):
    """paths of alpha_beta_minimax; with flag = True / False the function is specialised on maximizing_player (so a body shared by both
    players - `if maximizing_player {..} else {..}` inside one loop - splits into the two branches the rules speak about)"""
    resolve_cache_fns(ctx)
    facts = ctx.facts
    opaque = {n for n in facts.fns if n.startswith('chess::move_generator') or n.startswith(AB + 'prioritize')
              or n.startswith(CHESSMOVE)} | {CHECK, SET, SCORE, BOARD + '::toggle_turn'}
    eng = Engine(facts, opaque=opaque, readonly={BOARD + '::turn', BOARD + '::current_position_hash'}, max_paths=20000)
    ctx.touch(MINIMAX)
    if flag is None:
        return eng.run(MINIMAX)
    return eng.run(MINIMAX, args=[None] * 6 + [C(bool(flag))])


def subst_term(t, m):
    if not isinstance(t, tuple):
        return t
    if t in m:
        return m[t]
    return tuple(subst_term(x, m) for x in t)


def r1_key(ctx, outs):
    rule = 'C08.R1-memo-key'
    keys = set()
    for o in outs:
        for e in o.events:
            if e[0] == 'call' and e[1] == CHECK:
                keys.add(e[2][1])
    if len(keys) != 1:
        ctx.ob(rule, MINIMAX, 'one key term probed at entry', False, found=[show(k) for k in keys], expected='a single key')
        return None
    key = keys.pop()
    comps = [x for _, x in key[4]] if key[0] == 'agg' else [key]
    def has(pred):
        return any(pred(s) for c in comps for s in subterms(c))
    cover = {
        'position': has(lambda s: s[0] == 'call' and s[1] == BOARD + '::current_position_hash'),
        'remaining depth': has(lambda s: s == ('p', 4)),
        'side to move': has(lambda s: s == ('p', 7) or (s[0] == 'call' and s[1] == BOARD + '::turn')),
        'alpha': has(lambda s: s == ('p', 5)),
        'beta': has(lambda s: s == ('p', 6)),
    }
    # the key must separate its components: each component is an influencer itself or a packing that is provably injective (disjoint bit
    # ranges, no information shifted / masked / sign-extended away) - decided by bit-range analysis, for the whole domain
    from sa.bits import injective
    fn = ctx.facts.need_fn(MINIMAX)

    def leaf_ty(t_):
        if t_[0] == 'p' and isinstance(t_[1], int):
            return fn.local_ty(t_[1])
        if t_[0] == 'call' and t_[1] == BOARD + '::current_position_hash':
            return 'u64'
        if t_[0] == 'call' and t_[1] == BOARD + '::turn':
            return 'u8'
        return None
    for i_, c_ in enumerate(comps):
        if leaf_ty(c_) is not None:
            continue
        ok_, leaves, reason = injective(c_, leaf_ty)
        ctx.ob(rule, MINIMAX, 'key component %d is an injective packing of the values it covers' % i_, ok_, found={'component': show(c_)[:300], 'reason': reason},
               expected='fields kept apart: disjoint bit ranges, nothing shifted, masked or sign-extended over another field',
               why='two nodes that differ in remaining depth, side to move or window must not share a cache entry: a packed key in which one '
                   'field can overwrite another (e.g. a sign-extended window over the depth bits) makes them collide')
    # influencers: parameters used in conditions, returned values or recursive arguments
    used = set()
    for o in outs:
        terms = [a for a, v in o.conds] + ([o.value] if o.value else [])
        for e in o.events:
            if e[0] == 'call' and e[1] in (MINIMAX, SCORE):
                terms.extend(e[2])
        for t in terms:
            for s in subterms(t):
                if s[0] == 'p' and s[1] in (4, 5, 6, 7):
                    used.add(s[1])
    names = {4: 'remaining depth', 5: 'alpha', 6: 'beta', 7: 'side to move'}
    for comp in ('position', 'remaining depth', 'side to move', 'alpha', 'beta'):
        infl = comp == 'position' or any(names[i] == comp for i in used)
        if comp == 'side to move':
            infl = True
        ok = cover[comp] or not infl
        ctx.ob(rule, MINIMAX, '%s %s' % (comp, 'in key' if cover[comp] else 'not in key'), ok, found=show(key), expected='key covers ' + comp,
               why='a cached value is returned for every later probe with an equal key: if the result depends on something the key '
                   'omits (a leaf value stored for a position is served two plies higher in the next search of the game), the '
                   'search no longer returns the minimax value')
    return key


def loop_info(outs, flag):
    """collect the iteration structure of the branch maximizing_player == flag"""
    info = {'rec': set(), 'value_upd': set(), 'window_upd': set(), 'cut': set(), 'store': set(), 'ret': set(), 'init': {}, 'order': set()}
    # loop-carried locals that no iteration path changes are loop invariants: they stand for their initial value (a merged loop declares
    # `let mut beta = beta` for both players although only the minimising side ever tightens it)
    inv = {}
    changed = set()
    for o in outs:
        if o.kind == 'backedge' and o.locals:
            hs = [e for e in o.events if e[0] == 'loop_head']
            if hs:
                for l, t0 in hs[0][3].items():
                    if o.locals.get(l) != ('lv', hs[0][2], l):
                        changed.add((hs[0][2], l))
                    else:
                        inv.setdefault((hs[0][2], l), t0)
    inv = {('lv', h_, l): t0 for (h_, l), t0 in inv.items() if (h_, l) not in changed and isinstance(t0, tuple)}
    for o in outs:
        conds = dict(o.conds)
        if flag is not None and conds.get(('p', 7)) != flag:
            continue
        heads = [e for e in o.events if e[0] == 'loop_head']
        if not heads:
            continue
        asserted = assertion_indices(outs, o)          # `lock.write().unwrap()` and the like: the other side panics
        if inv:
            import copy as _copy
            o = _copy.copy(o)
            o.conds = [(subst_term(a, inv), v) for a, v in o.conds]
            o.events = [subst_term(e, inv) if e[0] == 'call' else e for e in o.events]
            o.value = subst_term(o.value, inv) if isinstance(o.value, tuple) else o.value
            if o.locals:
                o.locals = {l: (subst_term(t_, inv) if (isinstance(t_, tuple) and t_ not in inv) else t_) for l, t_ in o.locals.items()}
            conds = dict(o.conds)
        head = heads[0]
        before = {l: t0 for l, t0 in head[3].items() if ('lv', head[2], l) not in inv}
        rec = [e for e in o.events if e[0] == 'call' and e[1] == MINIMAX]
        if not rec:
            # exhausted iterator: return after the loop
            if o.kind == 'return':
                st = [e for e in o.events if e[0] == 'call' and e[1] == SET]
                info['ret'].add(('after-loop', o.value, st[0][2][2] if st else None, st[0][2][1] if st else None))
            continue
        r = rec[0]
        child = ('fld', ('call', r[1], r[2], r[3]), 'Ok.0')
        info['rec'].add(tuple(r[2][3:]))
        names = [e[1].rsplit('::', 1)[-1] for e in o.events if e[0] == 'call' and (e[1] in (MINIMAX, BOARD + '::toggle_turn') or e[1].startswith(CHESSMOVE))]
        after_head = names
        info['order'].add(tuple(n for n in after_head if n in ('apply', 'undo', 'toggle_turn', 'alpha_beta_minimax')))
        for l, t in before.items():
            info['init'][l] = t
        if o.kind == 'backedge' and o.locals:
            for l, t in o.locals.items():
                if l in before and t != ('lv', head[2], l):
                    if any(s == child for s in subterms(t)):
                        info['value_upd' if t[0] == 'call' and child in t[2] else 'window_upd'].add((l, t))
        for a, v in o.conds:
            if a[0] == 'bin' and a[1] in ('Le', 'Ge', 'Lt', 'Gt') and any(s == child for s in subterms(a)):
                info['cut'].add((a, 'exit' if (o.kind == 'return') == is_true(v) and o.kind == 'return' else ('stay' if o.kind == 'backedge' else 'exit?')))
        if o.kind == 'return':
            st = [e for e in o.events if e[0] == 'call' and e[1] == SET]
            info['ret'].add(('cut', o.value, st[0][2][2] if st else None, st[0][2][1] if st else None))
        # conditions decided inside the iteration (after the loop head): besides the cut-off comparison only the plumbing may branch
        # (iterator exhausted?, apply/undo/child returned Ok?) - any other test is a second way of leaving, or skipping part of, the loop
        if o.kind in ('return', 'backedge') and len(head) > 4:
            for i_, (a, v) in enumerate(o.conds):
                if i_ < head[4] or i_ in asserted:
                    continue
                if a[0] == 'bin' and a[1] in ('Le', 'Ge', 'Lt', 'Gt') and any(s == child for s in subterms(a)):
                    continue
                x = a[1] if a[0] == 'discr' else None
                while x is not None and x[0] == 'fld':
                    x = x[1]
                if x is not None and x[0] == 'call' and (x[1] == MINIMAX or x[1].startswith(CHESSMOVE) or x[1].endswith('Iterator>::next')
                                                         or x[1].endswith('::next')):
                    continue
                info.setdefault('extra', set()).add((o.kind, show_cond((a, v))[:200]))
    return info


def r2_duality(ctx, outs, key):
    rule = 'C08.R2-branch-duality'
    for flag, name, op, init, own, other, childflag in ((1, 'maximising', 'std::cmp::max', I16MIN, 5, 6, False),
                                                       (0, 'minimising', 'std::cmp::min', I16MAX, 6, 5, True)):
        outs_f = minimax_outcomes(ctx, flag=bool(flag))
        keys_f = {e[2][1] for o_ in outs_f for e in o_.events if e[0] == 'call' and e[1] == CHECK}      # the entry key as it reads in this specialisation
        info = loop_info(outs_f, None)
        if not info['rec']:
            ctx.anchor_missing(rule, MINIMAX, '%s loop not found' % name)
            continue
        # identify loop-carried locals
        val_l = [l for l, t in info['init'].items() if t == C(init)]
        win_l = [l for l, t in info['init'].items() if t == ('p', own)]
        ctx.ob(rule, MINIMAX, '%s: value starts at %d, own bound starts at the parameter' % (name, init), len(val_l) == 1 and len(win_l) == 1,
               found={l: show(t) for l, t in info['init'].items() if t[0] in ('c', 'p')}, expected='value = %d; bound = param' % init)
        if len(val_l) != 1 or len(win_l) != 1:
            continue
        head = next(iter(info['value_upd']))[1] if info['value_upd'] else None
        vl, wl = val_l[0], win_l[0]
        # recursion arguments
        exp_rec = None
        for rec in info['rec']:
            if len(rec) != 4:
                ctx.ob(rule, MINIMAX, '%s: child searched with (depth-1, current window, %s)' % (name, childflag), False,
                       found=[show(x) for x in rec], expected='(depth - 1, alpha, beta, %s) and nothing else handed down' % childflag,
                       why='a further value handed to the child (a score computed by the parent, a hint) makes the child\'s result depend on more than its '
                           'position, depth, window and side, which is all the cache key and the minimax recurrence know')
                continue
            d, a, b, f = rec
            lv_w = [s for s in subterms(a if own == 5 else b) if s[0] == 'lv' and s[2] == wl]
            okr = d == ('bin', 'Sub', ('p', 4), C(1)) and bool(lv_w) and (b if own == 5 else a) == ('p', other) and f == C(childflag)
            ctx.ob(rule, MINIMAX, '%s: child searched with (depth-1, current window, %s)' % (name, childflag), okr,
                   found=[show(x) for x in rec], expected='(depth - 1, alpha, beta, %s) with the updated own bound' % childflag,
                   why='each child is a node of the other player one ply deeper inside the current window')
        # value update
        okv = False
        vterm = None
        for l, t in info['value_upd']:
            if l == vl and t[0] == 'call' and t[1] == op and any(s[0] == 'lv' and s[2] == vl for s in t[2]):
                okv = True
                vterm = t
        ctx.ob(rule, MINIMAX, '%s: value = %s(value, child)' % (name, op.rsplit('::', 1)[-1]), okv,
               found=[(l, show(t)) for l, t in info['value_upd']], expected='%s(value, child)' % op.rsplit('::', 1)[-1])
        okw = False
        for l, t in info['window_upd']:
            if l == wl and t[0] == 'call' and t[1] == op and vterm is not None and vterm in t[2] and any(s[0] == 'lv' and s[2] == wl for s in t[2]):
                okw = True
        ctx.ob(rule, MINIMAX, '%s: own bound = %s(bound, value)' % (name, op.rsplit('::', 1)[-1]), okw,
               found=[(l, show(t)) for l, t in info['window_upd']], expected='%s(bound, value)' % op.rsplit('::', 1)[-1])
        # cut-off: beta <= alpha with the updated own bound
        okc = False
        for a, kind in info['cut']:
            lhs, rhs = a[2], a[3]
            if a[1] == 'Le':
                beta_t, alpha_t = lhs, rhs
            elif a[1] == 'Ge':
                alpha_t, beta_t = lhs, rhs
            else:
                continue
            own_t, oth_t = (alpha_t, beta_t) if own == 5 else (beta_t, alpha_t)
            if oth_t == ('p', other) and own_t[0] == 'call' and own_t[1] == op:
                okc = True
        ctx.ob(rule, MINIMAX, '%s: cut-off test is beta <= alpha on the updated bound' % name, okc,
               found=[show(a) for a, k in info['cut']], expected='beta <= alpha')
        extra = sorted(info.get('extra', ()))
        ctx.ob(rule, MINIMAX, '%s: every candidate is searched unless the window has closed (no other exit from, or shortcut inside, the move loop)' % name,
               not extra, found=extra[:4], expected='the only data-dependent branch of an iteration is beta <= alpha',
               why='stopping at the first "good enough" child (e.g. any forced mate) returns a value that is not the minimax value when a later '
                   'child is better (a quicker mate scores higher)')
        # stored and returned value
        okr = bool(info['ret'])
        for kind, val, stored, skey in info['ret']:
            inner = dict(val[4])['0'] if val[0] == 'agg' and val[3] == 'Ok' else None
            if stored is not None and (stored != inner or (skey != key and skey not in keys_f)):
                okr = False
            if inner is None:
                okr = False
        ctx.ob(rule, MINIMAX, '%s: the value returned is the loop value (and what is cached is that value under the entry key)' % name, okr,
               found=[(k, show(v), show(s) if s else None) for k, v, s, sk in info['ret']], expected='set_cache(key, value); Ok(value)')
        oko = info['order'] == {('apply', 'toggle_turn', 'alpha_beta_minimax', 'undo', 'toggle_turn')} or \
            all(x[:3] == ('apply', 'toggle_turn', 'alpha_beta_minimax') for x in info['order'])
        ctx.ob(rule, MINIMAX, '%s: child searched between apply;toggle_turn and undo;toggle_turn' % name, oko, found=sorted(info['order']),
               expected=('apply', 'toggle_turn', 'alpha_beta_minimax', 'undo', 'toggle_turn'))


def r3_leaf_and_root(ctx, outs, key):
    rule = 'C08.R3-leaf-and-root'
    facts = ctx.facts
    n = 0
    for o in outs:
        if o.kind != 'return' or any(e[0] == 'loop_head' for e in o.events):
            continue
        v = o.value
        inner = dict(v[4])['0'] if v[0] == 'agg' and v[3] == 'Ok' else None
        hit = [c for c in o.conds if c[0][0] == 'discr' and c[0][1][0] == 'call' and c[0][1][1] == CHECK and c[1] == 1]
        if hit:
            ctx.ob(rule, MINIMAX, 'cache hit returns the cached value', inner == ('fld', hit[0][0][1], 'Some.0'), found=show(inner), expected='Some(score) => score')
            continue
        n += 1
        sc = [e for e in o.events if e[0] == 'call' and e[1] == SCORE]
        st = [e for e in o.events if e[0] == 'call' and e[1] == SET]
        kind = 'leaf (depth == 0)' if dict(o.conds).get(('p', 4)) == 0 else 'no legal move'
        ok = len(sc) == 1 and inner == ('call', SCORE, sc[0][2], sc[0][3])
        args_ok = ok and sc[0][2][0] == ('ref', ('der', ('p', 2))) and sc[0][2][2][0] == 'call' and sc[0][2][2][1] == BOARD + '::turn' and sc[0][2][3] == ('p', 4)
        ctx.ob(rule, MINIMAX, '%s: returns evaluate::score(board, mg, board.turn(), depth)' % kind, ok and args_ok,
               found=show(inner), expected='score(board, move_generator, board.turn(), depth)',
               why='leaves are valued by the static evaluation with the remaining depth (mate distance)')
        if st:
            ctx.ob(rule, MINIMAX, '%s: cached under the entry key, value = value returned' % kind, st[0][2][1] == key and st[0][2][2] == inner,
                   found=[show(st[0][2][1]), show(st[0][2][2])], expected='set_cache(key probed at entry, returned value)')
    ctx.floor(rule, 'leaf/no-move return paths', n, 2)
    # root closure
    clo = par_task(facts, SEARCH)
    eng = Engine(facts, opaque={MINIMAX, CHESSMOVE + '::apply', CHESSMOVE + '::undo', BOARD + '::toggle_turn',
                                'chess::move_generator::MoveGenerator::new'}, readonly={AB + 'SearchContext::search_depth'})
    couts = eng.run(clo)
    ctx.touch(clo)
    rets = [o for o in couts if o.kind == 'return']
    found = None
    # values captured by the root closure, as the parent had them when it built the closure: one tuple per parent path
    snapsets = []
    for o in c07.search_outcomes(ctx):
        for e in o.events:
            if e[0] == 'closure' and e[1] == clo and e[2] not in snapsets:
                snapsets.append(e[2])
    verdicts = []
    for snaps in snapsets or [()]:
        for o in rets:
            rec = [e for e in o.events if e[0] == 'call' and e[1] == MINIMAX]
            if len(rec) != 1:
                verdicts.append(False)
                continue
            a = tuple(subst_upvars(x, snaps) for x in rec[0][2])
            d_ok = a[3][0] == 'bin' and a[3][1] == 'Sub' and a[3][3] == C(1) and any(s[0] == 'call' and s[1].endswith('::search_depth') for s in subterms(a[3]))
            ok1 = d_ok and a[4] == C(I16MIN) and a[5] == C(I16MAX) and a[6][0] == 'un' and a[6][1] == 'Not'
            order = [e[1].rsplit('::', 1)[-1] for e in o.events if e[0] == 'call' and e[1] in (MINIMAX, CHESSMOVE + '::apply', CHESSMOVE + '::undo', BOARD + '::toggle_turn')]
            ok1 = ok1 and order == ['apply', 'toggle_turn', 'alpha_beta_minimax', 'undo', 'toggle_turn']
            verdicts.append(ok1)
            if not ok1 or found is None:
                found = [show(x) for x in a[3:]]
    okroot = bool(verdicts) and all(verdicts) and bool(rets)
    ctx.ob(rule, clo, 'root child: (search_depth-1, i16::MIN, i16::MAX, !maximising) between apply;toggle and undo;toggle', okroot, found=found,
           expected='(depth - 1, MIN, MAX, !current_player_is_maximizing)')
    # the flag captured is maximize_score(board.turn())
    outs_s = c07.search_outcomes(ctx)
    flag_ok = False
    for o in outs_s:
        for a, v in o.conds:
            if a[0] == 'call' and a[1].endswith('Color::maximize_score') and a[2][0][0] == 'call' and a[2][0][1] == BOARD + '::turn':
                flag_ok = True
    ctx.ob(rule, SEARCH, 'maximising flag = maximize_score(board.turn())', flag_ok, expected='current_player.maximize_score()')
    ms = 'chess::board::color::Color::maximize_score'
    # evaluated per colour (any spelling: match, matches!, ==)
    cdv = {c: facts.variant_discr('chess::board::color::Color', c) for c in ('White', 'Black')}
    tbl = {}
    for cname, cterm in (('White', WHITE), ('Black', BLACK)):
        outs_m = [o for o in Engine(facts, fold_only=()).run(ms, args=[('ref', ('K', cterm))]) if o.kind != 'abort']
        if len(outs_m) == 1 and outs_m[0].kind == 'return' and is_const(outs_m[0].value):
            tbl[cdv[cname]] = bool(outs_m[0].value[1])
    cd = {c: facts.variant_discr('chess::board::color::Color', c) for c in ('White', 'Black')}
    ctx.ob(rule, ms, 'White maximises, Black minimises', tbl.get(cd['White']) is True and tbl.get(cd['Black']) is False, found=tbl, expected={cd['White']: True, cd['Black']: False})
    return outs_s


def sort_direction(facts, ctx, call_event):
    """'asc' / 'desc' / None for a slice sort call with a comparator or key closure over (score, move) pairs"""
    name, args = call_event[1], call_event[2]
    base = name.rsplit('::', 1)[-1]
    clo = args[1] if len(args) > 1 else None
    if not (isinstance(clo, tuple) and clo[0] == 'agg' and clo[1] == 'closure'):
        return None
    outs = [o for o in Engine(facts).run(clo[2]) if o.kind == 'return']
    ctx.touch(clo[2])
    if len(outs) != 1 or outs[0].conds:
        return None
    v = outs[0].value

    def score_of(t):
        """which comparator argument the term is the score (.0) of: 2 (first) / 3 (second)"""
        t = strip_refs_t(t)
        if t[0] == 'fld' and t[2] == '0':
            r = strip_refs_t(t[1])
            if r[0] == 'p':
                return r[1]
        return None
    if base in ('sort_by', 'sort_unstable_by'):
        if v[0] == 'call' and v[1].endswith('::cmp') and len(v[2]) == 2:
            x, y = score_of(v[2][0]), score_of(v[2][1])
            if (x, y) == (2, 3):
                return 'asc'
            if (x, y) == (3, 2):
                return 'desc'
        return None
    if base in ('sort_by_key', 'sort_unstable_by_key', 'sort_by_cached_key'):
        if v[0] == 'agg' and v[2] == 'std::cmp::Reverse' and len(v[4]) == 1 and score_of(v[4][0][1]) == 2:
            return 'desc'
        if score_of(v) == 2:
            return 'asc'
    return None


def r4_root_selection(ctx, outs_s):
    rule = 'C08.R4-root-selection'
    facts = ctx.facts
    n = 0
    SORTS = ('sort_by', 'sort_unstable_by', 'sort_by_key', 'sort_unstable_by_key', 'sort_by_cached_key')
    for o in outs_s:
        if o.kind != 'return' or not is_ok_result(o.value):
            continue
        n += 1
        flag = None
        for a, v in o.conds:
            if a[0] == 'call' and a[1].endswith('Color::maximize_score'):
                flag = 1 if is_true(v) else 0
        steps = [e for e in o.events if e[0] == 'call' and (e[1].rsplit('::', 1)[-1] in SORTS or e[1].endswith('::reverse') or e[1].endswith('Vec::<T, A>::pop'))]
        seq = [e[1].rsplit('::', 1)[-1] for e in steps]
        picked = None
        if seq and seq[0] in SORTS and seq[-1] == 'pop' and all(x == 'reverse' for x in seq[1:-1]):
            d = sort_direction(facts, ctx, steps[0])
            if d is not None:
                asc = (d == 'asc') != (len(seq[1:-1]) % 2 == 1)
                picked = 'max' if asc else 'min'         # pop takes the last element
        want = 'max' if flag == 1 else 'min'
        ctx.ob(rule, SEARCH, '%s root takes the %s score' % ('maximising' if flag else 'minimising', want), picked == want,
               found={'steps': seq, 'picked': picked}, expected='sort by score, then take the %s' % want,
               why='the move returned must attain the best score for the side to move')
    ctx.floor(rule, 'Ok paths of alpha_beta_search', n, 2)


def r5_cache_primitives(ctx):
    """the probe looks up, and the store inserts under, exactly the key it is handed - one look-up / one insert, no second key built
    inside (a probe that also tries neighbouring keys, e.g. deeper entries, answers a depth-d node with a value of another depth)"""
    rule = 'C08.R5-cache-primitives'
    facts = ctx.facts
    if not resolve_cache_fns(ctx):
        return
    for fname, method, what in ((CHECK, 'get', 'probe'), (SET, 'insert', 'store')):
        f = facts.need_fn(fname)
        # key parameter = the tuple-typed parameter
        # key parameter = the by-value parameter that is a tuple or a struct (not the context reference, not the scalar score)
        PRIM = {'i8', 'i16', 'i32', 'i64', 'u8', 'u16', 'u32', 'u64', 'usize', 'isize', 'bool'}
        kp = [i for i in range(1, f.arg_count + 1) if not f.local_ty(i).startswith('&') and f.local_ty(i) not in PRIM]
        outs = Engine(facts).run(fname)
        ctx.touch(fname)
        ops = []
        for o in outs:
            for e in o.events:
                if e[0] == 'call' and 'HashMap' in e[1] and e[1].endswith('::' + method):
                    k = strip_refs_t(e[2][1])
                    if (e[3], k) not in ops:
                        ops.append((e[3], k))
        nested = sum(1 for c in facts.closures_of(fname) for b, t in c.calls() if 'HashMap' in (facts.callee_name(t) or ''))
        ok = len(kp) == 1 and len({k for _, k in ops}) == 1 and ops and ops[0][1] == ('p', kp[0]) and nested == 0
        if ok and what == 'probe':
            # a hit returns the stored value, a miss returns None
            for o in outs:
                if o.kind != 'return':
                    continue
                v = o.value
                g = [c for c in o.conds if c[0][0] == 'discr' and c[0][1][0] == 'call' and c[0][1][1].endswith('::get')]
                if v[0] == 'agg' and v[3] == 'Some':
                    ok = ok and bool(g) and g[0][1] == 1 and any(s_[0] == 'call' and s_[1].endswith('::get') for s_ in subterms(v))
                elif v[0] == 'agg' and v[3] == 'None':
                    ok = ok and bool(g) and (g[0][1] == 0 or (isinstance(g[0][1], tuple) and g[0][1][0] == 'not' and 1 in g[0][1][1]))
        if ok and what == 'store':
            for o in outs:
                for e in o.events:
                    if e[0] == 'call' and 'HashMap' in e[1] and e[1].endswith('::insert'):
                        vp = [i for i in range(1, f.arg_count + 1) if f.local_ty(i) == 'i16']
                        ok = ok and len(vp) == 1 and e[2][2] == ('p', vp[0])
        ctx.ob(rule, fname, '%s uses exactly the key it is given' % what, ok,
               found={'keys': [show(k) for _, k in ops], 'look-ups inside closures': nested}, expected='one HashMap::%s with the key parameter' % method,
               why='the value of a node depends on every component of the key (C08.R1): an entry stored for another remaining depth or window is not its value')


PERMUTING = ('sort_by', 'sort_unstable_by', 'sort_by_key', 'sort_unstable_by_key', 'sort_by_cached_key', 'sort', 'sort_unstable', 'reverse', 'swap',
             'deref_mut', 'as_mut_slice', 'as_mut', 'iter_mut', 'borrow_mut', 'index_mut')


def permutation_only(facts, name, seen=None):
    """a crate function that, wherever it passes on a `&mut` list / slice of moves, only reorders it (sort / reverse / swap, or another such
    function): it can change the order in which the candidates are searched but not which candidates are searched"""
    seen = seen if seen is not None else set()
    if name in seen:
        return True
    seen.add(name)
    f = facts.fns.get(name)
    if f is None:
        return False
    bodies = [f] + list(facts.closures_of(name))
    for g in bodies:
        for b, t_ in g.calls():
            tys = t_.get('arg_tys') or []
            if not any(ty.startswith('&mut') and 'ChessMove' in ty for ty in tys):
                continue
            callee = facts.callee_name(t_) or ''
            base = callee.rsplit('::', 1)[-1]
            if base in PERMUTING and not callee.startswith('chess::'):
                continue
            if callee.startswith('chess::') and permutation_only(facts, callee, seen):
                continue
            return False
    return True


def r6_all_candidates(ctx, outs):
    """every node searches ALL legal moves of its position: the list the move loop iterates is the generator's list for (board, side to
    move), passed at most through reordering functions - nothing is filtered, truncated or dropped before the loop"""
    rule = 'C08.R6-all-candidates'
    facts = ctx.facts
    GEN = {'chess::move_generator::MoveGenerator::generate_moves_and_lazily_update_chess_move_effects', 'chess::move_generator::MoveGenerator::generate_moves'}
    PASS = ('iter', 'into_iter', 'deref', 'par_iter', 'as_slice', 'rev')

    def source_ok(term, events):
        """follow the iterated value back to the generator call; returns (ok, description)"""
        t_ = term
        for _ in range(40):
            if t_[0] in ('ref', 'K', 'der'):
                t_ = t_[1]
                continue
            if t_[0] == 'call' and t_[1] in GEN:
                return True, show(t_)[:120]
            if t_[0] == 'call' and t_[1].rsplit('::', 1)[-1] in PASS and len(t_[2]) == 1:
                t_ = t_[2][0]
                continue
            if t_[0] == 'hv':
                ev_ = [e for e in events if e[0] == 'call' and e[3] == t_[1]]
                if not ev_:
                    return False, 'value changed by an unknown call'
                e = ev_[0]
                if not permutation_only(facts, e[1]):
                    return False, '%s may remove or replace candidates' % e[1]
                pre = dict(e[6]) if len(e) > 6 else {}
                if len(pre) != 1:
                    return False, '%s: cannot tell which list it reorders' % e[1]
                t_ = list(pre.values())[0]
                continue
            return False, 'iterates %s' % show(t_)[:160]
        return False, 'chain too long'
    seen_heads = {}
    for o in outs:
        if o.kind != 'backedge':
            continue
        heads = [e for e in o.events if e[0] == 'loop_head']
        if not heads or not any(e[0] == 'call' and e[1] == MINIMAX for e in o.events):
            continue
        h = heads[0]
        if h[2] in seen_heads:
            continue
        its = [v for v in h[3].values() if isinstance(v, tuple) and any(s[0] == 'call' and s[1].rsplit('::', 1)[-1] in ('iter', 'into_iter') for s in subterms(v))]
        if isinstance(h[2], tuple):
            # the loop is an iterator adapter (`candidates.iter().any(|m| ..)`): its source and stages are recorded by the engine
            ad = [e for e in o.events if e[0] == 'adapter' and e[2] == h[2]]
            if ad and set(ad[0][4]) <= {'cloned', 'copied', 'enumerate', 'rev', 'by_ref'}:
                its = [ad[0][3]]
            else:
                its = []
        if len(its) != 1:
            seen_heads[h[2]] = (False, 'loop iterator not recognised')
            continue
        seen_heads[h[2]] = source_ok(its[0], o.events)
    for hd, (ok, desc) in sorted(seen_heads.items(), key=lambda x: str(x[0])):
        ctx.ob(rule, MINIMAX, 'move loop iterates the whole generated list (reordering only)', ok, found=desc,
               expected='for m in sort(generate_moves(board, turn)): nothing filtered out before the loop',
               why='a node that leaves candidates unsearched (e.g. "redundant" under-promotions) returns a value that is not the minimax value '
                   'whenever a dropped move is the best one (promotion to a rook where the queen stalemates)')
    ctx.floor(rule, 'move loops of alpha_beta_minimax', len(seen_heads), 1)
    # root: the parallel iterator runs over the generated list as well
    import rules.c07 as c07
    routs = c07.search_outcomes(ctx)
    n = 0
    okr, descr = False, 'no parallel iteration found'
    for o in routs:
        for e in o.events:
            if e[0] == 'call' and e[1].rsplit('::', 1)[-1] in ('par_iter', 'into_par_iter'):
                n += 1
                okr, descr = source_ok(e[2][0], o.events)
                break
        if n:
            break
    ctx.ob(rule, SEARCH, 'root tasks cover the whole generated list (reordering only)', okr, found=descr,
           expected='sort(generate_moves(board, turn)).par_iter()')


def run(ctx):
    r5_cache_primitives(ctx)
    outs = minimax_outcomes(ctx)
    key = r1_key(ctx, outs)
    if key is None:
        return
    r2_duality(ctx, outs, key)
    outs_s = r3_leaf_and_root(ctx, outs, key)
    r4_root_selection(ctx, outs_s)
    r6_all_candidates(ctx, outs)
    # the value of a node must not depend on how much has been searched so far: the statistics counters reach no branch, argument or result
    # (a node budget that turns nodes into leaves once a count is exceeded makes cached interior values depend on the search history)
    from . import c09
    c09.init_fields(ctx.facts)
    import_rules(ctx, 'C08.R7-no-count-dependence', [c09.r2_non_interference],
                 'exact fixed-depth minimax is a function of the position and the depth alone; a value that depends on a visit counter is not',
                 floor=3)
