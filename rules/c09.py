"""C09 — the parallel search gives the same answer under every schedule."""
import re

from sa.sym import Engine, show, show_cond, subterms, C, is_const, PathLimit
from .common import *
from .tables import is_true, is_false
from . import c07, c08

EXPLANATION = (
    'Static clauses: (R1) inventory of state shared between the parallel root tasks: the closures capture only shared references to the'
    " caller's board / context / flags, every task owns its board clone and move generator, the only interior-mutable state reachable "
    'is the four Arc<RwLock<_>> of SearchContext, and the crate has no static mutable/interior-mutable items; (R2) the three statistic '
    'counters never flow into a branch, argument or result of the search (they are only incremented, reset or returned by getters); '
    '(R3) the shared result cache is functional - its key determines its value (imports C08.R1 incl. the injective-packing clause and '
    'C08.R5), and inside the search call graph the board is changed only through apply/undo/toggle_turn (imports the C04.R4 rows of '
    'those functions: a search that registers positions or touches clocks makes leaf values path dependent while the key stays the '
    'same); (R4) the lock-order graph over all acquisition sites is acyclic, no lock is re-acquired while held and no crate function '
    'that acquires locks is called under a guard; (R5) the result is a deterministic function of the candidate list in candidate order:'
    " indexed parallel map collected into a Vec, sequential sort, comparator on scores only. rayon's and std's own correctness and "
    'panics in workers are NOT decided. R1 accepts any number of integer counters, each behind its own lock (found by type), next to '
    "the result cache; R2 applies to all of them and tolerates a branch on a counter's value only when it decides nothing but what is "
    'written back to that same counter (a running maximum); any other kind of shared mutable field is a violation. R2 resolves guards '
    'held in locals (also after a &mut use) to their lock; R1 objects only to mutable or interior-mutable statics that code reachable '
    'from the tasks refers to. Counters may also be atomics or a per-worker vector of atomics (Arc<Vec<AtomicUsize>>); such slots must '
    'be addressed through checked accessors (get / iter) in code reachable from the root tasks - a panicking index depends on the pool '
    'the search runs in. An atomic counter outside the search context (a progress total on the move generator that a reporter thread '
    'polls) is admitted when the code that runs the parallel tasks only writes it: store, or fetch_* whose returned previous value is '
    'never used; load / swap / compare_exchange there are reported.'
)
ASSUMPTIONS = [
    "rayon: collect() of an indexed parallel iterator preserves the order of the underlying slice",
    "RwLock guards release on drop; std::sync has no lock-order of its own",
    "rustc MIR construction and the chessfacts extractor are faithful",
]

AB = 'chess::alpha_beta_searcher::'
SC = AB + 'SearchContext'
SEARCH = AB + 'alpha_beta_search'
MINIMAX = AB + 'alpha_beta_minimax'
COUNTERS = {'searched_position_count', 'cache_hit_count', 'termination_count'}
LOCK_FIELDS = COUNTERS | {'search_result_cache'}
INT_LOCK = re.compile(r'^(std::sync::Arc<)?std::sync::(RwLock|Mutex)<(usize|u8|u16|u32|u64|u128|isize|i8|i16|i32|i64|i128|bool)>>?$|^(std::sync::Arc<)?(std::vec::Vec<)?std::sync::atomic::Atomic(\w+|<\w+>)>?>?$')


def init_fields(facts):
    """The shared state of a search: the result cache plus any number of integer COUNTERS behind their own lock (statistics).  Every such
    counter is subject to the same discipline (R2: its value reaches nothing but itself; R4: lock order) - a maintainer may add one."""
    PAR_CLOSURES[:] = [par_task(facts, SEARCH), par_task(facts, 'chess::move_generator::MoveGenerator::count_positions')]
    adt = facts.adts.get(SC)
    if adt is None:
        return
    found = {fd['name'] for v in adt['variants'] for fd in v['fields'] if INT_LOCK.match(fd['ty'])}
    COUNTERS.clear()
    COUNTERS.update(found)
    LOCK_FIELDS.clear()
    LOCK_FIELDS.update(COUNTERS | {'search_result_cache'})
PAR_CLOSURES = [SEARCH + '::{closure#0}', 'chess::move_generator::MoveGenerator::count_positions::{closure#0}']
INTERIOR = re.compile(r'\b(Mutex|RwLock|Atomic\w*|Cell|RefCell|UnsafeCell|OnceCell|OnceLock|LazyLock|mpsc::)\b')


ATOMIC_CALL = re.compile(r'^std::sync::atomic::Atomic(\w*|::<\w+>)::(\w+)$')


def atomic_readers(facts, roots):
    """atomic operations in the chess-crate code reachable from `roots` whose result can reach anything: every operation other than `new`,
    `store`, and a `fetch_*` whose returned previous value is never used.  An atomic that the counting / searching code only writes (a
    progress total another thread polls) cannot make a result depend on the schedule."""
    out = []
    reach = set()
    for r in roots:
        reach |= facts.reachable_fns([r] + [c.name for c in facts.closures_of(r)])
    for rn in sorted(reach):
        f = facts.fns.get(rn)
        if f is None or f.crate != 'chess':
            continue
        for b_, t in f.calls():
            m = ATOMIC_CALL.match(facts.callee_name(t) or '')
            if not m:
                continue
            meth = m.group(2)
            if meth in ('new', 'store'):
                continue
            dest = t.get('dest') or {}
            if meth.startswith('fetch_') and not dest.get('proj'):
                dl = dest.get('local')

                def mentions(x, top=True):
                    if isinstance(x, dict):
                        if x.get('local') == dl and 'proj' in x:
                            return True
                        return any(mentions(v, False) for k_, v in x.items() if not (top and k_ == 'dest'))
                    if isinstance(x, list):
                        return any(mentions(v, False) for v in x)
                    return False
                used = False
                for b2 in f.blocks:
                    if b2['cleanup']:
                        continue
                    for st in b2['stmts']:
                        if st['k'] == 'assign' and mentions(st, False):
                            used = True
                    t2 = b2['term']
                    if t2 is t:
                        used = used or mentions({k_: v for k_, v in t2.items() if k_ != 'dest'}, False)
                    elif t2['k'] != 'drop' and mentions(t2, False):
                        used = True
                if not used:
                    continue
            out.append((rn, meth, t.get('span')))
    return out


def upvars(fn):
    up = {}
    def scan_place(pl):
        if pl:
            for p in pl.get('proj', []):
                if isinstance(p, dict) and str(p.get('field', '')).startswith('upvar'):
                    up[p['field']] = p['ty']
    def scan_op(op):
        if isinstance(op, dict) and op.get('k') in ('copy', 'move'):
            scan_place(op['place'])
    for b in fn.blocks:
        for s in b['stmts']:
            if s['k'] == 'assign':
                scan_place(s['place'])
                rv = s['rv']
                scan_place(rv.get('place'))
                for x in ('op', 'a', 'b'):
                    scan_op(rv.get(x))
                for o in rv.get('ops', []):
                    scan_op(o)
        t = b['term']
        if t['k'] == 'call':
            for a in t['args']:
                scan_op(a)
    return up


def r1_inventory(ctx):
    rule = 'C09.R1-shared-state'
    facts = ctx.facts
    for name in PAR_CLOSURES:
        fn = facts.fns.get(name)
        if fn is None:
            ctx.anchor_missing(rule, name)
            continue
        ctx.touch(name)
        env = fn.local_ty(1)
        ctx.ob(rule, name, 'task body is Fn (environment by shared reference)', env.startswith('&') and not env.startswith('&mut'), found=env, expected='&{closure}')
        up = upvars(fn)
        bad = {k: v for k, v in up.items() if not v.startswith('&') or INTERIOR.search(v)}
        # a captured atomic counter that the task and its caller only write (progress for a reporter thread) carries nothing between tasks
        if bad and all(v.startswith('&') and INT_LOCK.match(v.lstrip('&')) for v in bad.values()) and not atomic_readers(facts, [fn.closure_of or name]):
            bad = {}
        ctx.ob(rule, name, 'captures are shared references to plain data (%d captures)' % len(up), not bad and len(up) >= 2, found=up, expected='&T without interior mutability',
               why='state shared between root tasks other than the context would make the result depend on the schedule')
        # per-task owned state: board clone and a fresh generator
        # calls made by the task before it enters the recursive search, through any private helper the body is split into
        calls = []
        for rn in sorted(facts.reachable_fns([name], stop={AB + 'alpha_beta_minimax', 'chess::move_generator::MoveGenerator::new'})):
            rf = facts.fns.get(rn)
            if rf is not None and rf.crate == 'chess':
                calls += [facts.callee_name(t) for b, t in rf.calls()]
        owns = any(c and c.endswith('Board as std::clone::Clone>::clone') for c in calls) and 'chess::move_generator::MoveGenerator::new' in calls
        ctx.ob(rule, name, 'each task clones the board and builds its own move generator', owns, found=[c for c in calls if c and ('clone' in c or '::new' in c)][:6],
               expected='board.clone(), MoveGenerator::new()')
    # interior mutability in types reachable from the search: only SearchContext's four locks
    adt = facts.adts.get(SC)
    locks = {fd['name']: fd['ty'] for v in adt['variants'] for fd in v['fields'] if INTERIOR.search(fd['ty'])}
    ctx.ob(rule, SC, 'interior-mutable fields are the result cache and integer counters', set(locks) == LOCK_FIELDS and 'search_result_cache' in locks and len(COUNTERS) >= 3,
           found=locks, expected='search_result_cache + counters of an integer type, each behind its own lock',
           why='any other shared mutable state (a board, a generator, a move list behind a lock) couples the root tasks')
    # a collection of counters (one slot per worker) is sized at some moment for some pool; a task that addresses its slot with a panicking
    # index (`counts[i]`) panics under a pool with more workers than slots - only the checked accessors (get / iter) are schedule-free
    vec_counters = {n_ for n_, ty_ in locks.items() if 'Vec<' in ty_}
    if vec_counters:
        panicking = []
        for rn in sorted(facts.reachable_fns(PAR_CLOSURES[:1])):
            rf = facts.fns.get(rn)
            if rf is None or rf.crate != 'chess':
                continue
            for b_, t_ in rf.calls():
                cn = facts.callee_name(t_) or ''
                if ('ops::Index' in cn or 'ops::index::Index' in cn) and cn.endswith(('::index', '::index_mut')) and \
                        any('Atomic' in (ty_ or '') for ty_ in (t_.get('arg_tys') or [])[:1]):
                    panicking.append((rn, t_.get('span')))
        ctx.ob(rule, SC, 'per-worker counter slots are addressed through checked accessors (no panicking index)', not panicking, found=panicking[:4], expected=[],
               why='the number of workers of the pool a search runs in is not the number the slots were allocated for: an unchecked index panics in some schedules')
    others = {}
    for path, a in facts.adts.items():
        if not path.startswith('chess::') or path == SC:
            continue
        for v in a['variants']:
            for fd in v['fields']:
                if INTERIOR.search(fd['ty']):
                    others[path + '.' + fd['name']] = fd['ty']
    if others and all(INT_LOCK.match(ty_) for ty_ in others.values()):
        parents = [facts.fns[c_].closure_of for c_ in PAR_CLOSURES if c_ in facts.fns and facts.fns[c_].closure_of]
        readers = atomic_readers(facts, parents)
        ctx.ob(rule, 'chess::*', 'atomic counters outside the search context are only written by the code that runs the parallel tasks', not readers,
               found={'fields': others, 'reads': readers[:4]}, expected='store / fetch_* with the previous value unused',
               why='a shared counter whose value is read back by the counting or searching code makes the result depend on the schedule')
        others = {}
    ctx.ob(rule, 'chess::*', 'no other type of the crate has interior-mutable fields', not others, found=others, expected={},
           why='a shared generator or board behind a lock would couple the tasks')
    statics = []
    for key in (('chess', 'lib'), ('common', 'lib')):
        for c in facts.crates[key]['consts']:
            if c.get('item_kind', '').startswith('Static'):
                statics.append(c['path'])
    # a static is shared global state of the tasks only if code reachable from a task refers to it (a lazily compiled regex of the
    # input handler is not)
    def statics_of(f):
        out = set()

        def walk(x):
            if isinstance(x, dict):
                if 'static' in x and 'ptr' in x:
                    out.add(x['static'])
                for v in x.values():
                    walk(v)
            elif isinstance(x, list):
                for v in x:
                    walk(v)
        walk(f.blocks)
        return out
    reach = facts.reachable_fns([n for n in PAR_CLOSURES if n in facts.fns] + [SEARCH, MINIMAX])
    # an immutable static of a type without interior mutability is a constant table with an address, not shared state
    mutable_static = {}
    for key in (('chess', 'lib'), ('common', 'lib')):
        for c in facts.crates[key]['consts']:
            if c.get('item_kind', '').startswith('Static'):
                mutable_static[c['path']] = ('mutability: Mut' in c['item_kind']) or bool(INTERIOR.search(c.get('ty', '')))
    touched = {}
    for rn in reach:
        rf = facts.fns.get(rn)
        if rf is not None and rf.crate in ('chess', 'common'):
            for st_ in statics_of(rf):
                if mutable_static.get(st_, True):
                    touched.setdefault(st_, []).append(rn)
    ctx.ob(rule, 'chess::*', 'no static item is referred to by code the parallel tasks can reach (shared global state)', not touched,
           found={k: sorted(v)[:3] for k, v in touched.items()} or {'statics elsewhere': statics}, expected={})
    # thread-locals / statics referenced from MIR
    tls = []
    for f in facts.lib_fns('chess'):
        for b in f.blocks:
            for s in b['stmts']:
                if s['k'] == 'assign' and s['rv']['k'] == 'tls':
                    tls.append((f.name, s['rv']['path']))
    ctx.ob(rule, 'chess::*', 'no thread-local state in the library', not tls, found=tls[:5], expected=[], nontrivial=False)


def lock_field(t):
    for s in subterms(t):
        if s[0] == 'fld' and s[2] in LOCK_FIELDS:
            return s[2]
    return None


def lock_events(o):
    """ordered ('acq', field, mode) / ('rel', mode) / ('call', name) events of a path"""
    res = []
    for e in o.events:
        if e[0] == 'call' and e[1] in ('std::sync::RwLock::<T>::read', 'std::sync::RwLock::<T>::write'):
            res.append(('acq', lock_field(e[2][0]) or '?', 'write' if e[1].endswith('write') else 'read'))
        elif e[0] == 'drop':
            res.append(('rel', 'write' if 'WriteGuard' in e[1] else 'read'))
        elif e[0] == 'call' and e[1].startswith('chess::'):
            res.append(('call', e[1]))
    return res


def r4_lock_order(ctx):
    rule = 'C09.R4-lock-order'
    facts = ctx.facts
    lockers = set()
    for callee in ('std::sync::RwLock::<T>::read', 'std::sync::RwLock::<T>::write'):
        for f, b in facts.call_sites(callee, crate='chess', kinds=('lib',)):
            lockers.add(f.name)
    n_sites = sum(len(facts.call_sites(c, crate='chess')) for c in ('std::sync::RwLock::<T>::read', 'std::sync::RwLock::<T>::write'))
    ctx.floor(rule, 'RwLock acquisition sites', n_sites, 5)
    # transitive lockers
    trans = {}
    for f in facts.lib_fns('chess'):
        reach = facts.reachable_fns([f.name])
        acq = reach & lockers
        if acq:
            trans[f.name] = acq
    edges = {}
    reacq = []
    under_guard_calls = []
    analysed = 0
    for name in sorted(lockers):
        fn = facts.fns[name]
        ctx.touch(name)
        # small lock-taking helpers (`increment(&counter)`) are expanded in place: their acquisitions, with the lock they are handed,
        # become part of the caller's acquisition sequence; the search routines themselves are never expanded
        small = {n_ for n_ in lockers if n_ not in (MINIMAX, SEARCH) and not facts.fns[n_].cfg.has_loops() and facts.fns[n_].kind != 'Closure'
                 and len(facts.fns[n_].blocks) <= 40}
        eng = Engine(facts, inline_filter=lambda n, c, small=small, name=name: n in small and n != name, max_paths=20000)
        try:
            outs = eng.run(name)
        except PathLimit:
            ctx.anchor_missing(rule, name, 'path limit')
            continue
        analysed += 1
        for o in outs:
            held = []
            for ev in lock_events(o):
                if ev[0] == 'acq':
                    for h in held:
                        edges.setdefault((h[0], ev[1]), set()).add((name, h[1] + '->' + ev[2]))
                        if h[0] == ev[1]:
                            reacq.append((name, ev[1]))
                    held.append((ev[1], ev[2]))
                elif ev[0] == 'rel':
                    for i in range(len(held) - 1, -1, -1):
                        if held[i][1] == ev[1]:
                            held.pop(i)
                            break
                elif ev[0] == 'call' and held and ev[1] in trans and ev[1] != name:
                    under_guard_calls.append((name, ev[1], [h[0] for h in held]))
            # recursion of minimax while holding a guard
    # cycle detection
    graph = {}
    for (a, b), w in edges.items():
        if a != b:
            graph.setdefault(a, set()).add(b)
    def cyclic():
        seen, stack = set(), set()
        def dfs(x):
            if x in stack:
                return True
            if x in seen:
                return False
            seen.add(x)
            stack.add(x)
            r = any(dfs(y) for y in graph.get(x, ()))
            stack.discard(x)
            return r
        return any(dfs(x) for x in list(graph))
    ctx.ob(rule, 'lock-order graph', 'acyclic (%s)' % (', '.join('%s->%s' % k for k in sorted(edges)) or 'no nesting'), not cyclic(),
           found={'%s->%s' % k: sorted(v) for k, v in edges.items()}, expected='no cycle', why='a cycle in the acquisition order can deadlock two root tasks')
    ctx.ob(rule, 'lock-order graph', 'no lock re-acquired while held', not reacq, found=reacq[:4], expected=[], why='std RwLock is not re-entrant')
    ctx.ob(rule, 'lock-order graph', 'no lock-taking crate function called under a guard', not under_guard_calls, found=under_guard_calls[:4], expected=[])
    ctx.floor(rule, 'lock-taking functions analysed', analysed, 4)
    ctx.extra['lock_edges'] = {'%s->%s' % k: sorted(map(str, v)) for k, v in edges.items()}


_SIG_CACHE = {}


def self_update(outs, o, i, c):
    """the decision at condition i of path o (which reads counter c) only decides whether / what is written to counter c itself (a running
    maximum, a saturating count): some path decides it the other way and is otherwise the same path - same remaining conditions, same
    value, same events except the writes through c's own guard"""
    def guard_calls(p):
        """uids of the Deref / DerefMut calls on a guard of counter c's lock (a `&mut guard` receiver is resolved through the value the
        guard local held before the call)"""
        ids = set()
        for e in p.events:
            if e[0] == 'call' and 'Guard' in e[1] and 'deref' in e[1].rsplit('::', 1)[-1]:
                pre = dict(e[6]).get(0) if len(e) > 6 and e[6] else None
                if any(lock_field(a_) == c for a_ in e[2]) or (pre is not None and lock_field(pre) == c):
                    ids.add(e[3])
        return ids

    def drop(p, e):
        gc = guard_calls(p)
        return (e[0] == 'write' and any(x[0] == 'call' and 'Guard' in x[1] and (x[3] in gc or lock_field(x) == c) for x in subterms(e[1]))) \
            or (e[0] == 'call' and e[3] in gc)
    return decides_only(outs, o, i, drop, tag=c)


def r2_non_interference(ctx):
    rule = 'C09.R2-counters'
    facts = ctx.facts
    cfs = [x for x in search_cache_fns(facts) if x]
    targets = [MINIMAX] + cfs + [SEARCH, PAR_CLOSURES[0]]
    n = 0
    for name in targets:
        if facts.fns.get(name) is None:
            ctx.anchor_missing(rule, name)
            continue
        ctx.touch(name)
        eng = Engine(facts, inline_filter=lambda nm, c: nm in cfs, max_paths=40000)
        try:
            outs = eng.run(name)
        except PathLimit:
            ctx.anchor_missing(rule, name, 'path limit')
            continue
        leaks = set()
        for o in outs:
            # which lock a `deref` / `deref_mut` of a guard held in a LOCAL goes to: read off the value the local held before the call
            guard_of = {}
            for e_ in o.events:
                if e_[0] == 'call' and 'Guard' in e_[1] and 'deref' in e_[1].rsplit('::', 1)[-1]:
                    pre_ = dict(e_[6]).get(0) if len(e_) > 6 and e_[6] else None
                    f_ = lock_field(pre_) if pre_ is not None else None
                    if f_ is None:
                        for a_ in e_[2]:
                            f_ = f_ or lock_field(a_)
                    if f_ is None:
                        # the guard was touched through `&mut` before (its value is "whatever call #u left"): same guard, same lock
                        for a_ in e_[2]:
                            for x_ in subterms(a_):
                                if len(x_) == 2 and x_[0] == 'hv' and x_[1] in guard_of:
                                    f_ = guard_of[x_[1]]
                    if f_:
                        guard_of[e_[3]] = f_

            def counter_value(t, guard_of=guard_of):
                # a term that reads *through* a guard of a counter lock (deref of the guard), not the lock result itself
                for s in subterms(t):
                    if s[0] == 'der' and any(x[0] == 'call' and 'Guard' in x[1] and 'deref' in x[1] for x in subterms(s)):
                        fld = lock_field(s)
                        if fld is None:
                            for x in subterms(s):
                                if x[0] == 'call' and 'Guard' in x[1] and 'deref' in x[1] and x[3] in guard_of:
                                    fld = guard_of[x[3]]
                        if fld in COUNTERS:
                            return fld
                    if s[0] == 'call' and 'Guard' in s[1] and 'deref' in s[1]:
                        pass
                return None
            for i_, (a, v) in enumerate(o.conds):
                c = counter_value(a)
                if c and not self_update(outs, o, i_, c):
                    leaks.add(('branch', c))
            if o.value is not None:
                c = counter_value(o.value)
                if c:
                    leaks.add(('result', c))
            for e in o.events:
                if e[0] == 'call' and not e[1].startswith('std::sync::') and 'Guard' not in e[1]:
                    for a in e[2]:
                        c = counter_value(a)
                        if c:
                            leaks.add(('arg of ' + e[1].rsplit('::', 1)[-1], c))
                if e[0] == 'write':
                    # writes through a counter guard are fine; anything else written from a counter value is a leak
                    tgt_counter = any(x[0] == 'call' and 'Guard' in x[1] for x in subterms(e[1]))
                    if not tgt_counter and counter_value(e[2]):
                        leaks.add(('stored into ' + show(e[1])[:40], counter_value(e[2])))
            n += 1
        ctx.ob(rule, name, 'counter values never reach a branch, argument, result or other state', not leaks, found=sorted(leaks), expected=[],
               why='the counters are updated in schedule order; anything computed from them would depend on the interleaving')
    ctx.floor(rule, 'paths examined', n, 10)
    # getters/reset only
    users = set()
    for fld in COUNTERS:
        from sa.facts import field_reads
        for f, b, _ in field_reads(facts, SC, fld):
            users.add(f.closure_of or f.name)
    base = {SC + '::reset_stats', SC + '::new', MINIMAX} | {SC + '::' + c for c in COUNTERS} | set(x for x in search_cache_fns(facts) if x)
    allowed = base | facts.only_through(base)
    users = {u for u in users if not facts.fns[u].derived}
    ctx.ob(rule, SC, 'counters touched only by the search, reset_stats and the getters', users <= allowed, found=sorted(users - allowed), expected=[], nontrivial=False)


def r5_selection(ctx):
    rule = 'C09.R5-schedule-free-selection'
    facts = ctx.facts
    fn = facts.need_fn(SEARCH)
    chain = []
    for b, t in fn.calls():
        n = facts.callee_name(t) or ''
        if 'rayon' in n or n.endswith('::sort_by') or 'sort' in n.rsplit('::', 1)[-1] or n.endswith('::reverse') or n.endswith('Vec::<T, A>::pop'):
            chain.append((n, t['callee'].get('args', [])))
    names = [c[0] for c in chain]
    forbidden = [n for n in names if re.search(r'for_each|reduce|max_by|min_by|par_bridge|par_sort|find_any|try_', n)]
    ctx.ob(rule, SEARCH, 'no completion-order combinator (for_each/reduce/par_bridge/par_sort/...)', not forbidden, found=forbidden, expected=[])
    par = [c for c in chain if c[0].endswith('::par_iter')]
    okp = bool(par) and all(any(('smallvec::SmallVec' in a or a.startswith('[') or 'Vec<' in a) for a in c[1]) for c in par)
    ctx.ob(rule, SEARCH, 'parallel iteration over an indexed source (slice / SmallVec / Vec)', okp, found=[c[1] for c in par], expected='IntoParallelRefIterator on a slice-like container')
    col = [c for c in chain if c[0].endswith('ParallelIterator::collect')]
    okc = bool(col) and all(any(a.startswith('std::vec::Vec<') for a in c[1]) for c in col)
    ctx.ob(rule, SEARCH, 'results collected into a Vec (order of the candidates)', okc, found=[c[1][-1:] for c in col], expected='collect::<Vec<_>>()',
           why='the scored list must be in candidate order whatever order the tasks finish in')
    srt = [n for n in names if 'sort' in n.rsplit('::', 1)[-1] and not n.startswith('chess::')]
    oks = bool(srt) and all(n.startswith('std::slice::<impl [T]>::sort') for n in srt)
    ctx.ob(rule, SEARCH, 'sequential slice sort', oks, found=srt, expected='slice::sort_by / sort_unstable_by')
    order = [n.rsplit('::', 1)[-1] for n in names]
    idx = {k: order.index(k) for k in ('par_iter', 'collect') if k in order}
    oko = 'par_iter' in idx and 'collect' in idx and idx['par_iter'] < idx['collect'] and any(o.startswith('sort') for o in order[idx['collect']:])
    ctx.ob(rule, SEARCH, 'par_iter -> map -> collect -> sort -> pop', oko, found=order, expected='this order', nontrivial=False)
    # shared containers filled from inside the tasks would show up as &mut captures / Mutex: covered by R1


def run(ctx):
    init_fields(ctx.facts)
    r1_inventory(ctx)
    r2_non_interference(ctx)
    # R3: functional cache = C08.R1
    outs = c08.minimax_outcomes(ctx)
    sub = type(ctx)(ctx.prop, ctx.tier, ctx.facts, ctx.facts_info, ctx.seed)
    c08.r1_key(sub, outs)
    c08.r5_cache_primitives(sub)
    for s in sub.samples:
        ctx.ob('C09.R3-functional-cache', s['function'], s['instance'], s['ok'], found=s['found'], expected=s['expected'],
               why='with an influencer missing from the key two workers can store different values under one key and a third reads '
                   'whichever came first')
    # the key covers (position, depth, side, window); the value stored under it is a function of those only if nothing ELSE the leaf
    # evaluation reads changes along a line: inside the search the board is touched only through apply/undo/toggle_turn brackets
    # (= the C04.R4 rows for the functions of the search call graph) - a search that also registers positions makes leaf scores path dependent
    from . import c04, c07
    reach = ctx.facts.reachable_fns([c07.SEARCH] + [c.name for c in ctx.facts.closures_of(c07.SEARCH)])
    import_rules(ctx, 'C09.R3-functional-cache', [c04.r4_raw_mutators],
                 'a value cached for (position, depth, side, window) is reused by every worker: if the search itself changes state that the '
                 'leaf evaluation reads (repetition counts, clocks) outside apply/undo, one key holds several values and the first writer wins',
                 keep=lambda s: s['function'] in reach or 'floor' in s['instance'], floor=1)
    r4_lock_order(ctx)
    r5_selection(ctx)
