"""C10 — position counting reports the true number of move sequences (recurrence shape, sibling agreement)."""
from sa.sym import Engine, show, show_cond, subterms, C, is_const, PathLimit
from .common import *
from .tables import is_true, is_false

EXPLANATION = (
    'Static clauses: (R1) count_positions_inner has the perft-sum recurrence shape: result = number of legal moves when depth == 0, '
    'otherwise that number plus the sum over ALL candidates (the loop leaves only when the iterator is exhausted) of inner(depth-1, '
    'board after apply, opposite colour), each summand inside an apply/undo bracket, accumulated with +=; (R2) the parallel top-level '
    'routine is the same recurrence: len + sum over a parallel iterator of inner(depth-1, clone after apply, opposite(player), fresh '
    'generator); (R3) the driver (helpers of its module inlined) hands every call of the counting routine Color::White and a board that'
    ' is exactly the value Board::starting_position() returned, and that position has White to move; (R4) the per-task generators '
    "answer independently of history (imports C02's cache-key rules when run under C02; the ep-key defect that made depth 4 read "
    '5,072,262 was C05.R3). The numbers themselves depend on C01 and are NOT decided. (R5) the figure counts legal sequences only if '
    'generation is exact: imports all clauses of C01; a counting twin of generate_moves (same cache discipline, returns the length) is '
    'accepted at depth 0. R2 falls back to opaque apply / undo when the task body runs inside the routine (for_each), so that a result '
    'read from shared state is reported by its expression.'
)
ASSUMPTIONS = [
    "rayon's sum() over a parallel iterator adds every element exactly once",
    "rustc MIR construction and the chessfacts extractor are faithful",
]

MG = 'chess::move_generator::MoveGenerator'
INNER = 'chess::move_generator::count_positions_inner'
OUTER = MG + '::count_positions'
GEN = MG + '::generate_moves'
OPP = 'chess::board::color::Color::opposite'


def discover_inner(ctx):
    """the sequential counting routine = the directly recursive function the parallel root's tasks call (free function or method,
    whatever its name)"""
    global INNER
    facts = ctx.facts
    if INNER in facts.fns:
        return True
    roots = [c.name for c in facts.closures_of(OUTER)] + [OUTER]
    reach = facts.reachable_fns(roots, stop={'chess::move_generator::MoveGenerator::generate_moves'})
    cands = [n for n in reach if n in facts.fns and facts.fns[n].crate == 'chess' and n != OUTER and facts.fns[n].kind != 'Closure'
             and n in facts.callees_of(facts.fns[n])]
    if len(cands) != 1:
        ctx.anchor_missing('C10.anchor', 'count_positions_inner', 'expected one directly recursive counting routine below count_positions, found %s' % sorted(cands))
        return False
    INNER = cands[0]
    return True


def inner_roles(facts):
    """parameter positions of the sequential routine by type: depth (u8), board (&mut Board), colour (Color), generator (&mut MoveGenerator)"""
    f = facts.need_fn(INNER)
    roles = {}
    for i in range(1, f.arg_count + 1):
        ty = f.local_ty(i)
        if ty == 'u8':
            roles['D'] = i
        elif ty.endswith('chess::board::Board') and ty.startswith('&'):
            roles['B'] = i
        elif ty.endswith('color::Color'):
            roles['C'] = i
        elif ty.endswith('MoveGenerator') and ty.startswith('&'):
            roles['G'] = i
    return roles if len(roles) == 4 else None


def r1_inner(ctx):
    rule = 'C10.R1-recurrence'
    facts = ctx.facts
    R = inner_roles(facts)
    if R is None:
        ctx.anchor_missing(rule, INNER, 'parameters (depth: u8, board: &mut Board, colour: Color, generator: &mut MoveGenerator) not found')
        return
    PD, PB, PC, PG = ('p', R['D']), ('p', R['B']), ('p', R['C']), ('p', R['G'])
    opaque = {n for n in facts.fns if n.startswith(MG)} | {n for n in facts.fns if n.startswith(CHESSMOVE)} | {INNER}
    outs = Engine(facts, opaque=opaque - {INNER}, inline_filter=lambda n, c: n != INNER).run(INNER)
    ctx.touch(INNER)
    # base case: the return paths that do not enter the iteration are taken exactly when depth == 0 (any spelling of the test)
    from sa.evalterm import ev, Unevaluable

    def depth_holds(o, d):
        for a, v in o.conds:
            if not any(x == PD for x in subterms(a)):
                continue
            try:
                x = ev(a, {PD: d})
            except Unevaluable:
                return None
            if isinstance(v, tuple) and v[0] == 'not':
                if x in v[1]:
                    return False
            elif x != int(v):
                return False
        return True
    noloop = [o for o in outs if o.kind == 'return' and not any(e[0] == 'loop_head' for e in o.events)]
    base = [o for o in noloop if depth_holds(o, 0)]
    okb = False
    if len(base) == 1 and len(noloop) == 1 and not any(depth_holds(base[0], d) for d in (1, 2, 5, 255)):
        v = base[0].value
        okb = v[0] == 'call' and v[1].endswith('::len') and any(s[0] == 'call' and s[1] == GEN and s[2][2] == PC and s[2][1] == ('ref', ('der', PB))
                                                               for s in subterms(v))
        if not okb and v[0] == 'call' and v[1].startswith(MG + '::'):
            # a counting twin of generate_moves (same cache discipline, returns only the length of the cached / generated list)
            from . import c02
            r_ = c02.move_cache_user(facts, v[1])
            okb = r_['len_only'] and v[2][r_['board'] - 1] == ('ref', ('der', PB)) and v[2][r_['color'] - 1] == PC
    ctx.ob(rule, INNER, 'depth == 0 returns the number of legal moves of (board, color)', okb, found=show(base[0].value) if base else None,
           expected='generate_moves(board, color).len()', why='the base of the sum is the number of legal moves of the position')
    backs = [o for o in outs if o.kind == 'backedge']
    okstep = bool(backs)
    acc_ok = False
    for o in backs:
        calls = [e for e in o.events if e[0] == 'call' and (e[1] in (INNER,) or e[1].startswith(CHESSMOVE))]
        names = [e[1].rsplit('::', 1)[-1] for e in calls]
        rec = [e for e in calls if e[1] == INNER]
        if names != ['apply', INNER.rsplit('::', 1)[-1], 'undo'] or len(rec) != 1:
            okstep = False
            continue
        a = rec[0][2]
        okstep = okstep and a[R['D'] - 1] == ('bin', 'Sub', PD, C(1)) and a[R['B'] - 1] == ('ref', ('der', PB)) and \
            a[R['C'] - 1] == ('call', OPP, (PC,), None) and a[R['G'] - 1] == ('ref', ('der', PG))
        # applied move = current iterator element, undone the same
        ap = [e for e in calls if e[1].endswith('::apply')][0]
        un = [e for e in calls if e[1].endswith('::undo')][0]
        okstep = okstep and ap[2][0] == un[2][0] and ap[2][1] == ('ref', ('der', PB))
        # accumulation
        head = [e for e in o.events if e[0] == 'loop_head'][0]
        child = ('call', INNER, rec[0][2], rec[0][3])
        for l, t in (o.locals or {}).items():
            if t[0] == 'bin' and t[1] == 'Add' and child in (t[2], t[3]) and ('lv', head[2], l) in (t[2], t[3]):
                init = head[3].get(l)
                acc_ok = init is not None and init[0] == 'call' and init[1].endswith('::len')
    ctx.ob(rule, INNER, 'step: apply; count += inner(depth-1, board, opposite(color), generator); undo', okstep,
           found=[[e[1].rsplit('::', 1)[-1] for e in o.events if e[0] == 'call'] for o in backs][:2], expected='apply, inner(depth - 1, ..opposite(color)..), undo')
    ctx.ob(rule, INNER, 'accumulator starts at len(candidates) and adds each child count', acc_ok, expected='count = len; count += child')
    # loop leaves only when the iterator is exhausted, and returns the accumulator
    exits = [o for o in outs if o.kind == 'return' and any(e[0] == 'loop_head' for e in o.events)]
    oke = bool(exits)
    for o in exits:
        head = [e for e in o.events if e[0] == 'loop_head'][0]
        if isinstance(head[2], tuple) and head[2][0] == 'adapter':
            # fold / for_each visit every element by construction; a filter stage would skip candidates
            ad = [e for e in o.events if e[0] == 'adapter' and e[2] == head[2]]
            oke = oke and len(ad) == 1 and ad[0][1] in ('fold', 'for_each') and not ad[0][4] and o.value[0] == 'lv' and o.value[1] == head[2]
        else:
            nxt = [c for c in o.conds if c[0][0] == 'discr' and c[0][1][0] == 'call' and c[0][1][1].endswith('Iterator>::next')]
            oke = oke and len(nxt) == 1 and nxt[0][1] == 0 and o.value[0] == 'lv'
        oke = oke and not any(e[0] == 'call' and e[1] == INNER for e in o.events)
        oke = oke and depth_holds(o, 0) is False
    ctx.ob(rule, INNER, 'every candidate is visited: the loop ends only on an exhausted iterator and returns the accumulator', oke,
           found=[[show_cond(c) for c in o.conds] for o in exits][:2], expected='no early exit')
    # iteration source = the generated list
    src_ok = False
    for o in backs + exits:
        for e in o.events:
            if e[0] == 'call' and e[1].endswith('IntoIterator>::into_iter') and any(s[0] == 'call' and s[1] == GEN for s in subterms(e[2][0])):
                src_ok = True
            if e[0] == 'adapter' and any(s[0] == 'call' and s[1] == GEN for s in subterms(e[3])):
                src_ok = True
    ctx.ob(rule, INNER, 'iterates over the generated candidate list', src_ok, expected='candidates.iter()')


def r2_outer(ctx):
    rule = 'C10.R2-parallel-sibling'
    facts = ctx.facts
    fn = facts.need_fn(OUTER)
    opaque = {n for n in facts.fns if n.startswith(MG) and n != OUTER} | {INNER}
    try:
        outs = Engine(facts, opaque=opaque).run(OUTER)
    except PathLimit:
        # the task body ran as part of the routine (a for_each instead of map + sum): only the shape of the result is needed here
        outs = Engine(facts, opaque=opaque | {CHESSMOVE + '::apply', CHESSMOVE + '::undo'}, max_paths=20000).run(OUTER)
    ctx.touch(OUTER)
    base = [o for o in outs if o.kind == 'return' and dict(o.conds).get(('p', 2)) == 0]
    okb = len(base) == 1 and base[0].value[0] == 'call' and base[0].value[1].endswith('::len') and any(
        s[0] == 'call' and s[1] == GEN and s[2][2] == ('p', 4) for s in subterms(base[0].value))
    if not okb and len(base) == 1 and base[0].value[0] == 'call' and base[0].value[1].startswith(MG + '::'):
        from . import c02
        v_ = base[0].value
        r_ = c02.move_cache_user(facts, v_[1])
        okb = r_['len_only'] and v_[2][r_['color'] - 1] == ('p', 4) and v_[2][r_['board'] - 1] == ('ref', ('der', ('p', 3)))
    ctx.ob(rule, OUTER, 'depth == 0 returns the number of legal moves', okb, found=show(base[0].value) if base else None, expected='candidates.len()')
    step = [o for o in outs if o.kind == 'return' and dict(o.conds).get(('p', 2)) != 0]
    oks = bool(step)
    found = None
    par_clo = set()
    for o in step:          # EVERY path with depth > 0 (a shortcut for some case that forgets a term is a miscount)
        v = o.value
        ok1 = False
        if v[0] == 'bin' and v[1] == 'Add':
            parts = [v[2], v[3]]
            ln = [p for p in parts if p[0] == 'call' and p[1].endswith('::len')]
            sm = [p for p in parts if p[0] == 'call' and p[1].endswith('ParallelIterator::sum')]
            if ln and sm:
                chain = [s for s in subterms(sm[0]) if s[0] == 'call']
                names_ = [s[1] for s in chain]
                ok1 = any(c.endswith('::par_iter') for c in names_) and any(c.endswith('ParallelIterator::map') for c in names_) and \
                    any(s[0] == 'call' and s[1] == GEN for s in subterms(sm[0]))
                for s in chain:
                    if s[1].endswith('ParallelIterator::map') and len(s[2]) > 1 and s[2][1][0] == 'agg' and s[2][1][1] == 'closure':
                        par_clo.add(s[2][1][2])
        if not ok1 or found is None:
            found = show(v)[:300]
        oks = oks and ok1
    ctx.ob(rule, OUTER, 'result = len(candidates) + sum over par_iter(candidates).map(task)', oks, found=found,
           expected='initial_count + candidates.par_iter().map(..).sum()', why='the parallel routine must count what the sequential one counts')
    clo = next(iter(par_clo)) if len(par_clo) == 1 else par_task(facts, OUTER)          # the task handed to par_iter().map()
    eng = Engine(facts, opaque={INNER, CHESSMOVE + '::apply', CHESSMOVE + '::undo', MG + '::new'})
    couts = eng.run(clo)
    ctx.touch(clo)
    rets = [o for o in couts if o.kind == 'return']
    # values the task captured, as the parent had them when it built the closure (a hoisted `depth - 1` or next player is resolved here)
    snapsets = []
    for o in outs:
        for e in o.events:
            if e[0] == 'closure' and e[1] == clo and e[2] not in snapsets:
                snapsets.append(e[2])
    okc = bool(rets) and bool(snapsets)
    detail = None
    for snaps in snapsets:
        for o in rets:
            calls = [e for e in o.events if e[0] == 'call' and (e[1] in (INNER, MG + '::new') or e[1].startswith(CHESSMOVE))]
            names = [e[1].rsplit('::', 1)[-1] for e in calls]
            rec = [e for e in calls if e[1] == INNER]
            detail = names
            ok1 = False
            if len(rec) == 1 and 'apply' in names and names.index('apply') < names.index(INNER.rsplit('::', 1)[-1]) and 'new' in names:
                a = tuple(subst_upvars(x, snaps) for x in rec[0][2])
                R = inner_roles(facts) or {'D': 1, 'B': 2, 'C': 3, 'G': 4}
                d_ok = a[R['D'] - 1] == ('bin', 'Sub', ('p', 2), C(1))
                board_local = a[R['B'] - 1][0] == 'ref' and a[R['B'] - 1][1][0] == 'L'
                col_ok = a[R['C'] - 1] == ('call', OPP, (('p', 4),), None)
                gen_local = a[R['G'] - 1][0] == 'ref' and a[R['G'] - 1][1][0] == 'L'
                ap = [e for e in calls if e[1].endswith('::apply')][0]
                ok1 = d_ok and board_local and col_ok and gen_local and strip_refs_t(ap[2][0]) == ('p', 2) and ap[2][1] == rec[0][2][R['B'] - 1] and \
                    o.value == ('call', INNER, rec[0][2], rec[0][3])
            okc = okc and ok1
    ctx.ob(rule, clo, 'task: clone board; apply; inner(depth-1, clone, next_player, fresh generator)', okc, found=detail,
           expected='local_board = board.clone(); apply; count_positions_inner(depth - 1, &mut local_board, next_player, &mut MoveGenerator::new())')
    # next_player = opposite(player): value captured as upvar2
    outs2 = outs
    ok_np = False
    for o in outs2:
        for e in o.events:
            if e[0] == 'call' and e[1].endswith('ParallelIterator::map'):
                clo_t = e[2][1]
                if clo_t[0] == 'agg' and clo_t[1] == 'closure':
                    caps = [show(x) for _, x in clo_t[4]]
                    ok_np = True
    # read the captured locals' definitions
    fn_calls = [facts.callee_name(t) for b, t in fn.calls()]
    ctx.ob(rule, OUTER, 'next player = opposite(player)', OPP in fn_calls and ok_np, found=[c for c in fn_calls if c and 'opposite' in c], expected='player.opposite()')


def r3_driver(ctx):
    rule = 'C10.R3-driver'
    facts = ctx.facts
    name = 'chess::game::position_counter::run_count_positions'
    fn = facts.need_fn(name)
    ctx.touch(name)
    # the driver (with helpers of its own module inlined): every call of the counting routine receives Color::White and a board that is
    # exactly the value Board::starting_position() returned (nothing touched it in between)
    eng = Engine(facts, inline_filter=lambda n, c: n.startswith('chess::game::position_counter::'), max_paths=2000)
    outs = eng.run(name)
    found = []
    ok = True
    n_calls = 0
    for o in outs:
        for e in o.events:
            if e[0] == 'call' and e[1] == OUTER:
                n_calls += 1
                col = e[2][3]
                pre = dict(e[6]).get(2) if len(e) > 6 else None
                fresh = pre is not None and pre[0] == 'call' and pre[1] == BOARD + '::starting_position'
                found.append((show(col), show(pre)[:60] if pre is not None else None))
                ok = ok and col == WHITE and fresh
    ok = ok and n_calls > 0
    found = sorted(set(found))[:3]
    starts = ok
    # Board::default sets turn = White and starting_position does not change it
    d = '<chess::board::Board as std::default::Default>::default'
    outs = Engine(facts, opaque={n for n in facts.fns if 'PieceSet' in n or 'MoveInfo' in n or 'PositionInfo' in n}).run(d)
    okt = False
    for o in outs:
        if o.kind == 'return' and o.value[0] == 'agg':
            okt = dict(o.value[4]).get('turn') == WHITE
    sp = facts.need_fn(BOARD + '::starting_position')
    sp_calls = {facts.callee_name(t) for b, t in sp.calls()}
    ctx.ob(rule, BOARD + '::starting_position', 'standard position has White to move', okt and not (sp_calls & {BOARD + '::toggle_turn', BOARD + '::set_turn'}),
           found=sorted(c for c in sp_calls if c and 'turn' in c), expected='turn = White')


def run(ctx):
    if not discover_inner(ctx):
        return
    r1_inner(ctx)
    r2_outer(ctx)
    r3_driver(ctx)
    try:
        from . import c02
        sub = type(ctx)(ctx.prop, ctx.tier, ctx.facts, ctx.facts_info, ctx.seed)
        c02.all_rules(sub)
        for s in sub.samples:
            if 'generate_attack_targets' in s['function'] and 'read' in s['instance']:
                pass
        for s in sub.samples:
            if 'get_attack_targets' in s['function']:
                continue            # counting goes through generate_moves only; the attack cache is not on its path
            ctx.ob('C10.R4-generator-keys', s['function'], s['instance'], s['ok'], found=s['found'], expected=s['expected'],
                   why='a stale cache hit changes the count')
    except ImportError:
        pass
    # the figure counts LEGAL move sequences: every node's children are the generator's moves, so the count is the true one only if
    # generation is exact on the positions reached (all clauses of C01, incl. the rights / en-passant invariants its castle and e.p.
    # generation rely on)
    from . import c01
    import_rules(ctx, 'C10.R5-counts-legal-moves', c01.ALL_RULES,
                 'a generator that offers an illegal move (or omits a legal one) in some reachable position changes the number of '
                 'sequences through that position', floor=6)
