"""C11 — attack geometry tables."""
from sa.sym import mk_tuple, Engine, show, show_cond, subterms, C, is_const, PathLimit, field
from sa.evalterm import ev, Unevaluable, geom, KNIGHT, KING, ROOK_DIRS, BISHOP_DIRS, ray_attacks, relevant_mask, subsets
from .common import *
from .tables import is_true, is_false

EXPLANATION = (
    'Static clauses: (R1) the shift/mask term each leaper-table slot is built from (reconstructed from the MIR of the table generators)'
    ' denotes exactly the 8 knight / 8 king displacements on all 64 squares with exact edge behaviour (finite-domain evaluation of the '
    'extracted term against the geometric relation), slot i being built from square 1<<i; (R2) slider deltas are the 4 rook and 4 '
    'bishop directions in the engine and in the build-time generator, and both ray walkers (engine slider_moves, generator '
    'SlidingPiece::targets) are decided against the geometric relation: their step function (continue iff the current square is no '
    'blocker and the next square is on the board, then add the next square; start on the piece square, result accumulated from EMPTY) '
    'is read off the MIR and evaluated on all 64 squares x 8 directions x blocker configurations, with try_offset as an atom whose own '
    'meaning (bounds-checked (rank+dr, file+df)) is checked separately and term-equal in both crates; (R3) engine magic_index = '
    'generator magic_index + offset: ((blockers & mask) * magic) >> shift; (R4) the generator accepts a magic only when try_make_table '
    'returned Ok, which returns Err whenever a filled slot differs, with shift = 64 - bits, table length 1 << bits and offsets = '
    'running sum before the increment; (R5) lookups use the rook constants with the rook table and the bishop constants with the bishop'
    ' table, tables are filled from the same constants and deltas; (R6) the constants of THIS build are validated exhaustively: for all'
    ' 64 squares and all 102,400 + 5,248 relevant blocker subsets the index is in range, masks equal the relevant-occupancy masks and '
    'two subsets share a slot only if a reference ray walk gives them the same attack set; (R7) the fill loops of the engine '
    "(make_table) and of the generator's collision test (try_make_table) run their body once for every subset of the mask: loop-carried"
    ' blocker set, initial value, update term and continue/stop conditions are read off the MIR and the recurrence is evaluated for all'
    ' 128 masks of this build (2 x 107,648 steps); (R8) the lookups are made with the whole occupancy, rook / bishop / queen through '
    'the right tables, own pieces removed (imports C01.R5 arms, R9, R6). Other random draws are covered only through R2-R4 and R7. R2 '
    'accepts directions as (i8, i8) tuples or two-field structs and a step function taking two deltas or one pair; R4/R7 accept a '
    'fallible table builder returning Result or Option and a mask computed by the caller; the fill loop may live in a helper that only '
    'make_table / try_make_table call. R7 also reads the subset walk when it is spelled as a for loop over '
    'std::iter::successors(Some(first), step). (R9) no remembered attack sets besides the keyed caches (= C02.R4).'
)
ASSUMPTIONS = [
    "rustc const evaluation of the generated constants and the chessfacts extractor are faithful",
]

TGT = 'chess::move_generator::targets::'
MT = 'chess::move_generator::magic_table::'
PM = 'precompile::magic::find_magics::'


def r1_leapers(ctx):
    rule = 'C11.R1-leaper-tables'
    facts = ctx.facts
    for fname, deltas, piece in ((TGT + 'generate_knight_targets_table', KNIGHT, 'knight'), (TGT + 'generate_king_targets_table', KING, 'king')):
        outs = Engine(facts).run(fname)
        ctx.touch(fname)
        backs = [o for o in outs if o.kind == 'backedge']
        # the same table written as `std::array::from_fn(|i| <targets of square 1 << i>)`
        ff = [o for o in outs if o.kind == 'return' and o.value and o.value[0] == 'call' and o.value[1].endswith('array::from_fn')
              and o.value[2] and o.value[2][0][0] == 'agg' and o.value[2][0][1] == 'closure']
        if not backs and len(ff) == 1 and len([o for o in outs if o.kind == 'return']) == 1:
            cname = ff[0].value[2][0][2]
            couts = [o for o in Engine(facts).run(cname) if o.kind != 'abort']
            ctx.touch(cname)
            bad = []
            if len(couts) == 1 and couts[0].kind == 'return' and not couts[0].conds:
                term = couts[0].value
                try:
                    for i in range(64):
                        got = ev(term, {('p', 2): i})
                        want = geom(i, deltas)
                        if got != want:
                            bad.append((sq_name(1 << i), sorted(sq_name(1 << x) for x in range(64) if (got ^ want) >> x & 1)))
                except Unevaluable as e:
                    ctx.anchor_missing(rule, fname, 'term not evaluable: %s' % show(e.args[0])[:120])
                    continue
            else:
                bad.append('slot function is not a single expression of the index')
            ctx.ob(rule, fname, '%s targets of slot i = the %d on-board displacements of square 1<<i (64 squares)' % (piece, len(deltas)), not bad,
                   found={'differing squares (origin: symmetric difference)': bad[:4]}, expected='exact geometric relation, no wrap-around',
                   why='a missing or wrong wrap mask makes pieces jump across the board edge')
            continue
        if len(backs) != 1:
            ctx.anchor_missing(rule, fname, 'expected one loop iteration path, found %d' % len(backs))
            continue
        o = backs[0]
        ws = [e for e in o.events if e[0] == 'write']
        # the same table filled by an index loop: `for i in 0..64 { table[i] = <targets of square 1 << i> }` (slot function possibly a helper)
        upd = [(l, t_) for l, t_ in (o.locals or {}).items() if isinstance(t_, tuple) and t_[0] == 'upd' and t_[1] == 'idx' and t_[2][0] == 'lv' and t_[2][2] == l]
        rets_ = [x for x in outs if x.kind == 'return']
        if not ws and len(upd) == 1 and len(rets_) == 1 and rets_[0].value == upd[0][1][2]:
            l, t_ = upd[0]
            I, V = t_[3], t_[4]
            head = [e for e in o.events if e[0] == 'loop_head' and e[2] == t_[2][1]]
            rng = [v for v in (head[0][3].values() if head else []) if isinstance(v, tuple) and v[0] == 'call' and v[1].endswith('into_iter')
                   and v[2] and v[2][0][0] == 'agg' and str(v[2][0][2]).endswith('Range')]
            Is = strip_cast(I)
            from_range = Is[0] == 'fld' and Is[2] == 'Some.0' and Is[1][0] == 'call' and Is[1][1].endswith('::next')
            bounds_ok = False
            if len(rng) == 1:
                f_ = dict(rng[0][2][0][4])
                try:
                    lo_ = ev(f_['start'], {})
                    hi_t = f_['end']
                    hi_ = 64 if (hi_t[0] == 'call' and hi_t[1].endswith('::len') and '64' in show(hi_t)) else ev(hi_t, {})
                    bounds_ok = (lo_, hi_) == (0, 64)
                except (Unevaluable, KeyError):
                    bounds_ok = False
            bad = []
            try:
                for i in range(64):
                    got = ev(V, {Is: i, I: i})
                    want = geom(i, deltas)
                    if got != want:
                        bad.append((sq_name(1 << i), sorted(sq_name(1 << x) for x in range(64) if (got ^ want) >> x & 1)))
            except Unevaluable as e:
                ctx.anchor_missing(rule, fname, 'term not evaluable: %s' % show(e.args[0])[:120])
                continue
            ctx.ob(rule, fname, '%s targets of slot i = the %d on-board displacements of square 1<<i (64 squares)' % (piece, len(deltas)),
                   not bad and from_range and bounds_ok, found={'differing squares (origin: symmetric difference)': bad[:4], 'index runs over 0..64': bounds_ok and from_range},
                   expected='exact geometric relation, no wrap-around', why='a missing or wrong wrap mask makes pieces jump across the board edge')
            continue
        if not ws:
            ctx.anchor_missing(rule, fname, 'no table write in the loop body')
            continue
        final = ws[-1]
        slot = final[1]
        term = final[2]
        # leaves: the enumerate item (index, &mut element)
        items = [s for s in subterms(term) if s[0] == 'fld' and s[2] == '0' and s[1][0] == 'fld' and s[1][2] == 'Some.0' and s[1][1][0] == 'call'
                 and s[1][1][1].endswith('Iterator>::next')]
        if not items:
            ctx.anchor_missing(rule, fname, 'slot index not found in the written term')
            continue
        idx = items[0]
        item = idx[1]
        elem = ('fld', ('der', ('fld', item, '1')), '0')
        # slot written is the element of the same item
        slot_ok = slot in (elem, elem[1])
        src = [e for e in o.events if e[0] == 'call' and e[1] == 'std::iter::Iterator::enumerate']
        bad = []
        try:
            for i in range(64):
                got = ev(term, {idx: i, elem: 0})
                want = geom(i, deltas)
                if got != want:
                    bad.append((sq_name(1 << i), sorted(sq_name(1 << x) for x in range(64) if (got ^ want) >> x & 1)))
        except Unevaluable as e:
            ctx.anchor_missing(rule, fname, 'term not evaluable: %s' % show(e.args[0])[:120])
            continue
        ctx.ob(rule, fname, '%s targets of slot i = the %d on-board displacements of square 1<<i (64 squares)' % (piece, len(deltas)),
               not bad and slot_ok and bool(src), found={'differing squares (origin: symmetric difference)': bad[:4], 'slot is the enumerated element': slot_ok},
               expected='exact geometric relation, no wrap-around', why='a missing or wrong wrap mask makes pieces jump across the board edge')
    # lookup wiring
    name = TGT + 'Targets::get_precomputed_targets'
    outs = Engine(facts).run(name)
    ctx.touch(name)
    pd = {v['discr']: v['name'] for v in facts.adts[PIECE_ADT]['variants']}
    wiring = {}
    for o in outs:
        if o.kind != 'return':
            continue
        d = dict(o.conds).get(('discr', ('p', 3)))
        v = o.value
        if v[0] == 'idx':
            fld = [s[2] for s in subterms(v[1]) if s[0] == 'fld' and s[2] in ('knights', 'kings')]
            i_ok = strip_cast(v[2]) == ('call', 'trailing_zeros', (('fld', ('p', 2), '0'),), None)
            wiring[pd.get(d)] = (fld[0] if fld else None, i_ok)
    ctx.ob(rule, name, 'Knight -> knights[tz(square)], King -> kings[tz(square)]', wiring == {'Knight': ('knights', True), 'King': ('kings', True)},
           found=wiring, expected={'Knight': ('knights', True), 'King': ('kings', True)})
    d = '<' + TGT + 'Targets as std::default::Default>::default'
    fn = facts.fns.get(d)
    if fn is not None:
        outs = Engine(facts, opaque={TGT + 'generate_king_targets_table', TGT + 'generate_knight_targets_table', MT + 'MagicTable::new'}).run(d)
        ok = False
        for o in outs:
            if o.kind == 'return' and o.value[0] == 'agg':
                f = dict(o.value[4])
                ok = f.get('kings', ('x',))[0] == 'call' and f['kings'][1].endswith('generate_king_targets_table') and \
                    f.get('knights', ('x',))[0] == 'call' and f['knights'][1].endswith('generate_knight_targets_table')
        ctx.ob(rule, d, 'kings/knights fields are filled from their own generators', ok, expected='kings: king table, knights: knight table')


def strip_cast(t):
    while t[0] == 'cast':
        t = t[1]
    return t


def tuple_list(v):
    """('array', (('tuple', (a, b)), ...)) -> [(a, b)]"""
    if isinstance(v, tuple) and v[0] == 'array':
        return [tuple(x[1]) for x in v[1] if isinstance(x, tuple) and x[0] == 'tuple']
    return None


def norm_outcomes(outs, rename):
    """canonical string form of a function's outcome set, for sibling comparison"""
    res = set()
    for o in outs:
        if o.kind not in ('return', 'backedge'):
            continue
        s = '%s %s | %s' % (o.kind, show(o.value) if o.value else '', ' & '.join(sorted(show_cond(c) for c in o.conds)))
        for a, b in rename:
            s = s.replace(a, b)
        import re
        s = re.sub(r'#\d+', '#', s)
        s = re.sub(r'@\d+', '@', s)
        s = re.sub(r'local\(\d+:(\d+)\)', r'local(\1)', s)
        res.add(s)
    return res


def r2_deltas(ctx):
    rule = 'C11.R2-slider-deltas'
    facts = ctx.facts
    # engine: constants passed to make_table in MagicTable::default
    d = '<' + MT + 'MagicTable as std::default::Default>::default'
    outs = Engine(facts, opaque={MT + 'make_table'}).run(d)
    ctx.touch(d)
    found = {}
    wiring = {}
    for o in outs:
        calls = [e for e in o.events if e[0] == 'call' and e[1] == MT + 'make_table']
        for e in calls:
            size, deltas, magics = e[2]
            dl = deltas
            for _ in range(6):
                if dl[0] == 'ref' and dl[1][0] == 'K':
                    dl = dl[1][1]
                elif dl[0] in ('der', 'K'):
                    dl = dl[1]
                elif dl[0] == 'named':
                    from sa.sym import NAMED_CONSTS as _NC
                    dl = _NC.get(dl[1], ('unk',))
                else:
                    break
            vals = []
            if dl[0] == 'agg':
                for _, x in dl[4]:
                    # a direction is a pair of small integers: a tuple or a two-field struct
                    if x[0] == 'agg' and x[1] in ('tuple', 'adt') and len(x[4]) == 2 and all(is_const(y) for _, y in x[4]):
                        vals.append(tuple(y[1] for _, y in x[4]))
            sz = show(size)
            key = 'rook' if 'ROOK' in sz else ('bishop' if 'BISHOP' in sz else sz)
            found[key] = sorted(vals)
            wiring[key] = (show(size), show(magics))
        if o.kind == 'return' and o.value[0] == 'agg':
            f = dict(o.value[4])
            for fld in ('rook_table', 'bishop_table'):
                t = f.get(fld)
                if t is not None and t[0] == 'call':
                    wiring[fld] = show(t[2][0])
    want = {'rook': sorted(ROOK_DIRS), 'bishop': sorted(BISHOP_DIRS)}
    # named constants ROOK_TABLE_SIZE etc. are folded to their values; identify by value
    consts = facts.consts
    rs, bs = consts.get(MT + 'ROOK_TABLE_SIZE'), consts.get(MT + 'BISHOP_TABLE_SIZE')
    remap = {}
    for k, v in found.items():
        if k == str(rs) or k == hex(rs):
            remap['rook'] = v
        elif k == str(bs) or k == hex(bs):
            remap['bishop'] = v
        else:
            remap[k] = v
    ctx.ob(rule, d, 'engine deltas: rook = 4 orthogonal, bishop = 4 diagonal unit steps', remap == want, found=remap, expected=want,
           why='a wrong direction set makes sliders attack along the wrong lines')
    # generator constants
    for nm, dirs in (('ROOK', ROOK_DIRS), ('BISHOP', BISHOP_DIRS)):
        v = consts.get(PM + nm)
        got = None
        if isinstance(v, tuple) and v[0] == 'adt':
            got = tuple_list(dict(v[3]).get('move_offsets'))
        ctx.ob(rule, PM + nm, 'generator deltas of %s' % nm, got is not None and sorted(got) == sorted(dirs), found=got, expected=sorted(dirs))
    # the one-step function of each walker, found by its signature (Bitboard, i8, i8) -> Option<Bitboard> in the walker's module,
    # tabulated by partial evaluation on 64 squares x 9 steps against the code's own rank/file numbering
    SQ_ = 'common::bitboard::square::'
    rf = {}
    for i in range(64):
        o1 = [o for o in Engine(facts).run(SQ_ + 'to_rank_file', args=[bb(1 << i)]) if o.kind == 'return']
        if len(o1) == 1 and o1[0].value[0] == 'agg' and all(is_const(x) for _, x in o1[0].value[4]):
            rf[i] = tuple(x[1] for _, x in o1[0].value[4])
    inv = {v: k for k, v in rf.items()}
    ctx.ob(rule, SQ_ + 'to_rank_file', 'rank/file numbering is a bijection of the 64 squares onto 0..8 x 0..8', len(rf) == 64 and len(inv) == 64 and
           set(inv) == {(r_, f_) for r_ in range(8) for f_ in range(8)}, found=len(inv), expected=64, nontrivial=False)

    BBT = 'common::bitboard::bitboard::Bitboard'

    def pair_arg(f, i_):
        """constructor of the i-th argument from (a, b) when that parameter is a pair of i8: a tuple or a struct with exactly two i8 fields"""
        ty = f.local_ty(i_)
        if ty.replace(' ', '') == '(i8,i8)':
            return lambda a, b: mk_tuple(C(a), C(b))
        adt = facts.adts.get(ty)
        if adt is not None and adt['kind'] == 'struct' and [fd['ty'] for fd in adt['variants'][0]['fields']] == ['i8', 'i8']:
            v0 = adt['variants'][0]
            names_ = [fd['name'] for fd in v0['fields']]
            return lambda a, b: ('agg', 'adt', ty, v0['name'], ((names_[0], C(a)), (names_[1], C(b))))
        return None

    def step_fn(prefix):
        c = []
        for n, f in facts.fns.items():
            if not (n.startswith(prefix) and f.kind != 'Closure' and n.count('::') == prefix.count('::')):
                continue
            if f.local_ty(0) != 'std::option::Option<%s>' % BBT or f.arg_count < 2 or f.local_ty(1) != BBT:
                continue
            if f.arg_count == 3 and f.local_ty(2) == 'i8' and f.local_ty(3) == 'i8':
                c.append((n, lambda a, b: [C(a), C(b)]))
            elif f.arg_count == 2 and pair_arg(f, 2) is not None:
                mk = pair_arg(f, 2)
                c.append((n, lambda a, b, mk=mk: [mk(a, b)]))
        return c[0] if len(c) == 1 else None
    tries = {}
    for side, prefix in (('engine', MT), ('generator', PM)):
        sf = step_fn(prefix)
        tn = sf[0] if sf else None
        tries[side] = tn
        if tn is None:
            ctx.anchor_missing(rule, prefix + 'try_offset', 'expected one step function (Bitboard, <pair of i8>) -> Option<Bitboard>')
            continue
        ctx.touch(tn)
        bad = []
        for i in range(64):
            for dr in (-1, 0, 1):
                for df in (-1, 0, 1):
                    outs1 = [o for o in Engine(facts).run(tn, args=[bb(1 << i)] + sf[1](dr, df)) if o.kind != 'abort']
                    r_, f_ = rf.get(i, (None, None))
                    want = inv.get((r_ + dr, f_ + df)) if r_ is not None else None
                    got = '?'
                    if len(outs1) == 1 and outs1[0].kind == 'return' and outs1[0].value[0] == 'agg':
                        v = outs1[0].value
                        if v[3] == 'None':
                            got = None
                        elif v[3] == 'Some':
                            b_ = bb_of(dict(v[4])['0'])
                            got = (b_.bit_length() - 1) if (b_ and b_ & (b_ - 1) == 0) else '?'
                    if got != want:
                        bad.append((sq_name(1 << i), (dr, df), got if got in (None, '?') else sq_name(1 << got)))
        ctx.ob(rule, tn, 'Some(from_rank_file(rank+dr, file+df)) iff both stay within 0..8', not bad, found=bad[:4], expected='bounds-checked step (64 squares x 9 steps)',
               why='a step that wraps around the edge (or refuses an on-board square) makes every ray through that edge wrong')
    n1 = ray_walker(ctx, rule, MT + 'slider_moves', tries.get('engine') or MT + 'try_offset', 2, 3,
                    lambda el: any(x == ('p', 1) for x in subterms(el)))
    n2 = ray_walker(ctx, rule, PM + 'SlidingPiece::targets', tries.get('generator') or PM + 'try_offset', 2, 3,
                    lambda el: any(x[0] == 'fld' and x[2] == 'move_offsets' for x in subterms(el)))
    ctx.floor(rule, 'ray-step cases evaluated', (n1 or 0) + (n2 or 0), 2 * 64 * 8 * 8)


def _cond_holds(cs, env):
    """True / False / None(not evaluable) for a conjunction of path conditions under env"""
    for a, v in cs:
        try:
            x = env[a] if a in env else ev(a, env)
        except Unevaluable:
            return None
        if isinstance(v, tuple) and v[0] == 'not':
            if x in v[1]:
                return False
        elif x != int(v):
            return False
    return True


def ray_walker(ctx, rule, name, try_name, sq_param, bl_param, deltas_ok, single=None):
    """Decide the slider ray walk of `name` against the geometric relation.

    Per direction the walk starts on the piece's square; it continues from a ray square r iff r is not a blocker and the step stays
    on the board, then moves to the next square and adds it to the result; otherwise it leaves the result unchanged.  The step
    function is read off the MIR (inner loop: conditions and updated values of `ray` and `moves`), with try_offset as an atom
    whose meaning is decided separately, and evaluated for all 64 squares x 8 directions x blocker / no blocker."""
    facts = ctx.facts
    ro = {'common::bitboard::square::to_rank_file', 'common::bitboard::square::from_rank_file', try_name}
    outs = Engine(facts, readonly=ro).run(name)
    ctx.touch(name)
    tries = {s_ for o in outs for c in o.conds for s_ in subterms(c[0]) if s_[0] == 'call' and s_[1] == try_name}
    tries |= {s_ for o in outs for t_ in (o.locals or {}).values() for s_ in subterms(t_) if s_[0] == 'call' and s_[1] == try_name}
    if not tries and single is None:
        # decomposed form: the per-direction walk lives in a helper H(square, blockers, d_rank, d_file) whose result is OR-ed into the
        # accumulator, over all directions of the list (loop or fold)
        crate_prefix = name.split('::')[0] + '::'
        helper_calls = {}
        for o in outs:
            for e in o.events:
                if e[0] == 'call' and e[1].startswith(crate_prefix) and e[1] in facts.fns and any(strip_cast(a) == ('p', sq_param) for a in e[2]) \
                        and any(strip_cast(a) == ('p', bl_param) for a in e[2]):
                    helper_calls.setdefault(e[1], e)
        if len(helper_calls) == 1:
            hname, he = next(iter(helper_calls.items()))
            ha = [strip_cast(a) for a in he[2]]
            sqi, bli = ha.index(('p', sq_param)) + 1, ha.index(('p', bl_param)) + 1
            dirs = [k + 1 for k, a in enumerate(he[2]) if k + 1 not in (sqi, bli)]
            def el_of2(t_):
                t_ = strip_cast(t_)
                while t_[0] in ('ref', 'der'):
                    t_ = t_[1]
                return (t_[1], t_[2]) if t_[0] == 'fld' else (None, None)
            els = [el_of2(he[2][k - 1]) for k in dirs]
            ctx.ob(rule, name, 'step direction = (d_rank, d_file) of one element of the direction list',
                   len(dirs) == 2 and els[0][0] is not None and els[0][0] == els[1][0] and (els[0][1], els[1][1]) == ('0', '1'),
                   found=[show(he[2][k - 1]) for k in dirs], expected='helper(square, blockers, d_rank, d_file)')
            # accumulation: every iteration ORs the helper's result into the accumulator, which starts EMPTY and is the result
            hcall = ('call', he[1], he[2], he[3])
            backs = [o for o in outs if o.kind == 'backedge']
            acc_ok = bool(backs)
            for o in backs:
                head = [e for e in o.events if e[0] == 'loop_head'][-1]
                hit = False
                for l, t_ in (o.locals or {}).items():
                    core = t_
                    while core[0] == 'agg' and core[1] == 'adt' and len(core[4]) == 1:
                        core = core[4][0][1]
                    if core[0] == 'upd':
                        core = core[4]
                    if core[0] == 'bin' and core[1] == 'BitOr' and any(x == hcall for x in subterms(core)) and any(x == ('lv', head[2], l) for x in subterms(core)):
                        init = head[3].get(l)
                        try:
                            hit = init is not None and ev(init, {}) == 0
                        except Unevaluable:
                            hit = False
                acc_ok = acc_ok and hit
            rets = [o for o in outs if o.kind == 'return']
            res_ok = len(rets) == 1 and rets[0].value is not None and rets[0].value[0] == 'lv'
            ctx.ob(rule, name, 'result = the accumulated set, starting from EMPTY', acc_ok and res_ok, found=show(rets[0].value) if rets else None)
            srcs = [x for o in outs for x in iteration_sources(o)]
            ctx.ob(rule, name, 'directions iterated = the direction list handed in', bool(srcs) and all(deltas_ok(x[1]) and not x[2] for x in srcs),
                   found=[show(x[1])[:120] for x in srcs][:2])
            return ray_walker(ctx, rule, hname, try_name, sqi, bli, deltas_ok, single=(dirs[0], dirs[1]))
    if len(tries) != 1:
        ctx.ob(rule, name, 'one step call per ray iteration', False, found=[show(t_) for t_ in tries])
        return
    T = next(iter(tries))
    ray = T[2][0]
    while ray[0] in ('ref', 'der'):
        ray = ray[1]
    if ray[0] != 'lv':
        ctx.ob(rule, name, 'the step starts from the loop-carried ray square', False, found=show(ray))
        return
    Hin, lray = ray[1], ray[2]
    # direction arguments: (.0, .1) of one element of the direction list
    def el_of(t_):
        t_ = strip_cast(t_)
        while t_[0] in ('ref', 'der'):
            t_ = t_[1]
        return (t_[1], t_[2]) if t_[0] == 'fld' else (None, None)
    if len(T[2]) == 2:
        # the step takes the direction as one value: it must be the element of the direction list the outer iteration is at
        dterm = strip_cast(T[2][1])
        while dterm[0] in ('ref', 'der', 'K'):
            dterm = dterm[1]
        if single is None:
            ctx.ob(rule, name, 'step direction = one element of the direction list', is_iteration_element(dterm), found=[show(T[2][1])],
                   expected='try_offset(ray, delta) with delta the current element of the list')
        else:
            ctx.ob(rule, name, 'the helper steps in the direction it was given', dterm == ('p', single[0]), found=[show(T[2][1])])
    else:
        e1, f1 = el_of(T[2][1])
        e2, f2 = el_of(T[2][2])
        if single is None:
            ctx.ob(rule, name, 'step direction = (d_rank, d_file) of one element of the direction list', e1 is not None and e1 == e2 and (f1, f2) == ('0', '1'),
                   found=[show(T[2][1]), show(T[2][2])], expected='try_offset(ray, d_rank, d_file)')
        else:
            ctx.ob(rule, name, 'the helper steps in the direction it was given', (strip_cast(T[2][1]), strip_cast(T[2][2])) == (('p', single[0]), ('p', single[1])),
                   found=[show(T[2][1]), show(T[2][2])], expected='try_offset(ray, d_rank, d_file)')
    heads = {}
    for o in outs:
        for e in o.events:
            if e[0] == 'loop_head':
                heads[e[2]] = e[3]
    outer = [h for h in heads if h != Hin]
    if len(outer) != (0 if single is not None else 1):
        ctx.ob(rule, name, 'two nested loops (directions, ray)' if single is None else 'one loop (ray)', False, found=[str(h) for h in heads])
        return
    Hout = outer[0] if outer else Hin
    if single is None:
        src = [v for v in heads[Hout].values() if isinstance(v, tuple) and v[0] == 'call' and v[1].endswith('into_iter')]
        ctx.ob(rule, name, 'directions iterated = the direction list handed in', len(src) == 1 and deltas_ok(src[0]), found=[show(v) for v in src])
    # moves: the loop-carried local returned at the end
    rets = [o for o in outs if o.kind == 'return']
    mv = rets[0].value if rets and all(o.value == rets[0].value for o in rets) else None
    okm = mv is not None and mv[0] == 'lv' and mv[1] == Hout
    lm = mv[2] if okm else None
    init_m = heads[Hout].get(lm) if okm else None
    try:
        init0 = okm and ev(init_m, {}) == 0
    except Unevaluable:
        init0 = False
    ctx.ob(rule, name, 'result = the accumulated set, starting from EMPTY', bool(okm and init0), found=show(mv) if mv else None)
    if not okm:
        return
    pre = heads[Hin]
    start_ok = pre.get(lray) == ('p', sq_param) and (pre.get(lm) == ('lv', Hout, lm) if single is None else True)
    ctx.ob(rule, name, 'each direction starts on the piece square and keeps the squares found so far', start_ok,
           found={'ray': show(pre.get(lray)) if lray in pre else None, 'moves': show(pre.get(lm)) if lm in pre else None})
    through = [o for o in outs if any(e[0] == 'loop_head' and e[2] == Hin for e in o.events) and o.kind in ('backedge', 'return')]
    cont = [o for o in through if o.kind == 'backedge' and o.where[1] == Hin]
    leave = [o for o in through if not (o.kind == 'backedge' and o.where[1] == Hin)]
    lvr, lvm = ('lv', Hin, lray), ('lv', Hin, lm)
    dT = ('discr', T)
    nxt = ('fld', T, 'Some.0')
    bad = []
    cases = 0
    DIRS8 = ROOK_DIRS + BISHOP_DIRS
    for r in range(64):
        rk, fl = geom_rank_file(r)
        for dr, df in DIRS8:
            nr, nf = rk + dr, fl + df
            on = 0 <= nr < 8 and 0 <= nf < 8
            nb = geom_bit(nr, nf) if on else 0
            for inb in (0, 1):
                for others in (0, ((1 << 64) - 1) & ~(1 << r) & ~nb, nb, ((1 << 64) - 1) & ~(1 << r)):
                    cases += 1
                    M0 = 0x0000100000000000 if r != 44 else 0x2
                    env = {lvr: 1 << r, ('p', bl_param): ((1 << r) if inb else 0) | others, lvm: M0, dT: 1 if on else 0, nxt: nb}
                    c = [o for o in cont if _cond_holds([x for x in o.conds if _evaluable(x, env)], env)]
                    l_ = [o for o in leave if _cond_holds([x for x in o.conds if _evaluable(x, env)], env)]
                    want_cont = (not inb) and on
                    if want_cont:
                        if len(c) != 1 or l_:
                            bad.append((sq_name(1 << r), (dr, df), 'blocker' if inb else 'free', 'should continue'))
                            continue
                        try:
                            r2 = ev(c[0].locals[lray], env)
                            m2 = ev(c[0].locals[lm], env)
                        except Unevaluable:
                            bad.append((sq_name(1 << r), (dr, df), 'update not evaluable'))
                            continue
                        if r2 != nb or m2 != (M0 | nb):
                            bad.append((sq_name(1 << r), (dr, df), 'ray/moves update', hex(r2), hex(m2)))
                    else:
                        if c or not l_:
                            bad.append((sq_name(1 << r), (dr, df), 'blocker' if inb else 'free', 'on board' if on else 'edge', 'should stop'))
                            continue
                        for o in l_:
                            try:
                                m2 = ev(o.locals[lm], env) if o.locals and lm in o.locals else None
                            except Unevaluable:
                                m2 = None
                            if m2 != M0:
                                bad.append((sq_name(1 << r), (dr, df), 'result changed on the stopping path'))
    ctx.ob(rule, name, 'ray step: continue iff the current square is no blocker and the next square is on the board; then add the next square', not bad,
           found=bad[:4] or '%d step cases' % cases, expected='walk up to and including the first blocker or the edge',
           why='the tables are filled with (and the magics validated against) this walk: it must be the attack set of a slider')
    return cases


def _evaluable(c, env):
    try:
        if c[0] in env:
            return True
        ev(c[0], env)
        return True
    except Unevaluable:
        return False


def geom_rank_file(i):
    """(rank, file) with this code base's square numbering: bit i, file index 7 - (i % 8) is handled by to_rank_file itself; the
    walker only sees try_offset as an atom, so any consistent numbering works: use rank = i // 8, file = i % 8"""
    return i // 8, i % 8


def geom_bit(rank, file):
    return 1 << (rank * 8 + file)


def index_form(t):
    """Canonical shape of a magic index expression and what it is built from.

    Returns (shape, entries, blockers): shape is a nested tuple over the symbols MASK, MAGIC, SHIFT, OFFSET (fields of a MagicEntry
    term) and B (the blocker operand), with casts and Bitboard wrappers removed and the operands of commutative operators sorted;
    entries = the distinct MagicEntry terms the fields are read from; blockers = the distinct non-entry leaves."""
    entries, blockers = set(), set()

    def unwrap(x):
        while True:
            if x[0] == 'cast':
                x = x[1]
            elif x[0] in ('ref', 'der') :
                x = x[1]
            elif x[0] == 'fld' and x[2] == '0' and x[1][0] == 'agg' and x[1][1] == 'adt' and len(x[1][4]) == 1:
                x = x[1][4][0][1]
            elif x[0] == 'agg' and x[1] == 'adt' and len(x[4]) == 1 and x[2].endswith('Bitboard'):
                x = x[4][0][1]
            else:
                return x

    def rec(x):
        x = unwrap(x)
        if x[0] == 'fld' and x[2] in ('mask', 'magic', 'shift', 'offset'):
            entries.add(unwrap(x[1]))
            return x[2].upper()
        if x[0] == 'fld' and x[2] == '0':
            inner = unwrap(x[1])
            if inner[0] == 'fld' and inner[2] == 'mask':
                entries.add(unwrap(inner[1]))
                return 'MASK'
            blockers.add(inner)
            return 'B'
        if x[0] == 'bin':
            op = {'WMul': 'Mul', 'WAdd': 'Add'}.get(x[1], x[1])
            a, b = rec(x[2]), rec(x[3])
            if op in ('Mul', 'Add', 'BitAnd', 'BitOr', 'BitXor'):
                a, b = sorted((a, b), key=repr)
            return (op, a, b)
        if x[0] == 'c':
            return ('c', x[1])
        blockers.add(x)
        return 'B'
    return rec(t), entries, blockers


CORE_SHAPE = ('Shr', ('Mul', ('BitAnd', 'B', 'MASK'), 'MAGIC'), 'SHIFT')
CORE_SHAPE = ('Shr', tuple(['Mul'] + sorted([('BitAnd',) + tuple(sorted(['B', 'MASK'], key=repr)), 'MAGIC'], key=repr)), 'SHIFT')
FULL_SHAPE = tuple(['Add'] + sorted([CORE_SHAPE, 'OFFSET'], key=repr))


def table_index_terms(o, table_pred, writes_only=False):
    """index terms of every read / write of a lookup table on path o: Index::index / IndexMut::index_mut calls and idx projections"""
    res = []
    for e in o.events:
        if e[0] == 'call' and ((e[1].endswith('Index<I>>::index') and not writes_only) or e[1].endswith('IndexMut<I>>::index_mut')) and table_pred(e[2][0]):
            res.append(e[2][1])
        if e[0] == 'write' and writes_only:
            lv = e[1]
            while lv[0] in ('der', 'fld', 'ref'):
                lv = lv[1]
            if lv[0] == 'idx' and table_pred(lv[1]):
                res.append(lv[2])
    if writes_only:
        return [x for i_, x in enumerate(res) if x not in res[:i_]]
    for t in ([o.value] if o.value else []) + [c[0] for c in o.conds]:
        for s_ in subterms(t):
            if s_[0] == 'call' and (s_[1].endswith('Index<I>>::index') or s_[1].endswith('IndexMut<I>>::index_mut')) and table_pred(s_[2][0]):
                res.append(s_[2][1])
            if s_[0] == 'idx' and table_pred(s_[1]):
                res.append(s_[2])
    uniq = []
    for x in res:
        if x not in uniq:
            uniq.append(x)
    return uniq


def fill_site(facts, root, opaque):
    """the function that holds the table-fill loop: `root` itself, or - when the per-square loop was split out - the one private helper that
    only `root` calls and that writes a table slot indexed through a magic entry"""
    def has_write(nm):
        try:
            outs = Engine(facts, opaque=opaque, max_paths=4000).run(nm)
        except PathLimit:
            return False
        for o in outs:
            for it in table_index_terms(o, lambda t_: True, writes_only=True):
                if index_form(it)[1]:
                    return True
        return False
    if has_write(root):
        return root
    helpers = [h for h in sorted(facts.only_through({root})) if h != root and facts.fns[h].kind != 'Closure' and has_write(h)]
    return helpers[0] if len(helpers) == 1 else root


def r3_index(ctx):
    """writer (engine make_table), reader (get_*_targets, checked in R5) and generator (try_make_table) compute the same slot:
    offset + (((blockers & mask) * magic) >> shift), the generator without the offset.  The expressions are taken where the tables
    are indexed, with whatever helper computes them inlined, and compared in canonical form."""
    rule = 'C11.R3-index-agreement'
    facts = ctx.facts
    is_local_table = lambda t: True
    for name, want, what, opq in ((MT + 'make_table', FULL_SHAPE, 'offset + (((blockers & mask) * magic) >> shift)', {MT + 'slider_moves'}),
                                  (PM + 'try_make_table', CORE_SHAPE, '((blockers & mask) * magic) >> shift', {PM + 'SlidingPiece::targets'})):
        name = fill_site(facts, name, opq)
        try:
            outs = Engine(facts, opaque=opq, max_paths=4000).run(name)
        except PathLimit:
            ctx.anchor_missing(rule, name, 'path limit')
            continue
        ctx.touch(name)
        shapes = set()
        for o in outs:
            for it in table_index_terms(o, is_local_table, writes_only=True):
                shapes.add(index_form(it)[0])
        ctx.ob(rule, name, what, shapes == {want}, found=[repr(x)[:200] for x in shapes], expected=repr(want),
               why='writer and reader of the tables must compute the same slot')


def is_fail(v):
    """the failure value of a fallible helper: Err(..) of a Result, None of an Option"""
    return is_err_result(v) or (v is not None and v[0] == 'agg' and v[3] == 'None' and 'Option' in str(v[2]))


def is_succ(v):
    return is_ok_result(v) or (v is not None and v[0] == 'agg' and v[3] == 'Some' and 'Option' in str(v[2]))


def r4_acceptance(ctx):
    rule = 'C11.R4-generator-acceptance'
    facts = ctx.facts
    name = PM + 'find_magic'
    outs = Engine(facts, opaque={PM + 'try_make_table', PM + 'SlidingPiece::relevant_blockers', 'precompile::random_number_generator::generate_random_u64'}).run(name)
    ctx.touch(name)
    rets = [o for o in outs if o.kind == 'return']
    ok = bool(rets)
    tmt = facts.need_fn(PM + 'try_make_table')
    success = 1 if tmt.local_ty(0).startswith('std::option::Option<') else 0          # Some(table) resp. Ok(table)
    mask_param = None
    for o in rets:
        t = [c for c in o.conds if c[0][0] == 'discr' and c[0][1][0] == 'call' and c[0][1][1] == PM + 'try_make_table']
        ok = ok and len(t) == 1 and t[0][1] == success
        v = o.value
        if ok and v[0] == 'agg':
            entry = v[4][0][1]
            f = dict(entry[4]) if entry[0] == 'agg' else {}
            # shift = 64 - number of relevant blocker squares: the bit count either computed here from the mask or handed in
            sh = f.get('shift')
            shift_ok = False
            bits_param = None
            if sh is not None and sh[0] == 'bin' and sh[1] == 'Sub' and sh[2] == C(64):
                x = strip_cast(sh[3])
                if x[0] == 'p':
                    bits_param = x[1]
                    shift_ok = True
                elif x[0] == 'call' and x[1].endswith('count_ones') and strip_cast(x[2][0]) in (f.get('mask'), ('fld', f.get('mask'), '0')):
                    shift_ok = True
            mask_ok = f.get('mask', ('x',))[0] == 'call' and f['mask'][1].endswith('relevant_blockers')
            if not mask_ok and f.get('mask', ('x',))[0] == 'p':
                mask_param = f['mask'][1]                  # computed by the caller and handed in (checked at the call below)
                mask_ok = True
            call = t[0][0][1]
            same_entry = True
            ok = ok and shift_ok and mask_ok
    if ok and (bits_param is not None or mask_param is not None):
        # the caller must hand in popcount(relevant_blockers(square)) for the same piece and square
        cname = PM + 'find_and_write_magics'
        couts = Engine(facts, opaque={PM + 'find_magic', PM + 'SlidingPiece::relevant_blockers'}, max_paths=3000).run(cname)
        args_ok, n_calls = True, 0
        for o in couts:
            for e in o.events:
                if e[0] == 'call' and e[1] == name:
                    n_calls += 1
                    a = e[2]
                    good = True
                    if bits_param is not None:
                        b = strip_cast(a[bits_param - 1])
                        good = b[0] == 'call' and b[1].endswith('count_ones')
                        if good:
                            m_ = strip_cast(b[2][0])
                            m_ = m_[1] if m_[0] == 'fld' and m_[2] == '0' else m_
                            good = m_[0] == 'call' and m_[1].endswith('relevant_blockers') and m_[2][0] == a[0] and m_[2][1] == a[1]
                    if mask_param is not None:
                        m_ = strip_cast(a[mask_param - 1])
                        good = good and m_[0] == 'call' and m_[1].endswith('relevant_blockers') and m_[2][0] == a[0] and m_[2][1] == a[1]
                    args_ok = args_ok and good
        ok = ok and args_ok and n_calls >= 1
    ctx.ob(rule, name, 'a magic is returned only when try_make_table succeeded; shift = 64 - bits; mask = relevant blockers', ok,
           found=[[show_cond(c) for c in o.conds][:3] for o in rets][:2], expected='if let Ok(table) = try_make_table(..) { return }')
    name = PM + 'try_make_table'
    outs = Engine(facts, opaque={PM + 'SlidingPiece::targets', PM + 'magic_index'}).run(name)
    ctx.touch(name)
    errs = [o for o in outs if o.kind == 'return' and is_fail(o.value)]
    oks = [o for o in outs if o.kind == 'return' and is_succ(o.value)]
    # Err path: slot non-empty and different from moves
    oke = bool(errs)
    for o in errs:
        cs = [show_cond(c) for c in o.conds]
        oke = oke and any('targets' in c and ('== 0' in c or 'Not' in c or '!=' in c or 'not in' in c) for c in cs)
    # a path that continues (backedge) with a filled slot must have found it equal
    conts = [o for o in outs if o.kind in ('backedge',) or (o.kind == 'return' and is_succ(o.value))]
    ctx.ob(rule, name, 'returns Err when a filled slot holds a different attack set', oke, found=[[show_cond(c) for c in o.conds][-3:] for o in errs][:2],
           expected='else if *slot != moves { return Err }', why='an undetected destructive collision stores one attack set for two blocker configurations')
    tl = False
    for o in outs:
        for e in o.events:
            if e[0] == 'call' and 'from_elem' in e[1]:
                tl = any(s[0] == 'bin' and s[1] == 'Shl' and s[2] == C(1) for s in subterms(e[2][1]))
    ctx.ob(rule, name, 'table length = 1 << index_bits', tl, expected='vec![EMPTY; 1 << index_bits]')
    # offsets: running sum written before the increment
    name = PM + 'find_and_write_magics'
    fn = facts.need_fn(name)
    ctx.touch(name)
    outs = Engine(facts, opaque={PM + 'find_magic', PM + 'SlidingPiece::relevant_blockers'}, max_paths=3000).run(name)
    okoff = False
    for o in outs:
        if o.kind != 'backedge' or not o.locals:
            continue
        head = [e for e in o.events if e[0] == 'loop_head'][-1]
        # the running total: a loop-carried local (loop form) or the accumulator of a fold (adapter form), initial value 0,
        # next value = total + table.len()
        cands = list(o.locals.items())
        if o.value is not None:
            cands += [(k_, o.value) for k_ in head[3] if isinstance(k_, str)]
        for l, t in cands:
            carried = ('lv', head[2], l)
            if t[0] == 'bin' and t[1] == 'Add' and carried in (t[2], t[3]) and any(s[0] == 'call' and s[1].endswith('::len') for s in subterms(t)):
                # ... and the value formatted after "offset: " in this iteration's line is the carried (pre-increment) total
                written = False
                for e in o.events:
                    if e[0] == 'call' and e[1].endswith('write_fmt') and e[2][1][0] == 'fmtargs' and e[2][1][1][0] == 'concat':
                        parts = e[2][1][1][1]
                        for i_, p_ in enumerate(parts[:-1]):
                            if p_[0] == 'c' and isinstance(p_[1], str) and p_[1].endswith('offset: '):
                                written = parts[i_ + 1] == ('disp', carried)
                okoff = head[3].get(l) == C(0) and written
    ctx.ob(rule, name, 'offset = running total of table sizes, written before adding this table', okoff, expected='total starts at 0; total += table.len() after writing')


def r5_wiring(ctx):
    rule = 'C11.R5-wiring'
    facts = ctx.facts
    for m, consts, table in (('get_rook_targets', 'ROOK_MAGICS', 'rook_table'), ('get_bishop_targets', 'BISHOP_MAGICS', 'bishop_table')):
        name = MT + 'MagicTable::' + m
        outs = Engine(facts).run(name)
        ctx.touch(name)
        rets = [o for o in outs if o.kind == 'return']
        ok = bool(rets)
        found = None
        for o in rets:
            found = show(o.value)[:200]
            own = lambda t, table=table: any(x[0] == 'fld' and x[2] == table and x[1] in (('der', ('p', 1)), ('p', 1)) for x in subterms(t))
            other = lambda t, table=table: any(x[0] == 'fld' and x[2] in ('rook_table', 'bishop_table') and x[2] != table for x in subterms(t))
            its = table_index_terms(o, own)
            ok1 = len(its) == 1 and not table_index_terms(o, other)
            if ok1:
                shape, entries, blockers = index_form(its[0])
                ent_ok = len(entries) == 1 and all(
                    e_[0] == 'idx' and any(x[0] == 'named' and x[1].endswith('::' + consts) for x in subterms(e_[1]))
                    and strip_cast(e_[2]) == ('call', 'trailing_zeros', (('fld', ('p', 2), '0'),), None) for e_ in entries)
                ok1 = shape == FULL_SHAPE and ent_ok and blockers == {('p', 3)}
            ok = ok and ok1
        ctx.ob(rule, name, '%s[magic_index(&%s[tz(square)], blockers)]' % (table, consts), ok, found=found,
               expected='own table indexed by offset + (((blockers & mask) * magic) >> shift) of the own constants at tz(square)')


def r6_constants(ctx):
    rule = 'C11.R6-build-constants'
    facts = ctx.facts
    total = 0
    for nm, dirs, size_name in (('ROOK_MAGICS', ROOK_DIRS, 'ROOK_TABLE_SIZE'), ('BISHOP_MAGICS', BISHOP_DIRS, 'BISHOP_TABLE_SIZE')):
        v = facts.consts.get(MT + nm)
        size = facts.consts.get(MT + size_name)
        if not (isinstance(v, tuple) and v[0] == 'array') or not isinstance(size, int):
            ctx.anchor_missing(rule, MT + nm)
            continue
        entries = []
        for e in v[1]:
            f = dict(e[3])
            entries.append((f['mask'], f['magic'], f['shift'], f['offset']))
        ok_len = len(entries) == 64
        bad_mask, bad_range, bad_coll, overlap = [], [], [], []
        used = {}
        cases = 0
        segs = []
        for i, (mask, magic, shift, offset) in enumerate(entries):
            want = relevant_mask(i, dirs)
            if mask != want:
                bad_mask.append(sq_name(1 << i))
            bits = bin(mask).count('1')
            if shift != 64 - bits:
                bad_range.append((sq_name(1 << i), 'shift'))
            slots = {}
            hi = 0
            for sub in subsets(mask):
                cases += 1
                idx = offset + (((sub & mask) * magic) & ((1 << 64) - 1) >> 0 >> shift if False else (((sub * magic) & ((1 << 64) - 1)) >> shift))
                att = ray_attacks(i, sub, dirs)
                if not (0 <= idx < size):
                    bad_range.append((sq_name(1 << i), idx))
                    continue
                if idx in slots and slots[idx] != att:
                    bad_coll.append((sq_name(1 << i), idx))
                slots[idx] = att
                hi = max(hi, idx)
            segs.append((offset, hi, i))
        segs.sort()
        for (o1, h1, i1), (o2, h2, i2) in zip(segs, segs[1:]):
            if h1 >= o2:
                overlap.append((sq_name(1 << i1), sq_name(1 << i2)))
        total += cases
        ctx.ob(rule, MT + nm, '64 entries, masks = relevant-occupancy masks', ok_len and not bad_mask, found=bad_mask[:5], expected=[])
        ctx.ob(rule, MT + nm, 'every index in range, shift = 64 - popcount(mask) (%d blocker subsets)' % cases, not bad_range, found=bad_range[:5], expected=[])
        ctx.ob(rule, MT + nm, 'no destructive collision: subsets sharing a slot have equal ray-walk attack sets', not bad_coll, found=bad_coll[:5], expected=[],
               why='the attack set looked up must be the ray walk up to and including the first blocker')
        ctx.ob(rule, MT + nm, 'per-square segments of the shared table are disjoint', not overlap, found=overlap[:5], expected=[])
    ctx.floor(rule, 'blocker subsets validated', total, 102400 + 5248)
    ctx.extra['exhaustive_cases'] = total


def _contains(t, sub):
    return any(x == sub for x in subterms(t))


def _popcount_ev(t, env):
    """ev() extended with count_ones (Bitboard::popcnt)"""
    if t[0] == 'call' and (t[1].endswith('count_ones') or t[1].endswith('::popcnt')) and len(t[2]) == 1:
        return bin(_popcount_ev(t[2][0], env)).count('1')
    if t in env:
        return env[t]
    if t[0] == 'bin':
        return ev(('bin', t[1], C(_popcount_ev(t[2], env)), C(_popcount_ev(t[3], env))), {})
    if t[0] == 'cast':
        return _popcount_ev(t[1], env)
    if t[0] in ('ref', 'der'):
        return _popcount_ev(t[1], env)
    return ev(t, env)


def successors_walk(ctx, rule, name, what, outs, bl, entry, val_fn, masks):
    """The same decision for a fill loop spelled `for b in std::iter::successors(Some(first), step) { body(b) }` (possibly behind a helper
    returning `impl Iterator`): the sequence is first, step(first), step(step(first)), ... up to the first `None`.  `step` is summarised from
    the closure's own paths (value and conditions as terms over its argument and its captured mask) and the sequence is evaluated for
    every mask of this build: the values at which the body runs must be exactly the power set of the mask."""
    facts = ctx.facts
    nxt = strip_refs_t(bl)[1]                        # the `next()` call whose payload is the blocker set
    itl = nxt[2][0][1]                               # ('L', fid, local): the iterator the loop drives
    head = src = None
    for o in outs:
        for e in o.events:
            if e[0] == 'loop_head' and not isinstance(e[2], tuple) and itl[2] in e[3]:
                head, src = e, e[3][itl[2]]
    while src is not None and src[0] == 'call' and src[1].endswith('into_iter') and len(src[2]) == 1:
        src = src[2][0]
    if head is None or src is None or src[0] != 'call' or not src[1].endswith('iter::successors') or len(src[2]) != 2 \
            or src[2][1][0] != 'agg' or src[2][1][1] != 'closure':
        ctx.ob(rule, name, what + ': the index is computed from the loop-carried blocker set', False, found=show(bl))
        return
    first, clo = src[2]
    try:
        init = ev(dict(first[4])['0'], {}) if first[0] == 'agg' and first[3] == 'Some' else None
        init = init if isinstance(init, int) else None
    except Unevaluable:
        init = None
    if init is None and first[0] == 'agg' and first[3] == 'Some':
        try:
            init = ev(field(dict(first[4])['0'], '0'), {})
        except Unevaluable:
            init = None
    ctx.ob(rule, name, what + ': enumeration starts from the empty blocker set', init == 0, found=show(first), expected='successors(Some(Bitboard::EMPTY), ..)')
    H = head[2]
    through = [o for o in outs if any(e[0] == 'loop_head' and e[2] == H for e in o.events)]
    body_ok, shape_ok = True, True
    for o in through:
        if o.kind == 'abort':
            continue
        pos = max(i for i, e in enumerate(o.events) if e[0] == 'loop_head' and e[2] == H)
        evs = o.events[pos:]
        inside = [c for c in o.conds[head[4]:]]
        nd = [c for c in inside if c[0] == ('discr', nxt)]
        # the only decision inside the loop is whether the sequence has ended: no break, no skipped element
        # (a path may also leave from inside the body with the failure value of a fallible builder: the collision test of the generator)
        shape_ok = shape_ok and len(nd) == 1 and ((o.kind == 'backedge' and nd[0][1] == 1) or (o.kind == 'return' and nd[0][1] == 0 and len(inside) == 1)
                                                  or (o.kind == 'return' and nd[0][1] == 1 and is_fail(o.value)))
        if o.kind == 'backedge':
            val = [e for e in evs if e[0] == 'call' and e[1] == val_fn]
            body_ok = body_ok and len(val) == 1 and any(x == bl or _contains(x, bl) for x in val[0][2])
    ctx.ob(rule, name, what + ': each iteration computes the attack set and the slot from the same blocker set', body_ok)
    ctx.ob(rule, name, what + ': the loop ends exactly when the enumeration returns to the empty set', shape_ok and any(o.kind == 'backedge' for o in through),
           found=[[show_cond(c) for c in o.conds[head[4]:]] for o in through if o.kind != 'abort'][:3], expected='the body runs for every element the sequence yields')
    # the step closure: value / conditions over its argument and what it captured
    cname = clo[2]
    ctx.touch(cname)
    couts = [o for o in Engine(facts).run(cname) if o.kind != 'abort']
    ups = dict(clo[4])
    mask_ok = len(ups) == 1 and all(x[0] == 'fld' and _contains(x, entry) and 'mask' in show(x) for x in ups.values())
    ctx.ob(rule, name, what + ': the update walks the mask of the entry that is indexed', mask_ok, found=[show(x) for x in ups.values()], expected='<entry>.mask')
    if not mask_ok or not couts or not shape_ok:
        return

    def env_for(t, b, m):
        env = {}
        for s_ in subterms(t):
            if s_[0] == 'fld' and str(s_[2]).startswith('upvar'):
                env[s_] = m
            elif s_ in (('fld', ('der', ('p', 2)), '0'), ('der', ('p', 2))):
                env[s_] = b
        return env

    def step(b, m):
        """next element or None (sequence ends); raises Unevaluable"""
        hits = []
        for o in couts:
            good = True
            for a, v in o.conds:
                x = ev(a, env_for(a, b, m))
                if isinstance(v, tuple) and v[0] == 'not':
                    good = good and x not in v[1]
                else:
                    good = good and x == (int(v) if not isinstance(v, tuple) else v)
            if good:
                hits.append(o)
        if len(hits) != 1 or hits[0].value is None or hits[0].value[0] != 'agg':
            raise Unevaluable(('step', len(hits)))
        v = hits[0].value
        if v[3] == 'None':
            return None
        inner = dict(v[4])['0']
        inner = dict(inner[4])['0'] if inner[0] == 'agg' else inner
        return ev(inner, env_for(inner, b, m))
    missing_total, dup_total, cases, witness = 0, 0, 0, None
    try:
        for sqi, m in masks:
            want = 1 << bin(m).count('1')
            b, seen, steps = init, set(), 0
            while b is not None and steps <= want + 1:
                steps += 1
                if b in seen:
                    dup_total += 1
                seen.add(b)
                b = step(b, m)
            cases += len(seen)
            miss = want - len({x for x in seen if x & ~m == 0})
            if miss and witness is None:
                lost = sorted(set(subsets(m)) - seen)[:2]
                witness = {'square': sq_name(1 << sqi), 'mask': hex(m), 'subsets never written': [hex(x) for x in lost], 'written': len(seen), 'of': want}
            missing_total += miss
            dup_total += max(0, steps - len(seen))
    except Unevaluable as e:
        ctx.ob(rule, name, what + ': loop conditions are functions of blocker set and mask', False, found=str(e.args[0])[:120])
        return
    ctx.ob(rule, name, what + ': the body runs once for every subset of the mask',
           missing_total == 0 and dup_total == 0, found=witness or {'missing': missing_total, 'repeated': dup_total, 'subsets visited': cases, 'masks': len(masks), 'form': 'successors'},
           expected='2^popcount(mask) distinct blocker sets per square',
           why='a subset that is never written leaves its slot empty: the slider is reported to attack nothing in that configuration')
    return cases


def subset_walk(ctx, rule, name, opaque, val_fn, masks, what):
    """Decide that the fill loop of `name` performs one lookup-table write for EVERY subset of the mask.

    The loop is read off the MIR: loop-carried blocker set b (the argument of the index function), its initial value, the update
    term b' = F(b, mask) on the continuing paths and the conditions under which the loop continues / ends.  The recurrence is then
    evaluated for every mask of this build: the set of values of b at which the body runs must be exactly the power set of the mask."""
    facts = ctx.facts
    try:
        outs = Engine(facts, opaque=opaque, max_paths=2000).run(name)
    except PathLimit:
        ctx.ob(rule, name, what + ': fill loop analysable', False, found='path limit')
        return
    ctx.touch(name)
    # the slot written in the loop: its index expression (helpers inlined) names the blocker set and the entry it is computed from
    its = []
    for o in outs:
        for it in table_index_terms(o, lambda t: True, writes_only=True):
            if it not in its:
                its.append(it)
    forms = [index_form(it) for it in its]
    forms = [f_ for f_ in forms if f_[1]]
    if not forms:
        ctx.anchor_missing(rule, name, 'no table write indexed by a magic entry found')
        return
    bls = {b_ for f_ in forms for b_ in f_[2]}
    ents = {e_ for f_ in forms for e_ in f_[1]}
    if len(bls) != 1 or len(ents) != 1:
        ctx.ob(rule, name, what + ': one blocker set and one entry index the table', False, found={'blockers': [show(b_) for b_ in bls], 'entries': [show(e_) for e_ in ents]})
        return
    bl = next(iter(bls))
    entry = next(iter(ents))
    if bl[0] != 'lv' and is_iteration_element(bl) and strip_refs_t(bl)[0] == 'fld' and 'Successors' in strip_refs_t(bl)[1][1]:
        return successors_walk(ctx, rule, name, what, outs, bl, entry, val_fn, masks)
    if bl[0] != 'lv':
        ctx.ob(rule, name, what + ': the index is computed from the loop-carried blocker set', False, found=show(bl))
        return
    H, l = bl[1], bl[2]
    before = None
    for o in outs:
        for e in o.events:
            if e[0] == 'loop_head' and e[2] == H:
                before = e[3]
    try:
        init = ev(before.get(l), {}) if before and l in before else None
    except Unevaluable:
        init = None
    ctx.ob(rule, name, what + ': enumeration starts from the empty blocker set', init == 0, found=show(before.get(l)) if before and l in before else None, expected='Bitboard::EMPTY')
    through = [o for o in outs if any(e[0] == 'loop_head' and e[2] == H for e in o.events)]
    # every iteration computes value and index from the same b and stores the value in that slot
    body_ok = True
    for o in through:
        pos = max(i for i, e in enumerate(o.events) if e[0] == 'loop_head' and e[2] == H)
        evs = o.events[pos:]
        val = [e for e in evs if e[0] == 'call' and e[1] == val_fn]
        ended_before_body = not val and not any(e[0] == 'write' for e in evs)
        if ended_before_body:
            continue
        body_ok = body_ok and len(val) == 1 and any(x == bl or _contains(x, bl) for x in val[0][2])
    ctx.ob(rule, name, what + ': each iteration computes the attack set and the slot from the same blocker set', body_ok)
    cont = [o for o in through if o.kind == 'backedge' and o.where and o.where[1] == H]
    stop = [o for o in through if not (o.kind == 'backedge' and o.where and o.where[1] == H) and o.kind != 'abort'
            and not (o.kind == 'return' and is_fail(o.value))]
    if not cont or not stop:
        ctx.ob(rule, name, what + ': fill loop has a continuing and a terminating path', False, found={'continuing': len(cont), 'terminating': len(stop)})
        return
    # update term
    Fs = set()
    for o in cont:
        nv = o.locals.get(l)
        f = field(nv, '0') if nv is not None else None
        Fs.add(f)
    if len(Fs) != 1 or None in Fs:
        ctx.ob(rule, name, what + ': one update term for the blocker set', False, found=[show(f) for f in Fs if f])
        return
    F = Fs.pop()
    b0 = ('fld', bl, '0')
    # the mask leaf: maximal sub-terms of F without b that are not constants
    leaves = set()

    def walk(t):
        if t == b0 or t == bl:
            return
        if not _contains(t, bl):
            if t[0] != 'c':
                leaves.add(t)
            return
        if t[0] in ('bin',):
            walk(t[2]); walk(t[3])
        elif t[0] == 'un':
            walk(t[2])
        elif t[0] == 'cast':
            walk(t[1])
        else:
            leaves.add(('?', t))
    walk(F)
    mask_ok = len(leaves) == 1 and all(x[0] == 'fld' for x in leaves) and all(_contains(x, entry) and 'mask' in show(x) for x in leaves)
    ctx.ob(rule, name, what + ': the update walks the mask of the entry that is indexed', mask_ok, found=[show(x) for x in leaves], expected='<entry>.mask')
    if not mask_ok:
        return
    M = next(iter(leaves))
    # conditions of continuing / terminating paths that depend on b (after the loop head)
    def lv_conds(o):
        out = []
        for a, v in o.conds:
            if _contains(a, bl):
                try:
                    ev(a, {M: 0, bl: 0})
                except Unevaluable:
                    continue      # depends on table contents (collision test), not on the enumeration: don't-care
                out.append((a, v))
        return out

    def holds(cs, env):
        """True / False / None (not evaluable)"""
        res = True
        for a, v in cs:
            try:
                x = ev(a, env)
            except Unevaluable:
                return None
            if isinstance(v, tuple) and v[0] == 'not':
                if x in v[1]:
                    return False
            elif x != (int(v) if not isinstance(v, tuple) else v):
                return False
        return res
    cont_cs = [lv_conds(o) for o in cont]
    stop_cs = [lv_conds(o) for o in stop]
    counted = None
    if any(not c for c in cont_cs) or any(not c for c in stop_cs):
        # the loop does not end on a test of the blocker set: accept a counted loop over a Range whose bounds depend on the mask only
        counted = []
        for o in through:
            for e in o.events:
                if e[0] == 'call' and e[1].endswith('IntoIterator>::into_iter') and e[2] and e[2][0][0] == 'agg' and 'Range' in str(e[2][0][2]):
                    counted.append(e[2][0])
        counted = counted[-1] if counted else None
        if counted is None:
            ctx.ob(rule, name, what + ': the loop ends exactly when the enumeration returns to the empty set', False,
                   found={'continue': [[show_cond(c) for c in cs] for cs in cont_cs][:2], 'stop': [[show_cond(c) for c in cs] for cs in stop_cs][:2]},
                   expected='break iff (b - mask) & mask == 0')
            return
    missing_total, dup_total, cases = 0, 0, 0
    witness = None
    for sqi, m in masks:
        env = {M: m}
        want = 1 << bin(m).count('1')
        b = 0
        seen = set()
        steps = 0
        if counted is not None:
            f = dict(counted[4])
            try:
                lo, hi = _popcount_ev(f.get('start', f.get('0')), env), _popcount_ev(f.get('end', f.get('1')), env)
            except (Unevaluable, KeyError, TypeError):
                ctx.ob(rule, name, what + ': trip count of the fill loop is a function of the mask', False, found=show(counted))
                return
            n = max(0, hi - lo) + (1 if 'Inclusive' in str(counted[2]) else 0)
            for _ in range(min(n, want + 2)):
                if b in seen:
                    dup_total += 1
                seen.add(b)
                env[bl] = b
                b = ev(F, env) if True else 0
        else:
            while True:
                seen.add(b)
                steps += 1
                env[bl] = b
                c = [holds(cs, env) for cs in cont_cs]
                t_ = [holds(cs, env) for cs in stop_cs]
                if any(x is None for x in c + t_):
                    ctx.ob(rule, name, what + ': loop conditions are functions of blocker set and mask', False,
                           found=[[show_cond(x) for x in cs] for cs in cont_cs + stop_cs][:3])
                    return
                if any(t_) and not any(c):
                    break
                if not any(c):
                    break
                b = ev(F, env)
                if steps > want + 1:
                    break
        cases += len(seen)
        miss = want - len({x for x in seen if x & ~m == 0})
        if miss and witness is None:
            allsub = set(subsets(m))
            lost = sorted(allsub - seen)[:2]
            witness = {'square': sq_name(1 << sqi), 'mask': hex(m), 'subsets never written': [hex(x) for x in lost], 'written': len(seen), 'of': want}
        missing_total += miss
        dup_total += max(0, steps - len(seen)) if counted is None else 0
    ctx.ob(rule, name, what + ': the body runs once for every subset of the mask',
           missing_total == 0 and dup_total == 0, found=witness or {'missing': missing_total, 'repeated': dup_total, 'subsets visited': cases, 'masks': len(masks)},
           expected='2^popcount(mask) distinct blocker sets per square',
           why='a subset that is never written leaves its slot empty: the slider is reported to attack nothing in that configuration')
    return cases


def r7_fill_loops(ctx):
    rule = 'C11.R7-fill-loops'
    facts = ctx.facts
    masks = []
    for nm in ('ROOK_MAGICS', 'BISHOP_MAGICS'):
        v = facts.consts.get(MT + nm)
        if not (isinstance(v, tuple) and v[0] == 'array'):
            ctx.anchor_missing(rule, MT + nm)
            return
        for i, e in enumerate(v[1]):
            masks.append((i, dict(e[3])['mask']))
    n1 = subset_walk(ctx, rule, fill_site(facts, MT + 'make_table', {MT + 'slider_moves'}), {MT + 'slider_moves'}, MT + 'slider_moves', masks, 'engine table')
    gm = [(i, relevant_mask(i, d)) for d in (ROOK_DIRS, BISHOP_DIRS) for i in range(64)]
    n2 = subset_walk(ctx, rule, fill_site(facts, PM + 'try_make_table', {PM + 'SlidingPiece::targets'}), {PM + 'SlidingPiece::targets'}, PM + 'SlidingPiece::targets', gm,
                     'generator collision test')
    ctx.floor(rule, 'subset-walk steps evaluated', (n1 or 0) + (n2 or 0), 2 * (102400 + 5248))


def r8_lookup_use(ctx):
    """the tables are consulted with the real occupancy: rook pieces through the rook lookup, bishops through the bishop lookup, queens
    through both, blockers = all pieces of both colours, own pieces removed from the result (= C01.R5 sliding arms, C01.R9, C01.R6)"""
    from . import c01
    sub = type(ctx)(ctx.prop, ctx.tier, ctx.facts, ctx.facts_info, ctx.seed)
    c01.r5_attack_map(sub)
    n = 0
    for s_ in sub.samples:
        if s_['rule'] in ('C01.R9-slider-blockers', 'C01.R6-own-piece-exclusion') or 'lookup' in s_['instance']:
            n += 1
            ctx.ob('C11.R8-lookup-use', s_['function'], s_['instance'], s_['ok'], found=s_['found'], expected=s_['expected'],
                   why='an exact table consulted with a doctored occupancy (a piece left out of the blockers) still reports a slider attacking through that piece',
                   nontrivial='floor' not in s_['instance'])
    ctx.floor('C11.R8-lookup-use', 'lookup obligations imported', n, 3)


def run(ctx):
    # the attack sets are looked up anew for the squares and the occupancy of the board in hand: the generator keeps no remembered attack
    # sets besides its keyed caches (= C02.R4; an "incremental" memo of slider attacks keyed by a snapshot that misses the ray ends goes stale)
    from . import c02
    import_rules(ctx, 'C11.R9-no-remembered-attacks', [c02.r4_unkeyed_state],
                 'slider attacks must be those of the present occupancy: a memo whose key omits part of what the attack set depends on serves '
                 'the attack set of another position', floor=3)
    r8_lookup_use(ctx)
    r1_leapers(ctx)
    r2_deltas(ctx)
    r3_index(ctx)
    r4_acceptance(ctx)
    r5_wiring(ctx)
    r6_constants(ctx)
    r7_fill_loops(ctx)
