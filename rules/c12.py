"""C12 — board representation invariants (structural clauses)."""
from sa.sym import Engine, show, show_cond, subterms, C, is_const
from .common import *
from .tables import is_true, is_false
from . import c05

EXPLANATION = (
    "Static clauses: (R1) the per-piece bitboards and the per-colour occupancy summary are only ever written together, "
    "with the same operand and operator, in PieceSet::put (guarded by 'square not occupied') and PieceSet::remove "
    "(guarded by 'a piece is there', clearing the bitboard of exactly that piece); (R2) Board::put refuses whenever "
    "either colour occupies the square; (R3) nobody else can write this state (imports C05.R4); (R4) castle rights "
    "only ever lose bits: the only values pushed are old & !lost and the unchanged top; (R6) locate/put/remove/get "
    "agree on piece <-> bitboard slot and Piece::from_usize is the inverse of the discriminant; (R7) Board::occupied, "
    "Board::is_occupied and Board::get agree with the two colour sets; (R5) the castle-rights and en-passant-target "
    "effect tables of apply (imports C03.R1-R3: rights are dropped whenever king or rook leave home or the rook is taken, the ep "
    "target is set only behind a double pawn step); (R8) no pawn stays on a last rank: the generator splits every pawn move at the "
    "mover's last rank into the four promotions (imports C01.R7) and a promotion replaces the pawn by the chosen piece (imports "
    "C03.R4); (R9) the states after an undo are reachable states: undo puts back what apply took where it took it and pops what apply "
    "pushed (imports C04.R1, R2). 'One king per side' is a consequence of legal play (no king capture: C01.R2) and is NOT decided here; the geometric "
    "ep clause 'square behind the target is empty' is decided only through the double-step rows of R5.")
ASSUMPTIONS = [
    "rustc MIR construction and the chessfacts extractor are faithful",
    "iter().enumerate() yields (index, element) pairs in order",
]

PS = 'chess::board::piece_set::PieceSet'
MI = 'chess::board::move_info::MoveInfo'


def self_fld(*names):
    t = ('der', ('p', 1))
    for n in names:
        t = ('fld', t, n)
    return t


def r1_paired(ctx):
    rule = 'C12.R1-paired-update'
    facts = ctx.facts
    occ0 = ('fld', self_fld('occupied'), '0')
    sq0 = ('fld', ('p', 2), '0')
    for m, opname, guard_desc in (('put', 'BitOr', 'square free'), ('remove', 'BitXor', 'piece present')):
        name = PS + '::' + m
        outs = Engine(facts, readonly={PS + '::get'}).run(name)
        ctx.touch(name)
        n_changing = 0
        for o in outs:
            if o.kind != 'return':
                continue
            ws = [e for e in o.events if e[0] == 'write']
            if not ws:
                continue
            n_changing += 1
            bbw = [e for e in ws if any(s[0] == 'fld' and s[2] == 'bitboards' for s in subterms(e[1]))]
            ocw = [e for e in ws if e[1] == occ0]
            shape = len(bbw) == 1 and len(ocw) == 1 and len(ws) == 2
            ok = False
            detail = {'writes': ['%s = %s' % (show(e[1]), show(e[2])) for e in ws]}
            if shape:
                b, oc = bbw[0], ocw[0]
                okb = b[2] == ('bin', opname, b[1], sq0) or b[2] == ('bin', opname, sq0, b[1])
                oko = oc[2] == ('bin', opname, occ0, sq0) or oc[2] == ('bin', opname, sq0, occ0)
                ok = okb and oko
            ctx.ob(rule, name, 'changing path: bitboard and occupancy updated together with `%s square`' % opname, shape and ok,
                   found=detail, expected='bitboards[p] %s= square; occupied %s= square' % (opname, opname),
                   why='per-piece boards and the occupancy summary are redundant encodings of one placement')
            conds = dict(o.conds)
            if m == 'put':
                g = conds.get(('bin', 'BitAnd', occ0, sq0))
                ctx.ob(rule, name, 'changing path guarded by: square not occupied', is_false(g) if g is not None else False,
                       found=[show_cond(c) for c in o.conds], expected='(occupied & square) == 0',
                       why='OR-ing a piece onto an occupied square puts two pieces on one square')
            else:
                gets = [a for a, v in o.conds if a[0] == 'discr' and a[1][0] == 'call' and a[1][1] == PS + '::get' and v == 1]
                idx = [s[2] for e in bbw for s in subterms(e[1]) if s[0] == 'idx']
                okg = bool(gets) and shape and all(
                    strip(i) == ('discr', ('fld', gets[0][1], 'Some.0')) for i in idx) and gets[0][1][2][1] == ('p', 2)
                ctx.ob(rule, name, 'changing path guarded by: a piece is there, and that piece\'s bitboard is cleared', okg,
                       found={'guards': [show_cond(c) for c in o.conds], 'index': [show(i) for i in idx]},
                       expected='get(square) == Some(p); bitboards[p] ^= square',
                       why='XOR on an empty square would set a bit instead of clearing it')
        ctx.floor(rule, 'state-changing paths of ' + name, n_changing, 1)
    # Err / None paths change nothing
    for m in ('put', 'remove'):
        name = PS + '::' + m
        outs = Engine(facts, readonly={PS + '::get'}).run(name)
        for o in outs:
            if o.kind != 'return':
                continue
            v = o.value
            failing = (v[0] == 'agg' and v[3] in ('Err', 'None'))
            if failing:
                ws = [e for e in o.events if e[0] == 'write']
                ctx.ob(rule, name, 'failing path changes nothing', not ws, found=[show(e[1]) for e in ws], expected=[])


def strip(t):
    while t[0] == 'cast':
        t = t[1]
    return t


def r2_cross_colour(ctx):
    rule = 'C12.R2-cross-colour-exclusion'
    facts = ctx.facts
    name = BOARD + '::put'
    outs = Engine(facts).run(name)
    ctx.touch(name)
    both = ('bin', 'BitAnd', ('bin', 'BitOr', ('fld', self_fld('white', 'occupied'), '0'), ('fld', self_fld('black', 'occupied'), '0')),
            ('fld', ('p', 2), '0'))
    n = 0
    for o in outs:
        if o.kind == 'return' and is_ok_result(o.value):
            n += 1
            conds = dict(o.conds)
            g = conds.get(both)
            if g is None:
                # accept the two tests separately
                w = conds.get(('bin', 'BitAnd', ('fld', self_fld('white', 'occupied'), '0'), ('fld', ('p', 2), '0')))
                b = conds.get(('bin', 'BitAnd', ('fld', self_fld('black', 'occupied'), '0'), ('fld', ('p', 2), '0')))
                ok = w is not None and b is not None and is_false(w) and is_false(b)
            else:
                ok = is_false(g)
            ctx.ob(rule, name, 'Ok path requires the square to be free of both colours', ok, found=[show_cond(c) for c in o.conds],
                   expected='((white.occupied | black.occupied) & square) == 0', why='every square holds at most one piece')
    ctx.floor(rule, 'Ok paths of Board::put', n, 2)


def r4_rights_monotone(ctx):
    rule = 'C12.R4-rights-monotone'
    facts = ctx.facts
    pushes = []
    for m in ('lose_castle_rights', 'preserve_castle_rights', 'pop_castle_rights'):
        name = MI + '::' + m
        outs = Engine(facts).run(name)
        ctx.touch(name)
        for o in outs:
            if o.kind != 'return':
                continue
            for e in o.events:
                if e[0] == 'call' and e[1] == 'std::vec::Vec::<T, A>::push' and any(
                        s[0] == 'fld' and s[2] == 'castle_rights_stack' for s in subterms(e[2][0])):
                    pushes.append((name, e[2][1]))
    for name, v in pushes:
        tops = c05.top_reads(v, 'castle_rights_stack')
        core = v
        while core[0] == 'der':
            core = core[1]
        desc = show(v)
        ok = False
        if core[0] == 'fld' and core[2] == 'Some.0' and core[1][0] == 'call' and core[1][1].endswith('::last'):
            ok = True                      # unchanged top
            kind = 'push(top)'
        elif v[0] == 'bin' and v[1] == 'BitXor':
            a, b = v[2], v[3]
            for x, y in ((a, b), (b, a)):
                if y[0] == 'bin' and y[1] == 'BitAnd' and x in (y[2], y[3]) and c05.top_reads(x, 'castle_rights_stack'):
                    ok = True              # old ^ (old & lost) = old & !lost
            kind = 'push(old ^ (old & lost))'
        elif v[0] == 'bin' and v[1] == 'BitAnd':
            ok = any(c05.top_reads(x, 'castle_rights_stack') for x in (v[2], v[3]))
            kind = 'push(old & mask)'
        else:
            kind = 'push(?)'
        ctx.ob(rule, name, kind, ok, found=desc, expected='old & !lost, or the unchanged top',
               why='castling rights, once lost, are never regained')
    ctx.floor(rule, 'pushes onto the rights stack', len(pushes), 2)
    allr = facts.consts.get('chess::board::castle_rights_bitmask::ALL_CASTLE_RIGHTS')
    four = [facts.consts.get('chess::board::castle_rights_bitmask::' + n) for n in
            ('WHITE_KINGSIDE_RIGHTS', 'WHITE_QUEENSIDE_RIGHTS', 'BLACK_KINGSIDE_RIGHTS', 'BLACK_QUEENSIDE_RIGHTS')]
    ok = all(isinstance(x, int) for x in four) and allr == (four[0] | four[1] | four[2] | four[3])
    ctx.ob(rule, 'ALL_CASTLE_RIGHTS', 'union of the four single rights', ok, found=allr, expected='WK|WQ|BK|BQ')


def r6_index_agreement(ctx):
    rule = 'C12.R6-index-agreement'
    facts = ctx.facts
    # Piece::from_usize inverse of discriminant
    name = 'chess::board::piece::Piece::from_usize'
    # evaluated argument by argument (any spelling: match, lookup table, ...): from_usize(k) for k = 0..6
    ctx.touch(name)
    table = {}
    for k in range(7):
        outs = Engine(facts, fold_only=()).run(name, args=[C(k)])
        rets = [o for o in outs if o.kind == 'return']
        if len(rets) == 1 and len([o for o in outs if o.kind != 'abort']) == 1 and rets[0].value[0] == 'agg':
            table[k] = rets[0].value[3]
        elif not rets and outs and all(o.kind == 'abort' for o in outs):
            pass        # panics: not a piece index
        else:
            table[k] = '?'
    want = {v['discr']: v['name'] for v in facts.adts[PIECE_ADT]['variants']}
    for k in sorted(set(want) | set(table)):
        ctx.ob(rule, name, 'from_usize(%d) = %s' % (k, table.get(k)), table.get(k) == want.get(k), found=table.get(k), expected=want.get(k),
               why='the piece reported for a bitboard slot must be the piece stored in that slot')
    # locate indexes with piece as usize
    name = PS + '::locate'
    outs = Engine(facts).run(name)
    ctx.touch(name)
    rets = [o for o in outs if o.kind == 'return']
    ok = len(rets) == 1 and rets[0].value == ('idx', self_fld('bitboards'), ('cast', ('discr', ('p', 2)), 'usize'))
    ctx.ob(rule, name, 'bitboards[piece as usize]', ok, found=show(rets[0].value) if rets else None, expected='self.bitboards[piece as usize]')
    # put indexes with piece as usize (remove: checked in R1 against get's result)
    name = PS + '::put'
    outs = Engine(facts).run(name)
    idx = {strip(s[2]) for o in outs for e in o.events if e[0] == 'write' for s in subterms(e[1]) if s[0] == 'idx'}
    ctx.ob(rule, name, 'bitboards[piece as usize]', idx == {('discr', ('p', 3))}, found=[show(i) for i in idx], expected='piece as usize')
    # get: Some(from_usize(i)) for the slot i that overlaps the square
    name = PS + '::get'
    outs = Engine(facts).run(name)
    ctx.touch(name)
    somes = [o for o in outs if o.kind == 'return' and o.value[0] == 'agg' and o.value[3] == 'Some']
    ok = False
    found = None
    if len(somes) == 1:
        o = somes[0]
        v = dict(o.value[4])['0']
        found = show(v)
        if v[0] == 'call' and v[1].endswith('Piece::from_usize'):
            i = v[2][0]
            # i must be the index component of the enumerate item whose bitboard overlaps the square
            if i[0] == 'fld' and i[2] == '0':
                item = i[1]
                bbt = ('fld', ('der', ('fld', item, '1')), '0')
                for a, val in o.conds:
                    if a[0] == 'bin' and a[1] == 'BitAnd' and bbt in (a[2], a[3]) and ('fld', ('p', 2), '0') in (a[2], a[3]) and is_true(val):
                        src = [e for e in o.events if e[0] == 'call' and e[1] == 'std::iter::Iterator::enumerate']
                        ok = bool(src) and any(s[0] == 'fld' and s[2] == 'bitboards' for s in subterms(src[0][2][0]))
    if not ok and len(somes) == 1:
        # adapter form interpreted by the engine: Some(from_usize(pos#k)) on the path where element k of bitboards.iter() overlaps the square
        o = somes[0]
        v = dict(o.value[4])['0']
        if v[0] == 'call' and v[1].endswith('Piece::from_usize') and v[2][0][0] == 'pos':
            k = v[2][0][1]
            ad = [e for e in o.events if e[0] == 'adapter' and e[2] == ('adapter', k)]
            el, sqv = ('fld', ('der', ('elem', k)), '0'), ('fld', ('p', 2), '0')
            hit = any(a[0] == 'bin' and a[1] == 'BitAnd' and {a[2], a[3]} == {el, sqv} and is_true(val) for a, val in o.conds)
            ok = len(ad) == 1 and ad[0][1] == 'position' and not ad[0][4] and hit and \
                any(s_[0] == 'fld' and s_[2] == 'bitboards' and s_[1] in (('der', ('p', 1)), ('p', 1)) for s_ in subterms(ad[0][3]))
    if not ok and len(somes) == 1:
        # the same search written with an adapter: bitboards.iter().position(|bb| bb.overlaps(square)).map(Piece::from_usize)
        o = somes[0]
        v = dict(o.value[4])['0']
        if v[0] == 'call' and v[1].endswith('Piece::from_usize') and v[2][0][0] == 'fld' and v[2][0][2] == 'Some.0':
            pos = v[2][0][1]
            if pos[0] == 'call' and pos[1].endswith('Iterator>::position') and pos[2][1][0] == 'agg' and pos[2][1][1] == 'closure':
                it = pos[2][0]
                while it[0] in ('ref', 'der'):
                    it = it[1]
                pev = [e for e in o.events if e[0] == 'call' and e[1] == pos[1]]
                itv = dict(pev[0][6]).get(0) if (pev and len(pev[0]) > 6 and it[0] == 'L') else it
                from_bitboards = itv is not None and any(s_[0] == 'fld' and s_[2] == 'bitboards' and s_[1] in (('der', ('p', 1)), ('p', 1)) for s_ in subterms(itv))
                snaps = [e[2] for e in o.events if e[0] == 'closure' and e[1] == pos[2][1][2]]
                co = Engine(facts).run(pos[2][1][2])
                ctx.touch(pos[2][1][2])
                if from_bitboards and snaps and len(co) == 1 and co[0].kind == 'return' and not co[0].conds:
                    val = subst_upvars(co[0].value, snaps[0])
                    el, sqv = ('fld', ('der', ('p', 2)), '0'), ('fld', ('p', 2), '0')
                    try:
                        from sa.evalterm import ev, Unevaluable
                        def bev(t_, env):
                            if t_[0] == 'un' and t_[1] == 'Not':
                                return int(not bev(t_[2], env))
                            return int(bool(ev(t_, env)))
                        tt = [bev(val, {el: a, sqv: b}) for a, b in ((0b0110, 0b0100), (0b0110, 0b1000), (0, 1), (1, 1))]
                        ok = tt == [1, 0, 0, 1]
                    except Exception:
                        ok = False
    ctx.ob(rule, name, 'returns from_usize(i) for the slot i whose bitboard overlaps the square', ok, found=found,
           expected='for (i, bb) in bitboards.iter().enumerate(): if bb.overlaps(square) return Some(from_usize(i))')


def r7_summary(ctx):
    rule = 'C12.R7-summary-agreement'
    facts = ctx.facts
    w = ('fld', self_fld('white', 'occupied'), '0')
    b = ('fld', self_fld('black', 'occupied'), '0')
    name = BOARD + '::occupied'
    outs = Engine(facts).run(name)
    ctx.touch(name)
    rets = [o for o in outs if o.kind == 'return']
    v = rets[0].value if rets else None
    ok = v is not None and v[0] == 'agg' and v[4][0][1] in (('bin', 'BitOr', w, b), ('bin', 'BitOr', b, w))
    ctx.ob(rule, name, 'white.occupied | black.occupied', ok, found=show(v), expected='union of both colours')
    name = BOARD + '::get'
    outs = Engine(facts, readonly={PS + '::get'}).run(name)
    ctx.touch(name)
    sqv = ('fld', ('p', 2), '0')
    n = 0
    for o in outs:
        if o.kind != 'return':
            continue
        conds = dict(o.conds)
        wv, bv = conds.get(('bin', 'BitAnd', w, sqv)), conds.get(('bin', 'BitAnd', b, sqv))
        v = o.value
        if v[0] == 'agg' and v[3] == 'Some':
            n += 1
            tup = dict(v[4])['0']
            p, c = dict(tup[4])['0'], dict(tup[4])['1']
            col = c[3] if c[0] == 'agg' else None
            src = [s[2][0] for s in subterms(p) if s[0] == 'call' and s[1] == PS + '::get']
            side = [s[2] for x in src for s in subterms(x) if s[0] == 'fld' and s[2] in ('white', 'black')]
            if col == 'White':
                ok = is_true(wv) and side == ['white']
            else:
                ok = col == 'Black' and is_false(wv) and is_true(bv) and side == ['black']
            ctx.ob(rule, name, 'Some(_, %s): square occupied by that colour and piece read from the same set' % col, ok,
                   found={'conds': [show_cond(x) for x in o.conds], 'piece from': side}, expected='colour and piece come from the same PieceSet')
        elif v[0] == 'agg' and v[3] == 'None' and wv is not None and bv is not None and is_false(wv) and is_false(bv):
            ctx.ob(rule, name, 'None: neither colour occupies the square', True)
    ctx.floor(rule, 'Some rows of Board::get', n, 2)


def run(ctx):
    r1_paired(ctx)
    r2_cross_colour(ctx)
    # R3 encapsulation: same rule instances as C05.R4 (who may write placement / stacks)
    sub = type(ctx)(ctx.prop, ctx.tier, ctx.facts, ctx.facts_info, ctx.seed)
    c05.r4_who_may_write(sub)
    for s in sub.samples:
        ctx.ob('C12.R3-encapsulation', s['function'], s['instance'], s['ok'], found=s['found'], expected=s['expected'],
               why='placement and stacks may only change through their owner methods', nontrivial='floor' not in s['instance'])
    r4_rights_monotone(ctx)
    # R5: a right still held implies king and rook at home; an ep target sits behind a pawn that just advanced two squares:
    #     these are consequences of the per-kind effect tables of apply (same rule instances as C03.R1-R3)
    from . import c03
    sub = type(ctx)(ctx.prop, ctx.tier, ctx.facts, ctx.facts_info, ctx.seed)
    R = c03.rights_consts(sub)
    if R is not None:
        c03.standard_rules(sub, R)
        c03.r2_castle(sub, R)
        c03.r3_en_passant(sub)
    for s in sub.samples:
        inst = s['instance']
        keep = ('rights' in inst or 'row(' in inst or 'ep target' in inst or 'floor' in inst or 'single bits' in inst or 'relocated' in inst)
        if keep:
            ctx.ob('C12.R5-rights-and-ep-tables', s['function'], inst, s['ok'], found=s['found'], expected=s['expected'],
                   why='a castling right still held must imply king and rook on their home squares, and a non-empty en-passant target must lie '
                       'behind a pawn that has just advanced two squares',
                   nontrivial='floor' not in inst)
    r6_index_agreement(ctx)
    r7_summary(ctx)
    # R8: no pawn on the first/eighth rank. Structural necessary conditions: the generator sends every pawn move that lands on the
    #     mover's last rank through the promotion expansion (same rule instances as C01.R7) and a promotion replaces the pawn by the
    #     chosen piece, chosen from {Q,R,B,N} (same rule instances as C03.R4)
    from . import c01
    sub = type(ctx)(ctx.prop, ctx.tier, ctx.facts, ctx.facts_info, ctx.seed)
    c01.r7_promotions(sub)
    c03.r4_promotion(sub)
    n8 = 0
    for s in sub.samples:
        inst = s['instance']
        if 'queen first' in inst:
            continue
        n8 += 1
        ctx.ob('C12.R8-no-pawn-on-last-rank', s['function'], inst, s['ok'], found=s['found'], expected=s['expected'],
               why='a pawn reaching its last rank must leave the board as a piece of {Q,R,B,N}: a last-rank pawn move emitted or applied '
                   'as an ordinary move leaves a pawn on the first/eighth rank',
               nontrivial='floor' not in inst)
    ctx.floor('C12.R8-no-pawn-on-last-rank', 'promotion obligations imported', n8, 6)
    # R9: the states after an undo are reachable states too (every generation and search step applies and undoes on the caller's board):
    #     undo must put back what apply took, where it took it, and pop what apply pushed (same rule instances as C04.R1, R2)
    from . import c04
    sub = type(ctx)(ctx.prop, ctx.tier, ctx.facts, ctx.facts_info, ctx.seed)
    c04.r1_stack_balance(sub)
    c04.r2_mirror(sub)
    n9 = 0
    for s in sub.samples:
        n9 += 1
        ctx.ob('C12.R9-undo-restores', s['function'], s['instance'], s['ok'], found=s['found'], expected=s['expected'],
               why='an undo that restores a piece on another square (or leaves a stack entry behind) breaks the invariants in the state the '
                   'generator and the search continue from: e.g. an en-passant target with no pawn in front of it',
               nontrivial='floor' not in s['instance'])
    ctx.floor('C12.R9-undo-restores', 'undo obligations imported', n9, 20)
