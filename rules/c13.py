"""C13 — standard, unambiguous algebraic notation."""
import itertools

from sa.sym import Engine, show, show_cond, subterms, C, is_const, PathLimit
from .common import *
from .tables import is_true, is_false
import functools as _ft
_Engine = Engine
# these rules look at the closures handed to find / any / for_each / filter themselves (closure and loop form are both handled here)
Engine = _ft.partial(_Engine, iter_adapters=False)

EXPLANATION = (
    'Static clauses: (R1) the disambiguation decision table of get_disambiguating_chars over the atoms {pawn capture, some other like '
    'piece reaches the square, one of them on the same file, one on the same rank} equals the SAN table (pawn capture -> file; no '
    'ambiguity -> nothing; ambiguity not on the file -> file; on the file but not the rank -> rank; both -> square), and the two `any` '
    'predicates compare file with file and rank with rank; (R2) the ambiguity filter keeps exactly the other moves with a different '
    'origin, the same destination and the same piece kind; (R3) label assembly: piece letter, disambiguation, capture mark, '
    'destination, promotion, suffix in this order, with the constants x = + # O-O O-O-O, piece letters in discriminant order, castle '
    'table and suffix table; (R4) labels are built from the effect-annotated legal move list of the same board and player. Uniqueness '
    'of labels per position follows from R1-R3 by the SAN argument given C01/C06 and is NOT separately decided. (R5) the +/# suffix is '
    'read from the stored effect of the move: every listed move is classified from the position it produces (imports C06.R3). (R6) the '
    'labelled list a game shows and resolves typed labels against is the list enumerated NOW for the board and the side to move (no '
    'remembered list), and the typed label is matched by exact string equality against it (imports C14.R3). R1/R2 accept the per-'
    'candidate test written as closure (for_each / filter+collect / extend) or as a plain for loop; file / rank characters are '
    "recognised semantically (character 0 / 1 of the square's algebraic name) whichever helper extracts them. Parameters that every "
    "caller fills with the labelled move's piece / origin / destination are treated as those values (role parameters); a list of the "
    "rivals' origin squares serves as the rival list. Effect variants beyond the four standard ones take the suffix of the row of the "
    'C06 classification table (mate / check atoms) on which they are stored: a DoubleCheck stored where the opponent is in check and '
    "not mated must be written '+'."
)
ASSUMPTIONS = [
    "Iterator::any returns true iff the predicate holds for some element",
    "rustc MIR construction, the chessfacts extractor and the format_args! template decoding are faithful",
]

AN = 'chess::chess_move::algebraic_notation::'
TOALG = 'common::bitboard::square::to_algebraic'


def char_kind(t):
    """('F' | 'R', square term) when t is character 0 / 1 of to_algebraic(square) - however the character is obtained (a helper, chars().next(),
    chars().nth(1), one cursor read twice) -, else None"""
    guard = 0
    while isinstance(t, tuple) and t and guard < 12:
        guard += 1
        if t[0] in ('ref', 'K', 'der', 'disp'):
            t = t[1]
        elif t[0] == 'call' and t[1].endswith('Clone>::clone') and len(t[2]) == 1:
            t = t[2][0]
        elif t[0] == 'fld' and str(t[2]).startswith('Some.0'):
            t = t[1]
        else:
            break
    if isinstance(t, tuple) and t and t[0] == 'charat' and t[2] in (0, 1):
        s = t[1]
        while s[0] in ('ref', 'K', 'der'):
            s = s[1]
        if s[0] == 'call' and s[1] == TOALG and len(s[2]) == 1:
            return ('F' if t[2] == 0 else 'R', s[2][0])
    return None


def mentions_move(sq, who):
    """the square term is from_square() of the analysed move (parameter `who`) / of something else"""
    fs = [s_ for s_ in subterms(sq) if s_[0] == 'call' and s_[1] == CHESSMOVE + '::from_square']
    return bool(fs) and all(any(x == ('p', who) for x in subterms(f_[2][0])) for f_ in fs)


def predicate_tables(ctx, fn_name):
    """closure name -> truth function {(same_file, same_rank): bool} of an `any` predicate over the other move's origin,
    or None when the predicate is not a boolean combination of 'same file' / 'same rank' tests"""
    facts = ctx.facts
    res = {}
    for c in facts.closures_of(fn_name):
        outs = Engine(facts, readonly={TOALG, CHESSMOVE + '::from_square'}).run(c.name)
        ctx.touch(c.name)
        rets = [o for o in outs if o.kind == 'return']

        def atom_kind(a):
            """'F' / 'R' for a comparison of the other move's file/rank char with a captured char, else None"""
            kinds_ = [char_kind(s) for s in subterms(a) if s[0] == 'charat']
            kinds_ = [k_ for k_ in kinds_ if k_ is not None]
            ups = [s for s in subterms(a) if s[0] == 'fld' and str(s[2]).startswith('upvar')]
            if len(kinds_) != 1 or not ups:
                return None
            # the character of the OTHER move's origin (the closure's element, not the captured environment)
            if any(s_[0] == 'fld' and str(s_[2]).startswith('upvar') for s_ in subterms(kinds_[0][1])):
                return None
            return kinds_[0][0]

        def val_of(t, env):
            # t: boolean term over atoms
            if t == C(True):
                return True
            if t == C(False):
                return False
            if t[0] == 'un' and t[1] == 'Not':
                v = val_of(t[2], env)
                return None if v is None else (not v)
            if t[0] in ('eq', 'eqc', 'bin'):
                k = atom_kind(t)
                if k is None:
                    return None
                v = env[k]
                if t[0] == 'bin' and t[1] == 'Ne':
                    v = not v
                if t[0] == 'eqc':
                    # (x == c) form: x itself is a boolean atom
                    inner = val_of(t[1], env) if t[1][0] in ('eq', 'bin', 'un') else None
                    if inner is not None:
                        return inner == bool(t[2])
                return v
            return None
        table = {}
        ok = True
        for sf in (0, 1):
            for sr in (0, 1):
                env = {'F': bool(sf), 'R': bool(sr)}
                vals = set()
                for o in rets:
                    match = True
                    for a, v in o.conds:
                        if a[0] == 'haschar':
                            continue            # the square name has that character (the other branch panics in unwrap)
                        av = val_of(a, env)
                        if av is None:
                            ok = False
                            match = False
                            break
                        want = is_true(v)
                        if av != want:
                            match = False
                            break
                    if match:
                        vals.add(val_of(o.value, env))
                if len(vals) != 1 or None in vals:
                    ok = False
                else:
                    table[(sf, sr)] = vals.pop()
        # which captured char each comparison uses is checked through the upvar's origin in the parent (file char vs rank char)
        res[c.name] = table if ok and len(table) == 4 else None
    return res


def upvar_kinds(ctx, fn_name):
    """for each any-closure: does the captured char compared with the other's FILE come from get_file_char(own origin)? (same for rank)"""
    facts = ctx.facts
    ro = {CHESSMOVE + '::from_square', CHESSMOVE + '::captures', TOALG, AN + 'get_ambiguous_moves'}
    outs = Engine(facts, readonly=ro).run(fn_name)
    kinds = {}
    for o in outs:
        for e in o.events:
            if e[0] == 'closure':
                caps = []
                for up in e[2]:
                    ck = char_kind(up)
                    caps.append(ck[0] if ck is not None and is_own_origin(ck[1]) else '?')
                kinds[e[1]] = caps
    return kinds


def r1_disambiguation(ctx):
    rule = 'C13.R1-disambiguation-table'
    facts = ctx.facts
    name = AN + 'get_disambiguating_chars'
    ro = {CHESSMOVE + '::from_square', CHESSMOVE + '::captures', TOALG, AN + 'get_ambiguous_moves'}
    ROLE.clear()
    ROLE.update(role_params(ctx, name))
    fn_ = facts.need_fn(name)
    piece_p = [i_ for i_ in range(1, fn_.arg_count + 1) if fn_.local_ty(i_) == PIECE_ADT]
    piece_p = ('p', piece_p[0]) if piece_p else ('p', 1)
    outs = Engine(facts, readonly=ro).run(name)
    ctx.touch(name)
    preds = predicate_tables(ctx, name)
    pawn = facts.variant_discr(PIECE_ADT, 'Pawn')
    bad_pred = [k for k, v in preds.items() if v is None]
    if bad_pred or not preds:
        ctx.ob(rule, name, 'any-predicates are boolean combinations of same-file / same-rank tests', False, found=bad_pred or 'no predicate closure',
               expected='predicates over the other move\'s origin file / rank')
        return
    rows = []
    for o in outs:
        if o.kind != 'return':
            continue
        atoms = {'pawn': None, 'capture': None, 'nonempty': None}
        anys = {}
        for a, v in o.conds:
            if a == ('discr', piece_p):
                atoms['pawn'] = 1 if v == pawn else 0
            elif a[0] == 'discr' and a[1][0] == 'call' and a[1][1] == CHESSMOVE + '::captures':
                atoms['capture'] = 1 if v == 1 else 0
            elif a[0] == 'call' and a[1].endswith('Iterator>::any'):
                clo = a[2][1]
                anys[clo[2]] = 1 if is_true(v) else 0
            elif a[0] == 'call' and a[1].endswith('::is_empty'):
                atoms['nonempty'] = 0 if is_true(v) else 1
            elif a[0] == 'call' and a[1].endswith('::len') and isinstance(v, int):
                atoms['nonempty'] = 0 if v == 0 else 1
        val = o.value
        s = show(val)
        if val == C(''):
            out = ''
        elif char_kind(val) is not None and is_own_origin(char_kind(val)[1]):
            out = 'file' if char_kind(val)[0] == 'F' else 'rank'
        elif 'charat' not in s and any(s_[0] == 'call' and s_[1] == TOALG and len(s_[2]) == 1 and is_own_origin(s_[2][0]) for s_ in subterms(val)):
            out = 'square'
        else:
            out = '?' + s[:40]
        rows.append((atoms, anys, out))

    def oracle(pc, R):
        if pc:
            return 'file'
        if not R:
            return ''
        f = (1, 0) in R
        r = (0, 1) in R
        if not f:
            return 'file'
        if not r:
            return 'rank'
        return 'square'
    rivals = [(1, 0), (0, 1), (0, 0)]
    bad = {}
    n = 0
    for pawn_v, cap_v in itertools.product((0, 1), repeat=2):
        for mask in range(8):
            R = {rivals[i] for i in range(3) if mask >> i & 1}
            pc = pawn_v and cap_v
            env_any = {k: int(any(tbl[r] for r in R)) for k, tbl in preds.items()}
            got = set()
            for atoms, anys, out in rows:
                env = {'pawn': pawn_v, 'capture': cap_v, 'nonempty': int(bool(R))}
                if all(atoms[k] is None or atoms[k] == env[k] for k in atoms) and all(env_any.get(k) == v for k, v in anys.items()):
                    got.add(out)
            n += 1
            want = oracle(pc, R)
            if got != {want}:
                desc = ','.join({(1, 0): 'same-file', (0, 1): 'same-rank', (0, 0): 'elsewhere'}[r] for r in sorted(R, reverse=True)) or 'none'
                key = 'row(pawn-capture=%d,rivals=%s)' % (pc, desc)
                bad[key] = (sorted(got), want)
    for key, (got, want) in sorted(bad.items()):
        ctx.ob(rule, name, '%s: %s≠%s' % (key, '/'.join(repr(g) for g in got), repr(want)), False, found=got, expected=want,
               why='the label must carry the minimal file / rank / square disambiguation among like pieces reaching the same square, '
                   'and two such pieces must never share a label')
    if not bad:
        ctx.ob(rule, name, 'decision table equals the SAN disambiguation table (%d rival configurations)' % n, True,
               found={k.rsplit('::', 1)[-1]: {'%d%d' % kk: v for kk, v in tbl.items()} for k, tbl in preds.items()})
    ctx.floor(rule, 'table rows', len(rows), 4)
    # captured characters: the file predicate compares with the mover's own file char, the rank predicate with its rank char
    uk = upvar_kinds(ctx, name)
    okc = bool(uk)
    for cname, caps in uk.items():
        if cname not in preds:
            continue
        tbl = preds.get(cname) or {}
        uses_f = tbl.get((1, 0)) != tbl.get((0, 0)) or tbl.get((1, 1)) != tbl.get((0, 1))
        uses_r = tbl.get((0, 1)) != tbl.get((0, 0)) or tbl.get((1, 1)) != tbl.get((1, 0))
        if uses_f and 'F' not in caps:
            okc = False
        if uses_r and 'R' not in caps:
            okc = False
        if '?' in caps:
            okc = False
    ctx.ob(rule, name, 'predicates compare with the moving piece\'s own file / rank character', okc, found=uk, expected='captured character 0 / 1 of to_algebraic(chess_move.from_square())')


def _strip(t):
    while isinstance(t, tuple) and t and (t[0] in ('ref', 'der') or (t[0] == 'fld' and t[2] == '0' and t[1][0] != 'fld') or t[0] == 'discr'
                                          or (t[0] == 'call' and t[1].endswith('Clone>::clone'))):
        t = t[2][0] if t[0] == 'call' else t[1]
    return t


PIECE_PARAMS = set()
ROLE = {'params': {}, 'move': None}          # roles of the parameters of the function being analysed (see role_params)
MOVE_TY = '&' + CHESSMOVE


def role_params(ctx, name):
    """Roles of the parameters of a notation helper: {'move': index of its `&ChessMove` parameter or None, 'params': {index: 'piece' |
    'from' | 'to'}} for the parameters of type Piece / Bitboard that EVERY caller fills with what it computed from the move being
    labelled - `board.get(m.from_square()).unwrap().0`, `m.from_square()`, `m.to_square()` - where m is the move the caller also hands
    in (or, when the helper takes no move, the one move all these arguments are computed from).  Inside the helper such a parameter IS
    that value of the labelled move ("compute once and pass down")."""
    facts = ctx.facts
    fn_ = facts.need_fn(name)
    tys = {i_: fn_.local_ty(i_) for i_ in range(1, fn_.arg_count + 1)}
    mv_idx = [i_ for i_, t_ in tys.items() if t_ == MOVE_TY]
    res = {'move': mv_idx[0] if len(mv_idx) == 1 else None, 'params': {}}
    cands = [i_ for i_, t_ in tys.items() if t_ in (PIECE_ADT, 'common::bitboard::bitboard::Bitboard')]
    if not cands:
        return res
    sites = facts.call_sites(name, crate='chess', kinds=('lib', 'bin'))
    callers = {(f.closure_of or f.name) for f, _ in sites}

    def classify(t_):
        """(role, move term) of an argument"""
        x = _strip(t_)
        if x[0] == 'call' and x[1] in (CHESSMOVE + '::from_square', CHESSMOVE + '::to_square'):
            return ('from' if x[1].endswith('from_square') else 'to', _strip(x[2][0]))
        if x[0] == 'fld' and x[2] == '0' and x[1][0] == 'fld' and x[1][2] == 'Some.0':
            g = _strip(x[1][1])
            if g[0] == 'call' and g[1] == BOARD + '::get':
                inner = classify(g[2][1])
                if inner and inner[0] == 'from':
                    return ('piece', inner[1])
        return None
    roles = {}
    n_calls = 0
    for c_ in callers:
        outs = Engine(facts, opaque={name}, readonly={CHESSMOVE + '::from_square', CHESSMOVE + '::to_square', BOARD + '::get'}).run(c_)
        for o in outs:
            for e in o.events:
                if e[0] == 'call' and e[1] == name:
                    n_calls += 1
                    args = e[2]
                    cls = {i_: classify(args[i_ - 1]) for i_ in cands}
                    movers = {c2[1] for c2 in cls.values() if c2}
                    if res['move'] is not None:
                        movers.add(_strip(args[res['move'] - 1]))
                    one_move = len(movers) == 1
                    for i_ in cands:
                        r_ = cls[i_][0] if (cls[i_] and one_move) else None
                        if tys[i_] == PIECE_ADT and r_ != 'piece':
                            r_ = None
                        if tys[i_] != PIECE_ADT and r_ == 'piece':
                            r_ = None
                        roles.setdefault(i_, set()).add(r_)
    if n_calls:
        for i_, rs in roles.items():
            if len(rs) == 1 and None not in rs:
                res['params'][i_] = next(iter(rs))
    return res


def piece_params(ctx, name):
    """(kept for the callers that only need the Piece-typed role parameters)"""
    return {i_ for i_, r_ in role_params(ctx, name)['params'].items() if r_ == 'piece'}


def _pp(t):
    """parent-function terms inside a closure body live in their own namespace: ('p', k) of the parent becomes ('pp', k), so that the
    parent's k-th parameter is never mistaken for the closure's own (element) parameter"""
    return tmap(t, lambda x: ('pp', x[1]) if (len(x) == 2 and x[0] == 'p' and isinstance(x[1], int)) else None)


def is_own_origin(sq):
    """sq is the origin square of the move being labelled: from_square() of the function's move parameter, or a parameter every caller
    fills with it"""
    x = _strip(sq)
    if x[0] == 'p' and ROLE['params'].get(x[1]) == 'from':
        return True
    fs = [s_ for s_ in subterms(sq) if s_[0] == 'call' and s_[1] == CHESSMOVE + '::from_square']
    return bool(fs) and ROLE['move'] is not None and all(any(y == ('p', ROLE['move']) for y in subterms(f_[2][0])) for f_ in fs)


def _side(t):
    """classify one side of an equality in the ambiguity filter: (who, what) with who in {elem, move} and what in {from, to, piece}"""
    t = _strip(t)
    par = 'p' if LOOP_FORM else 'pp'          # namespace of the analysed function's own parameters (see _pp)
    if t[0] == 'call' and t[1] in (CHESSMOVE + '::from_square', CHESSMOVE + '::to_square'):
        r_ = _strip(t[2][0])
        if LOOP_FORM:
            # the per-candidate body is a loop body of the function itself: the element is what the iteration is at
            who = 'elem' if is_iteration_element(t[2][0]) else ('move' if (ROLE['move'] is not None and r_ == ('p', ROLE['move'])) else None)
        else:
            who = 'elem' if r_ == ('p', 2) else ('move' if (ROLE['move'] is not None and r_ == ('pp', ROLE['move'])) else None)
        return (who, 'from' if t[1].endswith('from_square') else 'to') if who else None
    # a value of the labelled move handed in by the caller (checked at the call sites by role_params)
    if t[0] == par and ROLE['params'].get(t[1]):
        return ('move', ROLE['params'][t[1]])
    # piece on the origin square: board.get(x.from_square()).Some.0.0 - or board.get(<from parameter>)
    if t[0] == 'fld' and t[2] == '0' and t[1][0] == 'fld' and t[1][2] == 'Some.0':
        g = _strip(t[1][1])
        if g[0] == 'call' and g[1] == BOARD + '::get':
            inner = _side(g[2][1])
            if inner and inner[1] == 'from':
                return (inner[0], 'piece')
    return None


def _atom(t):
    """(what, polarity) for an equality/inequality between the element's and the move's from / to / piece"""
    neg = False
    while t[0] == 'un' and t[1] == 'Not':
        t = t[2]
        neg = not neg
    if t[0] == 'eq':
        a, b = t[1], t[2]
    elif t[0] == 'bin' and t[1] in ('Eq', 'Ne'):
        a, b = t[2], t[3]
        neg = neg != (t[1] == 'Ne')
    elif t[0] == 'call' and (t[1].endswith('PartialEq>::eq') or t[1].endswith('PartialEq>::ne')) and len(t[2]) == 2:
        a, b = t[2]
        neg = neg != t[1].endswith('::ne')
    else:
        return None
    sa, sb = _side(a), _side(b)
    if sa and sb and sa[1] == sb[1] and {sa[0], sb[0]} == {'elem', 'move'}:
        return (sa[1], not neg)
    return None


LOOP_FORM = []          # non-empty while the body analysed is a `for` loop of get_ambiguous_moves itself (see _side)


def loop_filter_table(outs, head, lst):
    """the same truth table for a body written as `for other in candidates.iter() { if .. { list.push(other.clone()) } }`: one row per
    way round the loop (back edge), kept = the element is pushed onto the list the function returns"""
    rows, problems = [], []
    LOOP_FORM.append(1)
    try:
        for o in outs:
            hs = [e for e in o.events if e[0] == 'loop_head' and e[2] == head]
            if o.kind == 'abort' or not hs:
                continue                       # the unwrap of board.get(origin) (an origin square is never empty)
            if o.kind != 'backedge':
                continue
            env = {}
            for a, v in o.conds[hs[0][4]:]:
                if a[0] == 'discr' and _strip(a)[0] == 'call' and (_strip(a)[1] == BOARD + '::get' or _strip(a)[1].endswith('::next')):
                    continue
                k = _atom(a)
                if k is None or not (is_true(v) or is_false(v)):
                    problems.append(show_cond((a, v)))
                    continue
                env[k[0]] = (is_true(v) == k[1])
            pushes = [e for e in o.events if e[0] == 'call' and e[1].endswith('::push')]
            keep = False
            if pushes:
                pel = pushes[0][2][1]
                sp = _strip(pel)
                if sp[0] == 'call' and sp[1] == CHESSMOVE + '::from_square' and len(sp[2]) == 1:
                    pel = sp[2][0]                      # the rival's origin square is kept instead of the rival move
                keep = True if (len(pushes) == 1 and pushes[0][2][0] == ('ref', ('L', 0, lst)) and is_iteration_element(pel)) else None
                if keep is None:
                    problems.append('pushes ' + show(pushes[0][2][1]))
            rows.append((env, keep))
    finally:
        LOOP_FORM.pop()
    table = {}
    for f in (False, True):
        for t in (False, True):
            for p_ in (False, True):
                full = {'from': f, 'to': t, 'piece': p_}
                hits = {keep for env, keep in rows if all(full[k] == v for k, v in env.items())}
                table[(f, t, p_)] = hits.pop() if len(hits) == 1 else None
    return table, problems


def filter_table(ctx, name, clo_name, snaps):
    """truth table kept(from_equal, to_equal, piece_equal) of the per-candidate body, whether it pushes (for_each) or answers (filter)"""
    facts = ctx.facts
    ro = {CHESSMOVE + '::from_square', CHESSMOVE + '::to_square', BOARD + '::get'}
    outs = Engine(facts, readonly=ro).run(clo_name)
    ctx.touch(clo_name)
    rows = []
    problems = []
    for o in outs:
        if o.kind == 'abort':
            continue                       # the unwrap of board.get(origin) (an origin square is never empty)
        if o.kind != 'return':
            problems.append(o.kind)
            continue
        env = {}
        for a, v in o.conds:
            a = subst_upvars(a, [_pp(sn) for sn in snaps])
            if a[0] == 'discr' and _strip(a)[0] == 'call' and _strip(a)[1] == BOARD + '::get':
                continue
            k = _atom(a)
            if k is None or not (is_true(v) or is_false(v)):
                problems.append(show_cond((a, v)))
                continue
            env[k[0]] = (is_true(v) == k[1])
        pushes = [e for e in o.events if e[0] == 'call' and e[1].endswith('::push')]
        val = subst_upvars(o.value, [_pp(sn) for sn in snaps]) if isinstance(o.value, tuple) else o.value
        if pushes:
            el = _strip(pushes[0][2][1])
            # (a list of the rivals' ORIGIN squares instead of the rival moves themselves serves the disambiguation equally: only the
            # origins are ever looked at)
            if el[0] == 'call' and el[1] == CHESSMOVE + '::from_square' and len(el[2]) == 1:
                el = _strip(el[2][0])
            keep = True if el == ('p', 2) else None
            if keep is None:
                problems.append('pushes ' + show(pushes[0][2][1]))
        elif val == ('agg', 'tuple', None, None, ()):
            keep = False
        elif val[0] == 'c':
            keep = bool(val[1])
        else:
            k = _atom(val)
            if k is None:
                problems.append('value ' + show(val))
                keep = None
            else:
                keep = ('atom',) + k
        rows.append((env, keep))
    table = {}
    for f in (False, True):
        for t in (False, True):
            for p_ in (False, True):
                full = {'from': f, 'to': t, 'piece': p_}
                r = None
                for env, keep in rows:
                    if all(full[k] == v for k, v in env.items()):
                        r = (full[keep[1]] == keep[2]) if isinstance(keep, tuple) else keep
                        break
                table[(f, t, p_)] = r
    return table, problems


def r2_filter(ctx):
    """rivals = all candidates with a different origin, the same destination and the same piece kind, for every piece kind"""
    rule = 'C13.R2-ambiguity-filter'
    facts = ctx.facts
    name = AN + 'get_ambiguous_moves'
    ro = {CHESSMOVE + '::from_square', CHESSMOVE + '::to_square', BOARD + '::get'}
    ROLE.clear()
    ROLE.update(role_params(ctx, name))
    PIECE_PARAMS.clear()
    PIECE_PARAMS.update({i_ for i_, r_ in ROLE['params'].items() if r_ == 'piece'})
    outs = Engine(facts, readonly=ro).run(name)
    ctx.touch(name)
    rets = [o for o in outs if o.kind == 'return']
    bad = []
    tables = []
    fn_ = facts.need_fn(name)
    list_params = {('p', i_) for i_ in range(1, fn_.arg_count + 1) if 'SmallVec' in fn_.local_ty(i_) or 'ChessMoveList' in fn_.local_ty(i_) or '[chess::chess_move' in fn_.local_ty(i_)}

    def over_list_param(t_):
        # the whole candidate list handed in by the caller (the rivals are searched among ALL legal moves)
        return any(s_ in list_params for s_ in subterms(t_))
    for o in rets:
        extra = [show_cond(c) for c in o.conds if not (c[0][0] == 'discr' and 'get@' in show(c[0]))]
        clo = [e for e in o.events if e[0] == 'closure' and e[1].startswith(name)]
        form = None
        if len(clo) == 1:
            snaps = clo[0][2]
            scans = [e for e in o.events if e[0] == 'call' and e[1].endswith('::for_each')]
            filt = [e for e in o.events if e[0] == 'call' and e[1].endswith('Iterator::filter')]
            if scans and over_list_param(scans[0][2][0]) and scans[0][2][1][0] == 'agg' and scans[0][2][1][2] == clo[0][1]:
                # the list returned is the list the body pushes onto
                lists = [sn for sn in snaps if sn == o.value]
                form = 'for_each' if lists else None
            elif filt and over_list_param(filt[0][2][0]) and filt[0][2][1][0] == 'agg' and filt[0][2][1][2] == clo[0][1]:
                # returned = collect(cloned(filter(candidates.iter(), body)))
                v = o.value
                chain = []
                while v[0] == 'call' and v[1].split('::')[-1] in ('collect', 'cloned', 'copied') and len(v[2]) == 1:
                    chain.append(v[1].split('::')[-1])
                    v = v[2][0]
                if v[0] == 'call' and v[1].endswith('Iterator::filter') and v[2] == filt[0][2] and chain and chain[0] == 'collect':
                    form = 'filter'
                # returned = a fresh list extended with cloned(filter(candidates.iter(), body))
                ext = [e for e in o.events if e[0] == 'call' and 'Extend' in e[1] and e[1].endswith('::extend')]
                if form is None and len(ext) == 1 and o.value == ('hv', ext[0][3]):
                    v = ext[0][2][1]
                    while v[0] == 'call' and v[1].split('::')[-1] in ('cloned', 'copied') and len(v[2]) == 1:
                        v = v[2][0]
                    pre = dict(ext[0][6]).get(0) if len(ext[0]) > 6 else None
                    fresh = pre is not None and pre[0] == 'call' and pre[1].endswith('::new') and not pre[2]
                    if v[0] == 'call' and v[1].endswith('Iterator::filter') and v[2] == filt[0][2] and fresh:
                        form = 'filter'
            if form:
                tables.append((form,) + filter_table(ctx, name, clo[0][1], snaps))
        elif not clo and o.value is not None and o.value[0] == 'lv':
            # a plain `for` loop over the candidate list pushing onto a fresh list that is returned
            head, lst = o.value[1], o.value[2]
            hs = [e for e in o.events if e[0] == 'loop_head' and e[2] == head]
            srcs = [sv for h_, sv, _ in iteration_sources(o) if h_ == head]
            pre = hs[0][3].get(lst) if hs else None
            fresh = pre is not None and pre[0] == 'call' and pre[1].endswith('::new') and not pre[2]
            if hs and len(srcs) == 1 and over_list_param(srcs[0]) and fresh:
                form = 'loop'
                extra = [x for x, c in zip(extra, [c for c in o.conds if not (c[0][0] == 'discr' and 'get@' in show(c[0]))])
                         if not (c[0][0] == 'discr' and c[0][1][0] == 'call' and c[0][1][1].endswith('::next') and c[1] == 0)]
                tables.append((form,) + loop_filter_table(outs, head, lst))
        if extra or not form:
            bad.append({'conds': [show_cond(c) for c in o.conds], 'returns': show(o.value)[:160]})
    ctx.ob(rule, name, 'every return scans all candidate moves with the filter, for every piece kind', len(rets) >= 1 and not bad, found=bad or '%d return path(s)' % len(rets),
           expected='candidate_moves.iter().for_each(filter capturing from/to/piece of this move) on every non-panicking path, under no further condition',
           why='a rival left out of the scan (early return for some piece kind or square) yields two legal moves with the same label')
    want = {(f, t, p_): ((not f) and t and p_) for f in (False, True) for t in (False, True) for p_ in (False, True)}
    ok = bool(tables) and all(tb == want and not pr for _, tb, pr in tables)
    ctx.ob(rule, name, 'kept iff different origin, same destination, same piece kind', ok,
           found=[{'form': fm, 'kept': sorted(str(k) for k, v in tb.items() if v), 'undecided': sorted(str(k) for k, v in tb.items() if v is None), 'unrecognised': pr}
                  for fm, tb, pr in tables],
           expected='other.from != from && other.to == to && other_piece == piece')


def label_parts(ctx):
    """Ok-outcomes of chess_move_to_algebraic_notation as ordered part lists"""
    facts = ctx.facts
    name = AN + 'chess_move_to_algebraic_notation'
    helpers = ['get_check_or_checkmate_char', 'algebraic_castle', 'get_ambiguous_moves', 'get_disambiguating_chars', 'get_capture_char', 'get_promotion_chars']
    ro = {AN + h for h in helpers} | {TOALG, BOARD + '::get', CHESSMOVE + '::from_square', CHESSMOVE + '::to_square',
                                      'chess::board::piece::Piece::to_algebraic_str'}
    outs = Engine(facts, readonly=ro).run(name)
    ctx.touch(name)
    res = []
    for o in outs:
        if o.kind == 'return' and is_ok_result(o.value):
            v = dict(o.value[4])['0']
            parts = list(v[1]) if v[0] == 'concat' else [v]
            res.append((o, parts))
    return name, res


def part_name(p):
    s = show(p)
    for k in ('get_check_or_checkmate_char', 'algebraic_castle', 'get_disambiguating_chars', 'get_capture_char', 'get_promotion_chars', 'to_algebraic_str', 'to_algebraic'):
        if k in s.split('(')[0] or ('{' + k) in s[:40] or s.lstrip('{*').startswith(k):
            return k
    return s[:30]


def r3_assembly(ctx):
    rule = 'C13.R3-label-assembly'
    facts = ctx.facts
    name, res = label_parts(ctx)
    castle_rows = [(o, p) for o, p in res if any(part_name(x) == 'algebraic_castle' for x in p)]
    normal_rows = [(o, p) for o, p in res if not any(part_name(x) == 'algebraic_castle' for x in p)]
    okc = bool(castle_rows) and all([part_name(x) for x in p] == ['algebraic_castle', 'get_check_or_checkmate_char'] for o, p in castle_rows)
    ctx.ob(rule, name, 'castle label = castle text + suffix', okc, found=[[part_name(x) for x in p] for o, p in castle_rows][:2], expected=['algebraic_castle', 'suffix'])
    want = ['to_algebraic_str', 'get_disambiguating_chars', 'get_capture_char', 'to_algebraic', 'get_promotion_chars', 'get_check_or_checkmate_char']
    okn = bool(normal_rows) and all([part_name(x) for x in p] == want for o, p in normal_rows)
    ctx.ob(rule, name, 'label = piece, disambiguation, capture, destination, promotion, suffix', okn, found=[[part_name(x) for x in p] for o, p in normal_rows][:2], expected=want,
           why='the parts of a SAN label come in a fixed order')
    # arguments: all about the same move; destination = to_square; piece = piece on from_square
    oka = True
    for o, p in normal_rows:
        s = [show(x) for x in p]
        oka = oka and 'to_square' in s[3] and 'from_square' in s[0] and 'get@' in s[0]
    ctx.ob(rule, name, 'piece letter of the piece on the origin, destination = to_square of the same move', oka and bool(normal_rows), found=[show(x)[:60] for x in normal_rows[0][1]] if normal_rows else None)
    # constant tables
    consts = facts.consts
    strs = consts.get('chess::board::piece::ALGEBRAIC_PIECE_STRS')
    pd = sorted(facts.adts[PIECE_ADT]['variants'], key=lambda v: v['discr'])
    wantp = {'Pawn': '', 'Knight': 'N', 'Bishop': 'B', 'Rook': 'R', 'Queen': 'Q', 'King': 'K'}
    gotp = {v['name']: strs[1][v['discr']] for v in pd} if isinstance(strs, tuple) and strs[0] == 'array' and len(strs[1]) == 6 else None
    ctx.ob(rule, 'chess::board::piece::ALGEBRAIC_PIECE_STRS', 'piece letters by discriminant', gotp == wantp, found=gotp, expected=wantp)
    tas = 'chess::board::piece::Piece::to_algebraic_str'
    outs = Engine(facts).run(tas)
    rets = [o for o in outs if o.kind == 'return']
    rv = strval(rets[0].value) if rets else ('unk',)
    okt = len(rets) == 1 and rv[0] == 'idx' and rv[1] == ('named', 'chess::board::piece::ALGEBRAIC_PIECE_STRS') and \
        rv[2] == ('cast', ('discr', ('der', ('p', 1))), 'usize')
    ctx.ob(rule, tas, 'ALGEBRAIC_PIECE_STRS[piece as usize]', okt, found=show(rets[0].value) if rets else None)
    for cname, wantv in (('CAPTURE_CHAR', 'x'), ('CASTLE_KINGSIDE_CHARS', 'O-O'), ('CASTLE_QUEENSIDE_CHARS', 'O-O-O'), ('CHECKMATE_CHAR', '#'), ('CHECK_CHAR', '+'),
                         ('PROMOTION_CHAR', '='), ('EMPTY_STRING', '')):
        ctx.ob(rule, AN + cname, 'constant %r' % wantv, consts.get(AN + cname) == wantv, found=consts.get(AN + cname), expected=wantv, nontrivial=False)
    # suffix table
    n2 = AN + 'get_check_or_checkmate_char'
    outs = Engine(facts, readonly={CHESSMOVE + '::effect'}).run(n2)
    ctx.touch(n2)
    eff = {v['discr']: v['name'] for v in facts.adts['chess::chess_move::chess_move_effect::ChessMoveEffect']['variants']}
    tbl = {}
    for o in outs:
        val = strval(o.value) if o.value else None
        if o.kind == 'return' and val is not None and is_const(val):
            for a, v in o.conds:
                if a[0] == 'discr':
                    if isinstance(v, int):
                        tbl[eff[v]] = val[1]
                    else:
                        for d, nme in eff.items():
                            if d not in v[1]:
                                tbl[nme] = val[1]
    wants = {'Check': '+', 'Checkmate': '#', 'None': '', 'NotYetCalculated': ''}
    # further effect variants take the suffix of the row of the classification table they refine (a DoubleCheck stored where the mover's
    # opponent is in check and not mated is written '+')
    from . import c06 as _c06
    try:
        for key_, vs in _c06.effect_rows(facts).items():
            mark = '#' if key_[0] == 1 else '+' if key_[1] == 1 else '' if key_ == (0, 0) else None
            for v_ in vs:
                if mark is not None:
                    wants.setdefault(v_, mark)
    except PathLimit:
        pass
    ctx.ob(rule, n2, 'suffix table Check->+, Checkmate->#, else nothing', tbl == wants, found=tbl, expected=wants)
    # castle table
    n3 = AN + 'algebraic_castle'
    outs = Engine(facts).run(n3)
    ctx.touch(n3)
    tblc = {}
    for o in outs:
        if o.kind == 'return' and is_const(o.value):
            sqs = tuple(sq_name(v) for a, v in o.conds if isinstance(v, int) and sq_name(v))
            tblc[sqs] = o.value[1]
    wantc = {('e1', 'g1'): 'O-O', ('e8', 'g8'): 'O-O', ('e1', 'c1'): 'O-O-O', ('e8', 'c8'): 'O-O-O'}
    ctx.ob(rule, n3, 'castle table', tblc == wantc, found={'%s%s' % k: v for k, v in tblc.items()}, expected={'%s%s' % k: v for k, v in wantc.items()})
    # capture char / promotion chars
    n4 = AN + 'get_capture_char'
    outs = Engine(facts, readonly={CHESSMOVE + '::captures'}).run(n4)
    tb = {}
    for o in outs:
        val = strval(o.value) if o.value else None
        if o.kind == 'return' and val is not None and is_const(val):
            for a, v in o.conds:
                if a[0] == 'discr':
                    tb['capture' if v == 1 else 'quiet'] = val[1]
    ctx.ob(rule, n4, 'x iff the move captures', tb == {'capture': 'x', 'quiet': ''}, found=tb, expected={'capture': 'x', 'quiet': ''})
    n5 = AN + 'get_promotion_chars'
    outs = Engine(facts, readonly={'chess::board::piece::Piece::to_algebraic_str', KINDS['promotion'] + '::promote_to_piece'}).run(n5)
    pv = {v['name']: v['discr'] for v in facts.adts[CHESSMOVE]['variants']}
    okp = False
    oke = True
    for o in outs:
        if o.kind != 'return':
            continue
        d = dict(o.conds).get(('discr', ('der', ('p', 1))))
        if d == pv['PawnPromotion']:
            v = o.value
            parts = list(v[1]) if v[0] == 'concat' else [v]
            okp = len(parts) == 2 and parts[0] == C('=') and 'to_algebraic_str' in show(parts[1]) and 'promote_to_piece' in show(parts[1])
        else:
            oke = oke and o.value == C('')
    ctx.ob(rule, n5, '"=" + piece letter for promotions, nothing otherwise', okp and oke, expected='=Q/=R/=B/=N')


def r4_source(ctx):
    rule = 'C13.R4-label-source'
    facts = ctx.facts
    name = AN + 'enumerate_candidate_moves_with_algebraic_notation'
    gen = 'chess::move_generator::MoveGenerator::generate_moves_and_lazily_update_chess_move_effects'
    lab = AN + 'chess_move_to_algebraic_notation'
    outs = _Engine(facts, opaque={gen, lab}, iter_adapters=True).run(name)
    ctx.touch(name)
    ok, okc, n = True, True, 0
    for o in outs:
        if o.kind != 'backedge':
            continue
        g = [e for e in o.events if e[0] == 'call' and e[1] == gen]
        ls = [e for e in o.events if e[0] == 'call' and e[1] == lab]
        if not ls:
            continue
        n += 1
        has_gen = lambda t: any(s_[0] == 'call' and s_[1] == gen for s_ in subterms(t))
        src = iteration_sources(o)
        ok = ok and len(g) == 1 and g[0][2][1] == ('ref', ('der', ('p', 1))) and g[0][2][2] == ('p', 2) and any(has_gen(x[1]) and set(x[2]) <= {'map', 'cloned', 'copied', 'enumerate'} for x in src)
        a = ls[0][2]
        okc = okc and len(ls) == 1 and is_iteration_element(a[0]) and has_gen(a[2]) and strip_refs_t(a[1]) == ('p', 1)
        push = [e for e in o.events if e[0] == 'call' and e[1].endswith('::push')]
        okc = okc and len(push) == 1 and push[0][2][1][0] == 'agg' and is_iteration_element(push[0][2][1][4][0][1]) and \
            any(s_ == ('call', lab, ls[0][2], ls[0][3]) for s_ in subterms(push[0][2][1][4][1][1]))
    ctx.ob(rule, name, 'labels are computed for the effect-annotated legal moves of (board, player)', ok and n >= 1,
           expected='generate_moves_and_lazily_update_chess_move_effects(board, player) then label each')
    ctx.ob(rule, name, 'each move is labelled against the whole candidate list', okc and n >= 1, expected='push((m.clone(), chess_move_to_algebraic_notation(m, board, &candidate_moves)))',
           nontrivial=False)


def r5_suffix_source(ctx):
    """the +/# suffix is read from the move's stored effect: every listed move must have been classified from the position it
    produces (= C06.R3, same rule instances)"""
    from . import c06
    sub = type(ctx)(ctx.prop, ctx.tier, ctx.facts, ctx.facts_info, ctx.seed)
    c06.r3_annotation(sub)
    n = 0
    for s in sub.samples:
        n += 1
        ctx.ob('C13.R5-suffix-source', s['function'], s['instance'], s['ok'], found=s['found'], expected=s['expected'],
               why='a move whose effect was stamped without looking (or never computed) is labelled without its + or #',
               nontrivial='floor' not in s['instance'])
    ctx.floor('C13.R5-suffix-source', 'annotation obligations imported', n, 8)


def r6_listing_is_current(ctx):
    """the labelled list a game shows (and resolves typed labels against) is the list enumerated NOW for the board and the side to move:
    Game::enumerated_candidate_moves returns enumerate_candidate_moves_with_algebraic_notation(board, turn, generator) itself, and the
    notation input path searches the list enumerated on that path (= C14.R3) - a remembered list keyed by the position key alone belongs
    to the other side when the same placement recurs after a lost tempo"""
    rule = 'C13.R6-listing-is-current'
    facts = ctx.facts
    name = 'chess::game::game::Game::enumerated_candidate_moves'
    enum_fn = AN + 'enumerate_candidate_moves_with_algebraic_notation'
    outs = _Engine(facts, opaque={enum_fn}, readonly={BOARD + '::turn'}).run(name)
    ctx.touch(name)
    rets = [o for o in outs if o.kind == 'return']
    ok = bool(rets)
    found = []
    for o in rets:
        v = o.value
        calls = [e for e in o.events if e[0] == 'call' and e[1] == enum_fn]
        found.append(show(v)[:120])
        fresh = len(calls) == 1 and v == ('call', enum_fn, calls[0][2], calls[0][3])
        args_ok = fresh and any(s_[0] == 'fld' and s_[2] == 'board' for s_ in subterms(calls[0][2][0])) and \
            any(s_[0] == 'call' and s_[1] == BOARD + '::turn' for s_ in subterms(calls[0][2][1]))
        ok = ok and fresh and args_ok and not [c for c in o.conds if not (c[0][0] == 'discr')]
    ctx.ob(rule, name, 'returns the list enumerated now for (board, side to move), on every path', ok, found=found[:2],
           expected='enumerate_candidate_moves_with_algebraic_notation(&self.board, self.board.turn(), &mut self.move_generator)',
           why='every legal move of the CURRENT position gets its label: a list remembered for an equal position key may be the other side\'s')
    from . import c14
    import_rules(ctx, rule, [c14.r3_selection],
                 'a typed label is resolved against the labels of the current position',
                 keep=lambda s: 'algebraic_notation' in s['function'] or 'floor' in s['instance'], floor=1)


def run(ctx):
    r6_listing_is_current(ctx)
    r1_disambiguation(ctx)
    r2_filter(ctx)
    r3_assembly(ctx)
    r4_source(ctx)
    r5_suffix_source(ctx)
