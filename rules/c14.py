"""C14 — typed moves: accepted iff legal, played exactly, rejected without effect."""
from sa.sym import Engine, show, show_cond, subterms, C, is_const, PathLimit
from sa import rx
from .common import *
from .tables import is_true, is_false
import functools as _ft
_Engine = Engine
# these rules look at the closures handed to find / any / for_each / filter themselves (closure and loop form are both handled here)
Engine = _ft.partial(_Engine, iter_adapters=False)

EXPLANATION = (
    'Static clauses: (R1) every path of the two input entry points that rejects (Err(InvalidMove)) has called no mutator of the board '
    "or the history - only the (board-neutral, C04.R4) generators; (R2) every function that plays a move on the game's board records it"
    " in the history with the same move on exactly its Ok paths; (R3) the move played is the first element of the generator's list "
    'matching the typed (from,to) pair resp. the typed label, and the queen is the first promotion generated, so a coordinate pair '
    'naming a promotion plays the queen; (R4) input language: every label the SAN writer can produce (regular language rebuilt from the'
    " writer's own constants and structure) is accepted by the command-line's notation pattern, none is mistaken for a coordinate pair,"
    ' and the captured group handed to the game is the whole label; (R5) typed coordinates are converted with square_string_to_bitboard'
    " (table checked under C19.R1). 'Accepted iff legal' as such is NOT decided (C01, C13). R1/R3 accept the first-match search as "
    'Iterator::find, as a helper function written as a first-match loop (finder summary), or as a for loop of the entry point itself '
    '(non-matching iterations without effects, exhaustion = Err(InvalidMove)). R2: apply_chess_move applies its own parameter; (R6) '
    'imports all clauses of C01; (R7) imports the label rules of C13. R4: the coordinate pattern may carry a third, optional group '
    'naming the promotion piece (exactly q r b n).'
)
ASSUMPTIONS = [
    "a pawn move that does not capture is never ambiguous (two pawns of one colour reach the same square only by capturing)",
    "regex crate semantics for the subset of syntax used; Iterator::find returns the first match",
    "rustc MIR construction and the chessfacts extractor are faithful",
]

GAME = 'chess::game::game::Game'
AN = 'chess::chess_move::algebraic_notation::'
ENUM = AN + 'enumerate_candidate_moves_with_algebraic_notation'
GEN = 'chess::move_generator::MoveGenerator::generate_moves'
AP = CHESSMOVE + '::apply'
SAVE = GAME + '::save_move'
IH = 'chess::input_handler::parse_player_move_input'


def game_outcomes(ctx, m, extra_opaque=()):
    facts = ctx.facts
    name = GAME + '::' + m
    opaque = {n for n in facts.fns if n.startswith('chess::move_generator')} | {AP, SAVE, ENUM, GAME + '::select_alpha_beta_best_move',
                                                                                 GAME + '::select_waterfall_book_then_alpha_beta_best_move'} | set(extra_opaque)
    ctx.touch(name)
    try:
        return name, Engine(facts, opaque=opaque).run(name)
    except PathLimit:
        # the path grew helpers outside the game module (evaluation, generation): keep those as opaque calls - what matters here is which
        # board / history mutators a path performs, and those stay visible as events
        return name, Engine(facts, opaque=opaque, inline_filter=lambda n, c: n.startswith('chess::game::')).run(name)


def r1_reject_purity(ctx):
    rule = 'C14.R1-reject-purity'
    n = 0
    for m in ('apply_chess_move_by_from_to_coordinates', 'apply_chess_move_from_raw_algebraic_notation'):
        name, outs = game_outcomes(ctx, m)
        rej = [o for o in outs if o.kind == 'return' and any(s[0] == 'agg' and s[3] == 'InvalidMove' for s in subterms(o.value))]
        if not rej:
            ctx.ob(rule, name, 'a rejecting path exists', False, found='none', expected='Err(InvalidMove) when nothing matches')
            continue
        for o in rej:
            n += 1
            muts = [e[1] for e in o.events if e[0] == 'call' and (e[1] in (AP, SAVE) or (e[1].startswith(BOARD + '::') and method(e[1]) in BOARD_MUTATORS)
                                                                  or 'move_history' in show(e[2][0]) if e[2] else False)]
            writes = [show(e[1]) for e in o.events if e[0] == 'write']
            nomatch = [c for c in o.conds if c[0][0] == 'discr' and c[0][1][0] == 'call' and (c[0][1][1].endswith('::find') or finder_summary(ctx.facts, c[0][1][1]))
                       and (c[1] == 0 or (isinstance(c[1], tuple) and c[1][0] == 'not' and 1 in c[1][1]))]
            if not nomatch:
                # first-match search written as a loop of the entry point: rejecting = the loop ran out of candidates
                lp = inline_search(ctx.facts, outs, ENUM if 'algebraic' in m else GEN)
                if lp and any(o is x for x in lp['exhausted']):
                    nomatch = [c for c in o.conds if c[0][0] == 'discr' and c[0][1][0] == 'call' and c[0][1][1].endswith('::next') and c[1] == 0]
            ctx.ob(rule, name, 'reject path: nothing applied, nothing recorded', not muts and not writes and bool(nomatch),
                   found={'mutators': muts, 'writes': writes, 'guard': [show_cond(c)[:100] for c in nomatch]}, expected='only generation before Err(InvalidMove)',
                   why='a rejected input must leave position, counters and history exactly as they were')
    ctx.floor(rule, 'rejecting paths', n, 2)


def r2_accept_pairing(ctx):
    rule = 'C14.R2-accept-pairing'
    for m in ('apply_chess_move', 'make_alpha_beta_best_move', 'make_waterfall_book_then_alpha_beta_move'):
        name, outs = game_outcomes(ctx, m)
        rets = [o for o in outs if o.kind == 'return']
        n_ok = 0
        bad = []
        for o in rets:
            ap = [e for e in o.events if e[0] == 'call' and e[1] == AP]
            sv = [e for e in o.events if e[0] == 'call' and e[1] == SAVE]
            if is_ok_result(o.value):
                n_ok += 1
                good = len(ap) == 1 and len(sv) == 1 and ap[0][2][1] == ('ref', ('fld', ('der', ('p', 1)), 'board')) and \
                    strip(sv[0][2][1]) == strip(ap[0][2][0]) and o.events.index(ap[0]) < o.events.index(sv[0])
                applied_ok = [c for c in o.conds if c[0] == ('discr', ('call', AP, ap[0][2], ap[0][3])) and c[1] == 0] if ap else []
                # apply_chess_move plays THE move it is handed (not a rewritten copy: a promotion keeps the piece the caller chose)
                if good and m == 'apply_chess_move' and strip(ap[0][2][0]) != ('p', 2):
                    good = False
                if not (good and applied_ok):
                    bad.append(('ok-path', [e[1].rsplit('::', 1)[-1] for e in ap + sv]))
            else:
                if sv:
                    bad.append(('err-path saves', show(o.value)[:60]))
        ctx.ob(rule, name, 'Ok paths: apply on the game board succeeded, then save_move(same move); Err paths record nothing', not bad and n_ok > 0,
               found=bad[:3], expected='apply(&mut self.board) == Ok => save_move(move)',
               why='an accepted input plays precisely that move and records it in the game history')
    name = GAME + '::save_move'
    outs = Engine(ctx.facts).run(name)
    ok = any(e[0] == 'call' and e[1].endswith('Vec::<T, A>::push') and 'move_history' in show(e[2][0]) and e[2][1] == ('p', 2) for o in outs for e in o.events)
    ctx.ob(rule, name, 'appends the move to the history', ok, expected='self.move_history.push(chess_move)')


def strip(t):
    while True:
        if t[0] == 'ref':
            t = t[1]
        elif t[0] in ('K',):
            t = t[1]
        elif t[0] == 'der':
            t = t[1]
        elif t[0] == 'call' and t[1].endswith('Clone>::clone'):
            t = t[2][0]
        else:
            return t


STR_EQ = {'<std::string::String as std::cmp::PartialEq>::eq', '<str as std::cmp::PartialEq>::eq', '<std::string::String as std::cmp::PartialEq<str>>::eq',
          '<std::string::String as std::cmp::PartialEq<&str>>::eq', '<str as std::cmp::PartialEq<std::string::String>>::eq',
          '<&str as std::cmp::PartialEq<std::string::String>>::eq'}
STR_VIEWS = ('String::as_str', 'Deref>::deref', 'AsRef<str>>::as_ref', 'Borrow<str>>::borrow')


def str_strip(t):
    """look through references, derefs and borrowed views of a string"""
    while True:
        t2 = strip(t)
        if t2[0] == 'call' and any(t2[1].endswith(v) for v in STR_VIEWS) and len(t2[2]) == 1:
            t2 = t2[2][0]
        if t2 == t:
            return t
        t = t2


def closure_snapshots(outs, name):
    for o in outs:
        for e in o.events:
            if e[0] == 'closure' and e[1].startswith(name):
                return list(e[2])
    return []


def searched_list_is(find_event, list_call):
    """the iterator handed to `find` walks the list produced by `list_call` on this path (not a stored copy of an earlier one)"""
    recv = find_event[2][0]
    pre = dict(find_event[6]).get(0) if len(find_event) > 6 else None
    for t in (pre, recv):
        if t is not None and any(s_ == list_call for s_ in subterms(t)):
            return True
    return False


def inline_search(facts, outs, list_fn):
    """A first-match search written as a `for` loop of the entry point itself (`for m in list.iter() { if pred(m) { play m; return } }
    Err(InvalidMove)`).  Returns None when the paths do not have that shape, else {'head', 'hit': [paths leaving the loop on a match],
    'miss': [back-edge paths], 'exhausted': [paths after the iterator ran out], 'list_call': the generating call}.  Required: the loop
    walks the list produced by the one call of `list_fn` on the path; an iteration that does not leave the loop performs no board /
    history mutation and writes nothing (so the first match decides); paths leaving from inside the loop passed the predicate."""
    res = {'hit': [], 'miss': [], 'exhausted': [], 'head': None, 'list_call': None}
    for o in outs:
        if o.kind == 'abort':
            continue
        gen = [e for e in o.events if e[0] == 'call' and e[1] == list_fn]
        hs = [e for e in o.events if e[0] == 'loop_head' and not isinstance(e[2], tuple)]
        if len(gen) != 1 or len(hs) != 1:
            return None
        lc = ('call', list_fn, gen[0][2], gen[0][3])
        srcs = [sv for h_, sv, _ in iteration_sources(o) if h_ == hs[0][2]]
        if len(srcs) != 1 or not any(s_ == lc for s_ in subterms(srcs[0])) or o.events.index(gen[0]) > o.events.index(hs[0]):
            return None
        if res['head'] not in (None, hs[0][2]):
            return None
        res['head'], res['list_call'] = hs[0][2], lc
        inside = o.conds[hs[0][4]:]
        nxt = [c for c in inside if c[0][0] == 'discr' and c[0][1][0] == 'call' and c[0][1][1].endswith('::next')]
        if len(nxt) != 1 or o.conds[:hs[0][4]]:
            return None
        after = o.events[o.events.index(hs[0]) + 1:]
        if nxt[0][1] == 0:
            if o.kind != 'return' or len(inside) != 1:
                return None
            res['exhausted'].append(o)
        elif o.kind == 'backedge':
            if any(e[0] == 'write' or (e[0] == 'call' and (e[1] in (AP, SAVE) or (e[1].startswith(BOARD + '::') and method(e[1]) in BOARD_MUTATORS))) for e in after):
                return None
            res['miss'].append((o, [c for c in inside if c is not nxt[0]]))
        elif o.kind == 'return':
            res['hit'].append((o, [c for c in inside if c is not nxt[0]]))
        else:
            return None
    return res if res['hit'] and res['miss'] and res['exhausted'] else None


def r3_selection(ctx):
    rule = 'C14.R3-selection'
    facts = ctx.facts
    # coordinates
    name, outs = game_outcomes(ctx, 'apply_chess_move_by_from_to_coordinates')
    oks = []
    for o in outs:
        if o.kind == 'return' and is_ok_result(o.value):
            ap = [e for e in o.events if e[0] == 'call' and e[1] == AP]
            gen = [e for e in o.events if e[0] == 'call' and e[1] == GEN]
            fnd = find_events(facts, o)
            ok1 = False
            if ap and gen and fnd:
                ok1 = len(gen) == 1 and len(fnd) == 1 and o.events.index(gen[0]) < o.events.index(fnd[0]) and \
                    gen[0][2][1] == ('ref', ('fld', ('der', ('p', 1)), 'board')) and \
                    'turn' in show(gen[0][2][2]) and any(s == ('call', fnd[0][1], fnd[0][2], fnd[0][3]) for s in subterms(ap[0][2][0])) and \
                    strip(dict(o.value[4])['0']) == strip(ap[0][2][0]) and searched_list_is(fnd[0], ('call', GEN, gen[0][2], gen[0][3]))
            oks.append(ok1)
    ok = bool(oks) and all(oks)
    ctx.ob(rule, name, 'plays and returns the first generated move of the side to move matching the predicate', ok,
           expected='generate_moves(board, board.turn()).iter().find(pred)')
    # predicate as a truth function of the two atoms (move.from == typed from), (move.to == typed to)
    pred_ok, found = False, None
    fc = find_closures(outs)
    if len(fc) == 1:
        cname, snaps = next(iter(fc.items()))
        ctx.touch(cname)
        table, atoms, okrows = coordinate_predicate(facts, cname, snaps)
        found = {'compared with': atoms, 'table': {str(k): v for k, v in table.items()}}
        pred_ok = okrows and table == AND_TABLE and atoms == {'from_square': 'arg2', 'to_square': 'arg3'}
    elif not fc:
        # the first-match search lives in a helper written as a loop: its summary gives the predicate, the call site the operands
        calls = {(e[1], tuple(e[2])) for o in outs for e in find_events(facts, o) if finder_summary(facts, e[1])}
        if len(calls) == 1:
            fname, fargs = next(iter(calls))
            fs = finder_summary(facts, fname)
            ctx.touch(fname)
            ops = {k: show(strip(fargs[i_ - 1])) for k, i_ in fs['params'].items()}
            found = {'helper': fname, 'compared with': ops, 'table': {str(k): v for k, v in fs['table'].items()}}
            pred_ok = fs['table'] == AND_TABLE and ops == {'from_square': 'arg2', 'to_square': 'arg3'}
    ctx.ob(rule, name, 'predicate: from == typed from && to == typed to', pred_ok, found=found, expected='m.from_square() == from && m.to_square() == to (exact equality on both squares)')
    # notation
    name, outs = game_outcomes(ctx, 'apply_chess_move_from_raw_algebraic_notation')
    oks = []
    for o in outs:
        if o.kind == 'return' and is_ok_result(o.value):
            en = [e for e in o.events if e[0] == 'call' and e[1] == ENUM]
            fnd = [e for e in o.events if e[0] == 'call' and (e[1].endswith('::find') and 'Iterator' in e[1])]
            ap = [e for e in o.events if e[0] == 'call' and e[1] == AP]
            ok1 = False
            if en and fnd and ap:
                ok1 = len(en) == 1 and len(fnd) == 1 and o.events.index(en[0]) < o.events.index(fnd[0]) and \
                    en[0][2][0] == ('ref', ('fld', ('der', ('p', 1)), 'board')) and \
                    'turn' in show(en[0][2][1]) and any(s[0] == 'call' and (s[1].endswith('::find') and 'Iterator' in s[1]) for s in subterms(ap[0][2][0])) and \
                    searched_list_is(fnd[0], ('call', ENUM, en[0][2], en[0][3]))
            oks.append(ok1)
    ok = bool(oks) and all(oks)        # every accepting path: a remembered list (of another moment, possibly another side to move) is not the list of now
    loop = inline_search(facts, outs, ENUM) if not ok else None
    if loop:
        # the search is a loop of the entry point itself: the pair played is the element the loop stands at when its label matched
        en = loop['list_call']
        ok = en[2][0] == ('ref', ('fld', ('der', ('p', 1)), 'board')) and 'turn' in show(en[2][1])
        for o, cs in loop['hit']:
            ap = [e for e in o.events if e[0] == 'call' and e[1] == AP]
            el = strip(ap[0][2][0]) if ap else ('unk',)
            ok = ok and len(ap) == 1 and el[0] == 'fld' and el[2] == '0' and is_iteration_element(el[1])
            if is_ok_result(o.value):
                ok = ok and strip(dict(o.value[4])['0']) == el
    ctx.ob(rule, name, 'plays the first (move, label) pair of the side to move whose label equals the input', ok, expected='enumerate(..).iter().find(|m| m.1 == input).0')
    pred_ok, found = False, None
    fc = find_closures(outs)
    for cname, snaps in fc.items():
        o2 = Engine(facts).run(cname)
        ctx.touch(cname)
        rets = [o for o in o2 if o.kind == 'return']
        found = [(show(o.value), [show_cond(x) for x in o.conds]) for o in o2]
        if len(o2) == 1 and len(rets) == 1 and not rets[0].conds:
            v = rets[0].value
            if v[0] == 'call' and v[1] in STR_EQ and len(v[2]) == 2:
                a, b = str_strip(v[2][0]), str_strip(v[2][1])
                if b[0] == 'fld' and b[2] == '1':
                    a, b = b, a
                pred_ok = a[0] == 'fld' and a[2] == '1' and strip(a[1]) == ('p', 2) and b[0] == 'fld' and b[2] == 'upvar0' and \
                    len(snaps) >= 1 and show(snaps[0]) == 'arg2'
    if loop and not fc:
        def label_atom(c):
            a, v = c
            if a[0] == 'call' and a[1] in STR_EQ and len(a[2]) == 2 and (is_true(v) or is_false(v)):
                x, y = str_strip(a[2][0]), str_strip(a[2][1])
                if y[0] == 'fld' and y[2] == '1':
                    x, y = y, x
                if x[0] == 'fld' and x[2] == '1' and is_iteration_element(x[1]) and y == ('p', 2):
                    return is_true(v)
            return None
        hits = [[label_atom(c) for c in cs if not (c[0][0] == 'discr' and c[0][1][0] == 'call' and c[0][1][1] == AP)] for o, cs in loop['hit']]
        misses = [[label_atom(c) for c in cs] for o, cs in loop['miss']]
        found = {'form': 'loop', 'leaves the loop when': hits, 'goes on when': misses}
        pred_ok = all(h == [True] for h in hits) and all(m == [False] for m in misses)
    ctx.ob(rule, name, 'predicate: label == typed string', pred_ok, found=found, expected='m.1 == algebraic (exact, case-sensitive string equality)',
           why='labels are unique only up to exact equality: `bxc3` (pawn) and `Bxc3` (bishop) differ by case alone')
    v = facts.consts.get('chess::move_generator::PAWN_PROMOTIONS')
    first = v[1][0][2] if isinstance(v, tuple) and v[0] == 'array' and v[1] else None
    ctx.ob(rule, 'chess::move_generator::PAWN_PROMOTIONS', 'queen promotion is generated first (first match = queen)', first == 'Queen', found=first, expected='Queen')


def writer_language(ctx):
    """regular expression (ast) of all labels the SAN writer can produce, from the writer's own constants"""
    f = ctx.facts.consts
    strs = f.get('chess::board::piece::ALGEBRAIC_PIECE_STRS')
    letters = [s for s in strs[1] if s] if isinstance(strs, tuple) else []
    names = f.get('common::bitboard::square::tables::ALGEBRAIC')
    files = sorted({n[0] for n in names[1]})
    ranks = sorted({n[1] for n in names[1]})
    promos = f.get('chess::move_generator::PAWN_PROMOTIONS')
    pd = {v['name']: v['discr'] for v in ctx.facts.adts[PIECE_ADT]['variants']}
    promo_letters = [strs[1][pd[p[2]]] for p in promos[1]]
    cap = f.get(AN + 'CAPTURE_CHAR')
    pro = f.get(AN + 'PROMOTION_CHAR')
    suffixes = [f.get(AN + 'CHECK_CHAR'), f.get(AN + 'CHECKMATE_CHAR')]
    castles = [f.get(AN + 'CASTLE_KINGSIDE_CHARS'), f.get(AN + 'CASTLE_QUEENSIDE_CHARS')]
    setf = ('set', frozenset(files))
    setr = ('set', frozenset(ranks))
    square = rx.cat(setf, setr)
    suffix = ('opt', rx.alt(*[rx.lit(s) for s in suffixes]))
    pawn = rx.cat(rx.alt(rx.lit(''), rx.cat(setf, rx.lit(cap))), square, ('opt', rx.cat(rx.lit(pro), rx.alt(*[rx.lit(x) for x in promo_letters]))), suffix)
    piece = rx.cat(rx.alt(*[rx.lit(x) for x in letters]), rx.alt(rx.lit(''), setf, setr, square), ('opt', rx.lit(cap)), square, suffix)
    castle = rx.cat(rx.alt(*[rx.lit(c) for c in castles]), suffix)
    desc = {'piece letters': letters, 'files': ''.join(files), 'ranks': ''.join(ranks), 'capture': cap, 'promotion': pro + '[' + ''.join(promo_letters) + ']',
            'suffixes': suffixes, 'castles': castles}
    return rx.alt(pawn, piece, castle), desc


def r4_input_language(ctx):
    rule = 'C14.R4-input-language'
    facts = ctx.facts
    fn = facts.need_fn(IH)
    ctx.touch(IH)
    pats = []
    for o in Engine(facts, inline_filter=lambda n, c: n.startswith('chess::input_handler::'), max_paths=4000).run(IH):
        for e in o.events:
            if e[0] == 'call' and e[1] == 'regex::Regex::new':
                a = strval(e[2][0])
                if is_const(a) and isinstance(a[1], str) and a[1] not in pats:
                    pats.append(a[1])
    coord = [p for p in pats if isinstance(p, str) and 'O-O' not in p]
    alg = [p for p in pats if isinstance(p, str) and 'O-O' in p]
    if len(coord) != 1 or len(alg) != 1:
        ctx.anchor_missing(rule, IH, 'expected one coordinate and one notation pattern, found %r' % pats)
        return
    try:
        c_ast, c_groups, _ = rx.parse(coord[0])
        a_ast, a_groups, a_whole = rx.parse(alg[0])
    except rx.RxError as e:
        ctx.anchor_missing(rule, IH, 'pattern not in the supported subset: %s' % e)
        return
    w_ast, desc = writer_language(ctx)
    ctx.extra['writer_language'] = desc
    ctx.extra['patterns'] = {'coordinate': coord[0], 'notation': alg[0]}
    wit = rx.witness_not_subset(w_ast, a_ast)
    ctx.ob(rule, IH, 'notation pattern accepts every label the writer can print' if wit is None else 'a label the writer prints is rejected by the notation pattern',
           wit is None, found={'pattern': alg[0], 'rejected label': wit}, expected='L(writer) ⊆ L(pattern)',
           why='every label the engine itself prints for a legal move must be accepted at the command line, including castling that gives check or mate')
    wit2 = rx.witness_intersection(w_ast, c_ast)
    ctx.ob(rule, IH, 'no label is mistaken for a coordinate pair', wit2 is None, found={'pattern': coord[0], 'ambiguous input': wit2}, expected='L(writer) ∩ L(coordinate) = ∅')
    ctx.ob(rule, IH, 'the group handed to the game is the whole label', a_whole, found=alg[0], expected='^( whole label )$')
    # two square groups; a third, optional group may name the promotion piece (one of q r b n) and nothing else
    third_ok = c_groups == 2 or (c_groups == 3 and rx.matches(c_ast, 'e7e8q') and rx.matches(c_ast, 'e7e8n') and not rx.matches(c_ast, 'e7e8k')
                                 and not rx.matches(c_ast, 'e7e8p') and not rx.matches(c_ast, 'e7e8qq') and not rx.matches(c_ast, 'e7e8e8'))
    ctx.ob(rule, IH, 'coordinate pattern has two square groups', third_ok and rx.matches(c_ast, 'e2e4') and not rx.matches(c_ast, 'e2e9') and not rx.matches(c_ast, 'e2'),
           found=coord[0], nontrivial=False)
    # order of the two tests: coordinates first, then notation
    outs = Engine(facts, inline_filter=lambda n, c: False, max_paths=4000).run(IH)
    order_ok = True
    for o in outs:
        caps = [e for e in o.events if e[0] == 'call' and e[1] == 'regex::Regex::captures']
        if len(caps) >= 1:
            pass
    ctx.touch(IH)


def r5_conversion(ctx):
    rule = 'C14.R5-coordinate-conversion'
    facts = ctx.facts
    name = '<chess::game::command::MakeMove as chess::game::command::Command>::execute'
    fn = facts.need_fn(name)
    ctx.touch(name)
    outs = Engine(facts, opaque={GAME + '::apply_chess_move_by_from_to_coordinates', GAME + '::apply_chess_move_from_raw_algebraic_notation'},
                  readonly={'common::bitboard::square::square_string_to_bitboard'}).run(name)
    okc = oka = False
    for o in outs:
        for e in o.events:
            if e[0] == 'call' and e[1].endswith('apply_chess_move_by_from_to_coordinates'):
                a, b = show(e[2][1]), show(e[2][2])
                okc = 'square_string_to_bitboard' in a and 'from_square' in a and 'square_string_to_bitboard' in b and 'to_square' in b
            if e[0] == 'call' and e[1].endswith('apply_chess_move_from_raw_algebraic_notation'):
                oka = 'algebraic' in show(e[2][1])
    ctx.ob(rule, name, 'Coordinate{from,to} -> apply_chess_move_by_from_to_coordinates(sq(from), sq(to))', okc, expected='square_string_to_bitboard on each field, in order')
    ctx.ob(rule, name, 'Algebraic{s} -> apply_chess_move_from_raw_algebraic_notation(s)', oka, nontrivial=False)


def run(ctx):
    r1_reject_purity(ctx)
    r2_accept_pairing(ctx)
    r3_selection(ctx)
    r4_input_language(ctx)
    r5_conversion(ctx)
    # "accepted exactly when it names a legal move": the list the input is matched against must be the legal moves (all clauses of C01)
    from . import c01
    import_rules(ctx, 'C14.R6-matched-against-legal-moves', c01.ALL_RULES,
                 'an input is accepted iff it matches an element of the generated list: an illegal element makes an illegal input '
                 'acceptable, a missing one makes a legal input rejected', floor=6)
    # ... and a typed LABEL names exactly one move only if the writer gives every legal move its own label: two moves sharing a label make the
    # shared text play whichever comes first and the proper labels unacceptable (the label rules of C13)
    from . import c13
    import_rules(ctx, 'C14.R7-labels-name-one-move', [c13.r1_disambiguation, c13.r2_filter, c13.r3_assembly, c13.r4_source],
                 'the notation entry point compares the typed text with the labels the writer produces for the legal moves: the input is '
                 'accepted iff legal and plays precisely that move only if those labels are the standard, pairwise distinct ones', floor=6)
