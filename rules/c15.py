"""C15 — the engine always produces a legal move; every opening-book line is legal."""
import os
import re

from sa.sym import Engine, show, show_cond, subterms, C, is_const, PathLimit
from .common import *
from .tables import is_true, is_false
from oracle import refchess
import functools as _ft
_Engine = Engine
# these rules look at the closures handed to find / any / for_each / filter themselves (closure and loop form are both handled here)
Engine = _ft.partial(_Engine, iter_adapters=False)

EXPLANATION = (
    'Static clauses: (R1) every line of opening_lines.txt, replayed from the standard position with an independent reference '
    'implementation of the rules (oracle/refchess.py, perft 20/400/8902 self-check), is legal at every ply - a lint of a source data '
    "file, no repository code is executed; (R2) the book source is well formed for the generator (exactly one ': ' separator, single-"
    'space separated [a-h][1-8][a-h][1-8] tokens, no quote/backslash in names) and the compiled create_book() contains one add_line per'
    ' source line; (R3) the book-then-search selector never returns GameError::InvalidMove: when the drawn book move is not a legal '
    "move it falls back to the search; (R4) the book is keyed by the (from,to) history of the game; (R5) the search leg's declared "
    "outcomes (imports C07.R1) and the provenance of its answer (imports C07.R2/R7: popped from this call's scored list of generated, "
    'simulated candidates - never a remembered answer). Move quality and the interactive loops are NOT decided. R5 imports all clauses '
    'of C01 for the same reason (the answer is drawn from the generated list).'
)
ASSUMPTIONS = [
    "oracle/refchess.py implements the FIDE rules (self-checked against perft(1..3) = 20, 400, 8902 on every run)",
    "rustc MIR construction and the chessfacts extractor are faithful",
]

GAME = 'chess::game::game::Game'
TOKEN = re.compile(r'^[a-h][1-8][a-h][1-8]$')


def read_book(ctx):
    path = os.path.join(getattr(ctx, 'repo', '/repo'), 'opening_lines.txt')
    if not os.path.exists(path):
        return None
    with open(path, encoding='utf-8') as f:
        return f.read().split('\n')


def r12_book(ctx):
    lines = read_book(ctx)
    if lines is None:
        ctx.anchor_missing('C15.R1-book', 'opening_lines.txt')
        return
    p = refchess.Position()
    pf = [refchess.perft(p, d) for d in (1, 2, 3)]
    ctx.ob('C15.R1-book', 'oracle/refchess.py', 'reference rules self-check perft(1..3)', pf == [20, 400, 8902], found=pf, expected=[20, 400, 8902],
           nontrivial=False)
    n_lines = 0
    n_plies = 0
    valid_for_generator = 0
    for ln, raw in enumerate(lines, 1):
        if raw.strip() == '':
            continue
        n_lines += 1
        parts = raw.split(': ')
        name = parts[0]
        wf = len(parts) == 2
        ctx.ob('C15.R2-book-source', 'opening_lines.txt', '"%s": exactly one ": " separator' % name[:50], wf, found=len(parts) - 1, expected=1,
               why='the generator silently drops lines that do not split into name and moves', nontrivial=False)
        if not wf:
            continue
        valid_for_generator += 1
        ctx.ob('C15.R2-book-source', 'opening_lines.txt', '"%s": name has no quote or backslash' % name[:50], '"' not in name and '\\' not in name,
               found=name, expected='plain text', nontrivial=False)
        toks = parts[1].split(' ')
        badtok = [t for t in toks if not TOKEN.match(t)]
        ctx.ob('C15.R2-book-source', 'opening_lines.txt', '"%s": tokens are single-space separated coordinate pairs' % name[:50], not badtok,
               found=badtok[:3], expected='[a-h][1-8][a-h][1-8]',
               why='Book::default() panics in square_string_to_bitboard on any other token')
        if badtok:
            continue
        ok, ply, reason = refchess.replay(toks)
        n_plies += len(toks)
        ctx.ob('C15.R1-book', 'opening_lines.txt', ('"%s"#ply%d:%s' % (name, ply + 1, toks[ply])) if not ok else '"%s" legal (%d plies)' % (name, len(toks)),
               ok, found=None if ok else '%s at ply %d (%s) after %s' % (reason, ply + 1, toks[ply], ' '.join(toks[:ply])),
               expected='every move legal from the standard starting position',
               why='a game following the book must never be steered into an unplayable suggestion')
    ctx.floor('C15.R1-book', 'book lines', n_lines, 20)
    ctx.extra['book_lines'] = n_lines
    ctx.extra['book_plies'] = n_plies
    # compiled book has one add_line per valid source line
    cb = ctx.facts.fns.get('chess::book::create_book')
    if cb is None:
        ctx.anchor_missing('C15.R2-book-source', 'chess::book::create_book')
        return
    n_add = sum(1 for b, t in cb.calls() if ctx.facts.callee_name(t) == 'chess::book::Book::add_line')
    ctx.touch(cb.name)
    ctx.ob('C15.R2-book-source', 'chess::book::create_book', 'compiled book has one add_line per source line', n_add == valid_for_generator,
           found=n_add, expected=valid_for_generator, why='the compiled opening book must be the book that was linted')


def r3_fallback(ctx):
    rule = 'C15.R3-fallback'
    facts = ctx.facts
    name = GAME + '::select_waterfall_book_then_alpha_beta_best_move'
    sel = GAME + '::select_alpha_beta_best_move'
    opaque = {sel, GAME + '::get_book_line'} | {n for n in facts.fns if n.startswith('chess::move_generator') or n.startswith('chess::book')}
    outs = Engine(facts, opaque=opaque).run(name)
    ctx.touch(name)
    n = 0
    for o in outs:
        if o.kind != 'return':
            continue
        n += 1
        v = o.value
        is_invalid = any(s[0] == 'agg' and s[3] == 'InvalidMove' for s in subterms(v))
        found_none = [c for c in o.conds if c[0][0] == 'discr' and c[0][1][0] == 'call' and (c[0][1][1].endswith('::find') or finder_summary(facts, c[0][1][1]))
                      and (c[1] == 0 or (isinstance(c[1], tuple) and c[1][0] == 'not' and 1 in c[1][1]))]
        searched = any(e[0] == 'call' and e[1] == sel for e in o.events)
        if is_invalid:
            ctx.ob(rule, name, 'returns InvalidMove when the book move is not legal', False,
                   found=[show_cond(c) for c in o.conds], expected='fall back to select_alpha_beta_best_move',
                   why='asking the engine for its move must yield a legal move rather than an error whenever one exists')
        elif found_none:
            ctx.ob(rule, name, 'book move not among the legal moves -> search', searched, found=[e[1] for e in o.events if e[0] == 'call'][-3:],
                   expected='select_alpha_beta_best_move')
        elif searched:
            ctx.ob(rule, name, 'no book continuation -> search', True)
        else:
            # returns the found legal move
            src = [s for s in subterms(v) if s[0] == 'call' and (s[1].endswith('::find') or finder_summary(facts, s[1]))]
            gen = any(e[0] == 'call' and e[1].endswith('generate_moves_and_lazily_update_chess_move_effects') for e in o.events)
            ctx.ob(rule, name, 'book move returned is one of the generated legal moves', bool(src) and gen, found=show(v)[:200],
                   expected='candidates.iter().find(...)')
    ctx.floor(rule, 'return paths', n, 3)
    # the find predicate compares origin and destination with those of the book move (exact equality on both)
    okp, found = False, None
    fc = find_closures(outs)
    if len(fc) == 1:
        cname, snaps = next(iter(fc.items()))
        ctx.touch(cname)
        table, atoms, okrows = coordinate_predicate(facts, cname, snaps)
        found = {'compared with': atoms, 'table': {str(k): v for k, v in table.items()}}
        okp = okrows and table == AND_TABLE and 'from_square' in atoms.get('from_square', '') and 'to_square' in atoms.get('to_square', '') \
            and 'from_square' not in atoms.get('to_square', '')
    if not fc:
        calls = {(e[1], tuple(e[2])) for o in outs for e in find_events(facts, o) if finder_summary(facts, e[1])}
        if len(calls) == 1:
            fname, fargs = next(iter(calls))
            fs = finder_summary(facts, fname)
            ctx.touch(fname)
            ops = {k: show(fargs[i_ - 1]) for k, i_ in fs['params'].items()}
            found = {'helper': fname, 'compared with': ops, 'table': {str(k): v for k, v in fs['table'].items()}}
            okp = fs['table'] == AND_TABLE and 'from_square' in ops.get('from_square', '') and 'to_square' in ops.get('to_square', '') \
                and 'from_square' not in ops.get('to_square', '')
    ctx.ob(rule, name, 'book move matched on both origin and destination', okp, found=found, expected='m.from_square() == from && m.to_square() == to')


def r4_key(ctx):
    rule = 'C15.R4-book-key'
    facts = ctx.facts
    name = GAME + '::get_book_line'
    clos = facts.closures_of(name)
    ok = False
    for c in clos:
        outs = Engine(facts, readonly={CHESSMOVE + '::from_square', CHESSMOVE + '::to_square'}).run(c.name)
        for o in outs:
            if o.kind == 'return' and o.value[0] == 'agg' and o.value[2] == 'chess::book::BookMove':
                f = dict(o.value[4])
                ok = 'from_square' in show(f.get('0')) and 'to_square' in show(f.get('1'))
                ctx.touch(c.name)
    fn = facts.need_fn(name)
    reads_history = any(s for b in fn.blocks for s in b['stmts'] if s['k'] == 'assign' and 'move_history' in str(s))
    ctx.ob(rule, name, 'book is keyed by the (from,to) pairs of the move history', ok and reads_history, expected='move_history.iter().map(|m| BookMove::new(m.from_square(), m.to_square()))')


def r6_token_parsing(ctx):
    """the compiled book is built from the tokens of the linted file: origin = first two characters, destination = next two, each
    converted by the square parser whose table C19.R1 checks - or by another function of the crate, which is then tabulated on all 64
    square names against the naming table"""
    rule = 'C15.R6-token-parsing'
    facts = ctx.facts
    name = 'chess::book::Book::add_line'
    SSB = 'common::bitboard::square::square_string_to_bitboard'
    ALG = facts.consts.get('common::bitboard::square::tables::ALGEBRAIC')
    names = [x for x in ALG[1]] if isinstance(ALG, tuple) and ALG[0] == 'array' else None
    crate_fns = {n for n, f in facts.fns.items() if n.startswith('chess::book::') and f.kind != 'Closure' and n != name
                 and (f.raw.get('sig') or '').replace(' ', '').endswith('->common::bitboard::bitboard::Bitboard')}
    try:
        outs = Engine(facts, readonly={SSB} | crate_fns, max_paths=4000).run(name)
    except Exception as e:
        ctx.anchor_missing(rule, name, 'not analysable: %s' % e)
        return
    ctx.touch(name)
    bms = set()
    for o in outs:
        for e in o.events:
            if e[0] != 'call':
                continue
            for a in e[2]:
                for s_ in subterms(a):
                    if s_[0] == 'agg' and s_[1] == 'adt' and str(s_[2]).endswith('book::BookMove') and len(s_[4]) == 2:
                        bms.add(s_)
    if not bms:
        ctx.anchor_missing(rule, name, 'no BookMove constructed')
        return

    def classify(t):
        """('parser', fn name, 'from'|'to'|'?') for one coordinate of a BookMove"""
        if t[0] == 'agg' and len(t[4]) == 1:
            t = t[4][0][1]
        if t[0] == 'fld' and t[2] == '0':
            t = t[1]
        if t[0] != 'call' or not (t[1] == SSB or t[1] in crate_fns):
            return ('?', show(t)[:80], '?')
        a = show(t[2][0])
        which = '?'
        if 'skip' in a and ', 2)' in a:
            which = 'to'
        elif 'take' in a and 'skip' not in a:
            which = 'from'
        elif 'Range(0, 2)' in a or 'RangeTo(2)' in a:
            which = 'from'
        elif 'Range(2, 4)' in a:
            which = 'to'
        return ('parser', t[1], which)
    ok = True
    parsers = set()
    found = []
    for bm in bms:
        c0, c1 = classify(bm[4][0][1]), classify(bm[4][1][1])
        found.append((c0, c1))
        ok = ok and c0[0] == 'parser' and c1[0] == 'parser' and (c0[2], c1[2]) == ('from', 'to')
        parsers |= {c0[1], c1[1]}
    ctx.ob(rule, name, 'book move = (parse(token[0..2]), parse(token[2..4]))', ok, found=found[:2], expected='origin from the first two characters, destination from the next two',
           why='the compiled book must be the book that was linted: a transposed or swapped coordinate makes every book move illegal')
    for pf in sorted(parsers - {SSB}):
        # tabulate a custom parser on the 64 names
        bad = []
        if names is None or pf not in facts.fns:
            ctx.anchor_missing(rule, pf, 'cannot tabulate')
            continue
        ctx.touch(pf)
        for i, nm in enumerate(names):
            nm = nm if isinstance(nm, str) else str(nm)
            arr_ = ('agg', 'array', None, None, tuple((str(k), C(ord(ch))) for k, ch in enumerate(nm)))
            outs1 = [o for o in Engine(facts, unroll=True).run(pf, args=[('ref', ('K', arr_))]) if o.kind != 'abort']
            got = bb_of(outs1[0].value) if len(outs1) == 1 and outs1[0].kind == 'return' and outs1[0].value is not None else None
            if got != 1 << i:
                bad.append((nm, sq_name(got) if got else got))
        ctx.ob(rule, pf, 'custom square parser agrees with the naming table on all 64 squares', not bad, found=bad[:4], expected='name -> the square it names',
               why='the compiled book must be the book that was linted')


def run(ctx):
    r6_token_parsing(ctx)
    r12_book(ctx)
    r3_fallback(ctx)
    r4_key(ctx)
    try:
        from . import c07
        c07.r1_declared_outcomes(ctx, rule_prefix='C15.R5')
        import_rules(ctx, 'C15.R5-search-answer-provenance', [c07.r2_no_fabrication, c07.r7_candidates_are_legal],
                     'the move the engine plays when the book has nothing is the search answer: it must be one of the legal moves generated '
                     'for the current position in this call (not a remembered answer, not an unfiltered candidate)', floor=4)
    except ImportError:
        pass
