"""C16 — move counters and the fifty-move rule."""
from collections import Counter

from sa.sym import Engine, show, show_cond, subterms, C, is_const, PathLimit, DEFAULT_FOLD_ONLY
from .common import *
from . import c04

EXPLANATION = (
    "Static clauses: (R1) decision table 'half-move clock is reset iff the move is a pawn move or a capture' per move kind, read off "
    'the Ok paths of apply (which of reset/increment is reached under which tests of the moved piece and of the capture); (R2) the '
    'constant guarding the move-count draw in game_ending is 100 half-moves; (R3) each apply advances and each undo retreats both '
    'counters exactly once (imports C04.R1); (R4) narrow (u8) counters that are incremented per ply need a bound: the full-move counter'
    " has none, the half-move clock is bounded only if every game loop stops on a reported draw. Equality of the clock with 'plies "
    "since the last capture or pawn move' along real games is NOT decided beyond these necessary conditions. (R5) no verdict remembered"
    ' in the generator (= C02.R4); (R6) Game::check_game_over_for_current_turn returns evaluate::game_ending(board, generator, '
    'board.turn()) computed on the call.'
)
ASSUMPTIONS = [
    "rustc MIR construction and the chessfacts extractor are faithful",
    "the promotion kind is only generated for pawns (its own apply rejects anything else)",
]

MI = 'chess::board::move_info::MoveInfo'
EVAL = 'chess::evaluate::'
GAME = 'chess::game::game::Game'


def r1_reset_table(ctx):
    rule = 'C16.R1-reset-table'
    facts = ctx.facts
    pawn = facts.variant_discr(PIECE_ADT, 'Pawn')
    summ = kind_summaries(ctx, 'apply')
    for kind, (name, outs) in summ.items():
        oks = [o for o in outs if o.kind == 'return' and is_ok_result(o.value)]
        if not oks:
            ctx.anchor_missing(rule, name, 'no Ok path')
            continue
        rows = Counter()
        for o in oks:
            calls = board_calls(o)
            ops = [m for m, _, _ in calls if m in HALF_PUSH]
            if len(ops) != 1:
                continue    # reported by C04.R1
            op = 'reset' if ops[0] == 'reset_halfmove_clock' else ('increment' if ops[0] == 'increment_halfmove_clock' else ops[0])
            removes = [('call', BOARD + '::remove', a, u) for m, a, u in calls if m == 'remove']
            conds = dict(o.conds)
            # capture atom: did the second remove (destination / victim) take something off?
            cap = None
            pawn_known = None
            if kind in ('standard', 'promotion'):
                if len(removes) >= 2:
                    d = conds.get(('discr', removes[1]))
                    cap = 1 if d == 1 else (0 if (d == 0 or (isinstance(d, tuple) and d[0] == 'not' and 1 in d[1])) else None)
                mover_piece = ('fld', ('fld', removes[0], 'Some.0'), '0') if removes else None
                d = conds.get(('discr', mover_piece))
                if d is not None:
                    pawn_known = 1 if d == pawn else (0 if isinstance(d, int) or (isinstance(d, tuple) and pawn in d[1]) else None)
            elif kind == 'en_passant':
                cap, pawn_known = 1, 1
            elif kind == 'castle':
                cap, pawn_known = 0, 0
            for pv in ([pawn_known] if pawn_known is not None else [0, 1]):
                for cv in ([cap] if cap is not None else [0, 1]):
                    rows[(pv, cv, op)] += 1
        for (pv, cv, op), n in sorted(rows.items()):
            want = 'reset' if (pv or cv) else 'increment'
            ok = op == want
            inst = 'row(pawn=%d,capture=%d):%s' % (pv, cv, op if ok else '%s≠%s' % (op, want))
            ctx.ob(rule, name, inst, ok, found=op, expected=want,
                   why='the half-move clock counts plies since the last capture or pawn move: it is reset by both and by nothing else')
    ctx.floor(rule, 'move kinds examined', len(summ), 4)


def game_ending_table(ctx):
    facts = ctx.facts
    ro = {BOARD + '::max_seen_position_count', BOARD + '::halfmove_clock', BOARD + '::turn', 'chess::board::move_info::MoveInfo::halfmove_clock',
          EVAL + 'player_is_in_check', EVAL + 'current_player_is_in_check'}
    opaque = {'chess::move_generator::MoveGenerator::generate_moves', 'chess::move_generator::MoveGenerator::get_attack_targets'}
    eng = Engine(facts, opaque=opaque, readonly=ro)
    name = EVAL + 'game_ending'
    ctx.touch(name)
    return name, eng.run(name)


def r2_threshold(ctx):
    """the move-count draw fires exactly when the half-move clock is >= 100: decided by evaluating the clock conditions of every
    return path of game_ending for all 256 clock values (repetition count held at 1), whatever the comparison is spelled like"""
    rule = 'C16.R2-draw-threshold'
    name, outs = game_ending_table(ctx)
    from sa.evalterm import ev, Unevaluable
    clock_terms, count_terms = set(), set()
    for o in outs:
        for a, v in o.conds:
            for s_ in subterms(a):
                if s_[0] == 'call' and s_[1] in (BOARD + '::halfmove_clock', 'chess::board::move_info::MoveInfo::halfmove_clock'):
                    clock_terms.add(s_)
                if s_[0] == 'call' and s_[1] == BOARD + '::max_seen_position_count':
                    count_terms.add(s_)
    if not clock_terms:
        ctx.ob(rule, name, 'a move-count draw clause exists', False, found='none', expected='halfmove_clock >= 100 => Draw',
               why='fifty moves by each side without capture or pawn move is a draw')
        return

    def verdict(o):
        v = o.value
        if o.kind != 'return' or v is None or v[0] != 'agg':
            return None
        if v[3] == 'None':
            return 'None'
        inner = dict(v[4]).get('0')
        return inner[3] if inner is not None and inner[0] == 'agg' else None

    def holds(o, c):
        env = {t: c for t in clock_terms}
        env.update({t: 1 for t in count_terms})
        for a, v in o.conds:
            if not any(s_ in clock_terms or s_ in count_terms for s_ in subterms(a)):
                continue
            try:
                x = ev(a, env)
            except Unevaluable:
                return None
            if isinstance(v, tuple) and v[0] == 'not':
                if x in v[1]:
                    return False
            elif x != int(v):
                return False
        return True
    bad = []
    for c in range(256):
        live = [verdict(o) for o in outs if verdict(o) in ('Draw', 'None') and holds(o, c)]
        if any(holds(o, c) is None for o in outs if verdict(o) in ('Draw', 'None')):
            bad.append((c, 'not evaluable'))
            break
        want = 'Draw' if c >= 100 else 'None'
        if set(live) != {want}:
            bad.append((c, sorted(set(live))))
    ctx.ob(rule, name, 'draw threshold = 100 half-moves', not bad, found={'first clock values with a wrong verdict (repetition count 1, a legal move exists)': bad[:4]},
           expected='Draw exactly when halfmove_clock >= 100',
           why='the game is drawn on move count exactly when the half-move clock has reached 100 (fifty moves by each side), never earlier and not only at 100')


def r3_plus_minus(ctx):
    # each apply advances / each undo retreats both counters exactly once — same path summaries as C04.R1
    sub = type(ctx)(ctx.prop, ctx.tier, ctx.facts, ctx.facts_info, ctx.seed)
    c04.r1_stack_balance(sub)
    for rule, key, ok in sub.obligations:
        pass
    for s in sub.samples:
        if 'halfmove' in s['instance'] or 'fullmove' in s['instance']:
            ctx.ob('C16.R3-plus-minus-one', s['function'], s['instance'], s['ok'], found=s['found'], expected=s['expected'],
                   why='the move counter advances by exactly one per move made and retreats by one per undo')
    ctx.floor('C16.R3-plus-minus-one', 'counter obligations', sum(1 for o in ctx.obligations if o[0] == 'C16.R3-plus-minus-one'), 16)


def narrow_increments(fn):
    """(block, place, type) of `x = x + const` style updates whose destination type is u8"""
    res = []
    for b in fn.blocks:
        if b['cleanup']:
            continue
        for s in b['stmts']:
            if s['k'] != 'assign':
                continue
            rv = s['rv']
            if rv['k'] == 'binop' and rv['op'].startswith('Add'):
                tys = []
                for side in ('a', 'b'):
                    op = rv[side]
                    if op['k'] in ('copy', 'move'):
                        pl = op['place']
                        if pl['proj'] and isinstance(pl['proj'][-1], dict) and 'ty' in pl['proj'][-1]:
                            tys.append(pl['proj'][-1]['ty'])
                        elif pl['proj'] == ['deref']:
                            tys.append(fn.local_ty(pl['local']).lstrip('&').replace('mut ', '').strip())
                        else:
                            tys.append(fn.local_ty(pl['local']))
                    elif op['k'] == 'const':
                        tys.append(op['ty'])
                if tys and all(t == 'u8' for t in tys):
                    res.append((b['id'], rv['op'], s['span']))
        t = b['term']
        if t['k'] == 'call':
            n = t['callee'].get('pretty') or ''
            if n in ('<&u8 as std::ops::Add<u8>>::add', '<u8 as std::ops::Add>::add', '<u8 as std::ops::Add<&u8>>::add',
                     '<u8 as std::ops::AddAssign>::add_assign', "<&'a u8 as std::ops::Add<u8>>::add"):
                res.append((b['id'], n, t['span']))
    return res


LOOPS = ['chess::game::computer_vs_computer::computer_vs_computer', 'chess::game::human_vs_computer::play_computer',
         'chess::game::player_vs_player::player_vs_player', 'chess::game::stockfish_elo::play_game']


def loops_stop_on_draw(ctx):
    """for every game loop: a path on which check_game_over reports Some(Draw) must leave the loop"""
    facts = ctx.facts
    draw = facts.variant_discr('chess::evaluate::GameEnding', 'Draw')
    res = {}
    for name in LOOPS:
        fn = facts.fns.get(name)
        if fn is None:
            res[name] = 'missing'
            continue
        ctx.touch(name)
        eng = Engine(facts, inline_filter=lambda n, c: False, max_paths=60000)
        try:
            outs = eng.run(name)
        except PathLimit:
            res[name] = 'path-limit'
            continue
        verdict = 'no-check'
        for o in outs:
            go = [e for e in o.events if e[0] == 'call' and e[1] in (GAME + '::check_game_over_for_current_turn', EVAL + 'game_ending')]
            if not go:
                continue
            if verdict == 'no-check':
                verdict = 'stops'
            r = ('call', go[-1][1], go[-1][2], go[-1][3])
            conds = dict(o.conds)
            d = conds.get(('discr', r))
            if d != 1:
                continue
            inner = conds.get(('discr', ('fld', r, 'Some.0')))
            consistent = inner == draw or (isinstance(inner, tuple) and inner[0] == 'not' and draw not in inner[1]) or inner is None
            if not consistent:
                continue
            # after the verdict: does the path apply another move / reach the loop head again?
            idx = o.events.index(go[-1])
            later = [e for e in o.events[idx + 1:] if e[0] == 'call' and (
                'make_waterfall' in e[1] or 'apply_chess_move' in e[1] or e[1].endswith('Command::execute') or 'execute' in e[1])]
            if o.kind == 'backedge' or later:
                verdict = 'continues-on-draw'
        res[name] = verdict
    return res


def r4_narrow(ctx):
    rule = 'C16.R4-narrow-counter'
    facts = ctx.facts
    incs = {}
    for m in ('increment_fullmove_clock', 'increment_halfmove_clock'):
        fn = facts.need_fn(MI + '::' + m)
        ctx.touch(fn.name)
        incs[m] = narrow_increments(fn)
    ctx.extra['u8_increments'] = {k: [x[1] for x in v] for k, v in incs.items()}
    # full-move counter: incremented once per ply by every apply, no reset, no bound
    full_ty = None
    adt = facts.adts.get(MI)
    for v in adt['variants']:
        for fd in v['fields']:
            if fd['name'] == 'fullmove_clock':
                full_ty = fd['ty']
    bits = {'u8': 8, 'u16': 16, 'u32': 32, 'u64': 64, 'usize': 64}.get(full_ty, 0)
    # a game is bounded by the fifty-move rule only through the half-move clock; the number of plies of a legal game
    # can exceed 5,000, so anything below 16 bits overflows in reachable games
    ctx.ob(rule, MI + '::increment_fullmove_clock', 'u8 += 1 per ply, unbounded' if bits < 16 else 'counter wide enough (%s)' % full_ty,
           bits >= 16, found={'type': full_ty, 'increments': [x[1] for x in incs['increment_fullmove_clock']]},
           expected='a counter type that cannot overflow within a legal game (>= 16 bits), or a bound',
           why='the move counter must neither wrap nor abort however long the game: a u8 incremented once per ply overflows at ply 255')
    # half-move clock: u8 + 1, bounded by the draw only if every loop stops on Draw
    stops = loops_stop_on_draw(ctx)
    half_ty = 'u8' if incs['increment_halfmove_clock'] else 'wide'
    for name, verdict in sorted(stops.items()):
        ok = verdict in ('stops',) or half_ty != 'u8'
        ctx.ob(rule, name, 'half-move clock (u8) bounded: loop %s' % ('stops on Draw' if verdict == 'stops' else verdict.replace('-', ' ')),
               ok or verdict == 'no-check', found=verdict, expected='the loop leaves when game_ending reports Draw',
               why='increment_halfmove_clock is `u8 + 1`; its only bound is the move-count draw, which a loop that ignores Draw never honours')


def r3b_increment(ctx):
    rule = 'C16.R3-plus-minus-one'
    facts = ctx.facts
    # increment_halfmove_clock pushes top + 1
    name = MI + '::increment_halfmove_clock'
    outs = Engine(facts).run(name)
    ok = False
    found = None
    for o in outs:
        for e in o.events:
            if e[0] == 'call' and e[1].endswith('Vec::<T, A>::push'):
                v = e[2][1]
                found = show(v)
                ok = (v[0] == 'call' and 'Add' in v[1] and any(s[0] == 'call' and s[1].endswith('::last') for s in subterms(v)) and C(1) in v[2]) or \
                     (v[0] == 'bin' and v[1] == 'Add' and C(1) in (v[2], v[3]) and any(s[0] == 'call' and s[1].endswith('::last') for s in subterms(v)))
    ctx.touch(name)
    ctx.ob(rule, name, 'pushes the current clock + 1', ok, found=found, expected='push(*last + 1)')


def r5_verdict_is_current(ctx):
    """the move-count draw is a function of the CURRENT clock: game_ending must read it on every call - a verdict remembered per position
    (a memo keyed by the position key, which does not contain the clock) reports the draw late, early or never.  Necessary condition
    checked: the move generator game_ending is handed keeps no mutable state beyond its keyed move / attack caches (= C02.R4)."""
    from . import c02
    import_rules(ctx, 'C16.R5-verdict-not-remembered', [c02.r4_unkeyed_state],
                 'a draw verdict stored in the generator (or anywhere else) under the position key ignores the half-move clock the rule is about',
                 floor=3)


def r6_game_reports_current_verdict(ctx):
    """what the game API reports is the verdict computed NOW for the game's own board and side to move: on every returning path
    Game::check_game_over_for_current_turn returns the result of evaluate::game_ending(&mut self.board, &mut self.move_generator,
    self.board.turn()) itself - not a remembered answer (a status memo keyed without the occurrence count or the clock), and not a variant
    of the rule with a per-game limit that some constructor leaves unset"""
    rule = 'C16.R6-game-reports-current-verdict'
    facts = ctx.facts
    name = 'chess::game::game::Game::check_game_over_for_current_turn'
    GE = 'chess::evaluate::game_ending'
    if facts.fns.get(name) is None:
        ctx.anchor_missing(rule, name)
        return
    try:
        outs = Engine(facts, opaque={GE}, readonly={BOARD + '::turn'}, inline_filter=lambda n, c: n.startswith('chess::game::')).run(name)
    except PathLimit:
        ctx.anchor_missing(rule, name, 'path limit')
        return
    ctx.touch(name)
    rets = [o for o in outs if o.kind == 'return']
    bad = []
    for o in rets:
        calls = [e for e in o.events if e[0] == 'call' and e[1] == GE]
        ok = len(calls) == 1 and o.value == ('call', GE, calls[0][2], calls[0][3])
        if ok:
            a = calls[0][2]
            ok = a[0] == ('ref', ('fld', ('der', ('p', 1)), 'board')) and a[1] == ('ref', ('fld', ('der', ('p', 1)), 'move_generator')) \
                and any(s_[0] == 'call' and s_[1] == BOARD + '::turn' for s_ in subterms(a[2])) or \
                (a[0] == ('ref', ('fld', ('der', ('p', 1)), 'board')) and a[1] == ('ref', ('fld', ('der', ('p', 1)), 'move_generator'))
                 and any(s_[0] == 'fld' and s_[2] == 'turn' for s_ in subterms(a[2])))
        if not ok:
            bad.append({'returns': show(o.value)[:120], 'conds': [show_cond(c)[:80] for c in o.conds][:3]})
    ctx.ob(rule, name, 'every path returns evaluate::game_ending(self.board, self.move_generator, self.board.turn()) computed on this call', bool(rets) and not bad,
           found=bad[:3], expected='evaluate::game_ending(&mut self.board, &mut self.move_generator, self.board.turn())',
           why='a draw by move count or repetition must be reported at the moment the clock / the occurrence count says so: a remembered status, '
               'or a rule variant whose limit depends on how the game was constructed, reports it late or never')


def run(ctx):
    r6_game_reports_current_verdict(ctx)
    r5_verdict_is_current(ctx)
    r3b_increment(ctx)
    r1_reset_table(ctx)
    r2_threshold(ctx)
    r3_plus_minus(ctx)
    r4_narrow(ctx)
