"""C17 — repetition accounting."""
from sa.sym import Engine, show, show_cond, subterms, C, is_const, PathLimit
from sa.facts import field_writes
from .common import *
from .tables import is_true, is_false
from . import c05

EXPLANATION = (
    "Static clauses: (R1) count_current_position and uncount_current_position are inverse: same map, same key term, "
    "+1 / -1 on the entry, one push / one pop of the reported count; (R2) the repetition key must cover what makes "
    "two positions 'the same': placement, castling rights, en-passant target (covered by the position key per C05) "
    "and the side to move (nothing toggles the key when the turn changes); (R3) every function that plays a move for "
    "good on the game's board registers the resulting position on its Ok path; (R4) the repetition draw fires at a "
    "count of exactly 3. Counts along real games are NOT decided.")
ASSUMPTIONS = [
    "HashMap::entry/and_modify/or_insert/get and Vec::push/pop have their documented meaning",
    "rustc MIR construction and the chessfacts extractor are faithful",
]

PI = 'chess::board::position_info::PositionInfo'
GAME = 'chess::game::game::Game'
HASHF = ('fld', ('der', ('p', 1)), 'current_position_hash')


def closure_step(facts, name):
    """the closure passed to and_modify: returns +1 / -1 / None"""
    fn = facts.fns.get(name)
    if fn is None:
        return None
    outs = Engine(facts).run(name)
    for o in outs:
        if o.kind != 'return':
            continue
        for e in o.events:
            if e[0] == 'write':
                v = e[2]
                if v[0] == 'bin' and v[1] in ('Add', 'Sub') and v[3] == C(1):
                    return 1 if v[1] == 'Add' else -1
    return None


def r1_inverse(ctx):
    rule = 'C17.R1-inverse-pair'
    facts = ctx.facts
    info = {}
    for m in ('count_current_position', 'uncount_current_position'):
        name = PI + '::' + m
        outs = Engine(facts).run(name)
        ctx.touch(name)
        rets = [o for o in outs if o.kind == 'return']
        if not rets:
            ctx.anchor_missing(rule, name, 'no return path')
            return
        o = rets[0]
        entry = [e for e in o.events if e[0] == 'call' and e[1].endswith('HashMap::<K, V, S, A>::entry')]
        mod = [e for e in o.events if e[0] == 'call' and e[1].endswith('::and_modify')]
        ins = [e for e in o.events if e[0] == 'call' and e[1].endswith('::or_insert')]
        push = [e for e in o.events if e[0] == 'call' and e[1].endswith('Vec::<T, A>::push')]
        pop = [e for e in o.events if e[0] == 'call' and e[1].endswith('Vec::<T, A>::pop')]
        step = None
        if mod and mod[0][2][1][0] == 'agg' and mod[0][2][1][1] == 'closure':
            step = closure_step(facts, mod[0][2][1][2])
            ctx.touch(mod[0][2][1][2])
        info[m] = dict(key=entry[0][2][1] if entry else None, map=entry[0][2][0] if entry else None, step=step,
                       insert=ins[0][2][1] if ins else None, pushes=len(push), pops=len(pop), n_paths=len(rets),
                       stack=[show(e[2][0]) for e in push + pop])
    c, u = info['count_current_position'], info['uncount_current_position']
    ctx.ob(rule, PI + '::count_current_position', 'entry(key).and_modify(+1).or_insert(1); push(count)',
           c['step'] == 1 and c['insert'] == C(1) and c['pushes'] == 1 and c['pops'] == 0 and c['key'] == HASHF,
           found={k: (show(v) if isinstance(v, tuple) else v) for k, v in c.items()}, expected='key = current_position_hash, +1, insert 1, one push')
    ctx.ob(rule, PI + '::uncount_current_position', 'entry(key).and_modify(-1); pop()',
           u['step'] == -1 and u['pops'] == 1 and u['pushes'] == 0 and u['key'] == HASHF,
           found={k: (show(v) if isinstance(v, tuple) else v) for k, v in u.items()}, expected='key = current_position_hash, -1, one pop')
    ctx.ob(rule, PI, 'count and uncount use the same map and key term', c['key'] == u['key'] and c['map'] == u['map'] and c['key'] is not None,
           found=[show(c['key']) if c['key'] else None, show(u['key']) if u['key'] else None], expected='identical',
           why='unregistering must be the exact inverse of registering')


def r2_key_coverage(ctx):
    rule = 'C17.R2-key-coverage'
    facts = ctx.facts
    # what the key covers: components toggled into the hash (C05.R1-R3 classification of every hash writer)
    covered = set()
    for m in ('put', 'remove', 'push_en_passant_target', 'pop_en_passant_target', 'lose_castle_rights', 'pop_castle_rights',
              'toggle_turn', 'set_turn'):
        name = BOARD + '::' + m
        outs = Engine(facts).run(name)
        ctx.touch(name)
        for o in outs:
            ks = c05.final_hash_toggles(o)
            for k in (ks or []):
                covered.add({'piece': 'placement', 'ep': 'en-passant target', 'rights': 'castling rights'}.get(k[0], k[0]))
            if m in ('toggle_turn', 'set_turn') and (ks or o.heap.get(c05.HASH_LV) is not None):
                covered.add('side to move')
    # any writer of Board.turn that also feeds the hash would cover the side to move
    need = ['placement', 'castling rights', 'en-passant target', 'side to move']
    name = PI + '::count_current_position'
    for comp in need:
        ok = comp in covered
        ctx.ob(rule, name, '%s %s' % (comp, 'in key' if ok else 'not in key'), ok, found=sorted(covered), expected=need,
               why='two occurrences count as a repetition only if placement, side to move, castling rights and en-passant target all agree; '
                   'a key that ignores one of them merges different positions')


def r2b_key_faithful(ctx):
    """the repetition key IS the position key: it distinguishes positions exactly if the toggle discipline of C05.R1-R3 holds"""
    sub = type(ctx)(ctx.prop, ctx.tier, ctx.facts, ctx.facts_info, ctx.seed)
    c05.r1_placement(sub)
    c05.r23_stacks(sub)
    c05.r5_tables(sub)
    for s in sub.samples:
        ctx.ob(s['rule'].replace('C05.', 'C17.R2/C05.'), s['function'], s['instance'], s['ok'], found=s['found'], expected=s['expected'],
               why='a recurrence separated by a lapsed en-passant opportunity or by a loss of castling rights must not be counted as the same '
                   'position, and equal positions must get equal keys: the key has to be a function of the current position only',
               nontrivial='floor' not in s['instance'])


def r3_registration(ctx):
    rule = 'C17.R3-registration'
    facts = ctx.facts
    cnt = BOARD + '::count_current_position'
    appliers = ['apply_chess_move', 'make_alpha_beta_best_move', 'make_waterfall_book_then_alpha_beta_move']
    sites = facts.call_sites(cnt, crate='chess', kinds=('lib', 'bin'))
    ctx.extra['count_current_position_callers'] = sorted({f.name for f, _ in sites})
    for m in appliers:
        name = GAME + '::' + m
        fn = facts.need_fn(name)
        ctx.touch(name)
        eng = Engine(facts, inline_filter=lambda n, c: n.startswith(GAME + '::') and n != name and 'select' not in n, max_paths=5000,
                     opaque={CHESSMOVE + '::apply'})
        outs = eng.run(name)
        n_ok = 0
        missing = 0
        for o in outs:
            if o.kind != 'return' or not is_ok_result(o.value):
                continue
            applied = [e for e in o.events if e[0] == 'call' and e[1] == CHESSMOVE + '::apply']
            if not applied:
                continue
            n_ok += 1
            reg = [e for e in o.events if e[0] == 'call' and e[1] == cnt and o.events.index(e) > o.events.index(applied[0])]
            if not reg:
                missing += 1
        if n_ok == 0:
            ctx.anchor_missing(rule, name, 'no Ok path that applies a move')
            continue
        ctx.ob(rule, name, 'no count_current_position on the Ok path' if missing else 'registers the new position',
               missing == 0, found={'ok paths applying a move': n_ok, 'without registration': missing}, expected='count_current_position after apply',
               why='a game played through the game API in which a position occurs for the third time must be reported as drawn; '
                   'nothing is ever registered, so max_seen_position_count stays at its initial value')


def r4_constant(ctx):
    rule = 'C17.R4-draw-at-three'
    facts = ctx.facts
    from .c16 import game_ending_table
    name, outs = game_ending_table(ctx)
    vals = set()
    for o in outs:
        if o.kind != 'return' or o.value[0] != 'agg' or o.value[3] != 'Some':
            continue
        if dict(o.value[4])['0'][3] != 'Draw':
            continue
        for a, v in o.conds:
            if a[0] == 'call' and a[1] == BOARD + '::max_seen_position_count' and isinstance(v, int):
                vals.add(('==', v))
            elif any(s[0] == 'call' and s[1] == BOARD + '::max_seen_position_count' for s in subterms(a)) and a[0] == 'bin' and is_true(v):
                vals.add((a[1], a[3][1] if is_const(a[3]) else show(a[3])))
    ok = vals in ({('==', 3)}, {('Ge', 3)}, {('Gt', 2)})
    ctx.ob(rule, name, 'repetition draw at count %s' % sorted(vals), ok, found=sorted(vals), expected=[('==', 3)],
           why='the draw is claimed at the third occurrence')


def run(ctx):
    r1_inverse(ctx)
    r2_key_coverage(ctx)
    r2b_key_faithful(ctx)
    r3_registration(ctx)
    r4_constant(ctx)
