"""C17 — repetition accounting."""
from sa.sym import Engine, show, show_cond, subterms, C, is_const, PathLimit
from sa.facts import field_writes
from .common import *
from .tables import is_true, is_false
from . import c05

EXPLANATION = (
    'Static clauses: (R1) count_current_position and uncount_current_position are inverse: same map, same key term, +1 / -1 on the '
    "entry, one push / one pop of the reported count; (R2) the repetition key must cover what makes two positions 'the same': "
    'placement, castling rights, en-passant target (covered by the position key per C05) and the side to move (nothing toggles the key '
    "when the turn changes); (R3) every function that plays a move for good on the game's board registers the resulting position on its"
    ' Ok path; (R4) the repetition draw fires at a count of exactly 3; (R5) the occurrence table and the max-count stack are written '
    "only by count / uncount (imports the C05.R4 rows: no 'forget old positions' shortcut, no sharing between board copies). Counts "
    'along real games are NOT decided. R1 accepts the update as entry().and_modify().or_insert(), get_mut, or match on '
    'Entry::{Occupied, Vacant} with get_mut / into_mut. (R6) = C16.R6: the game reports the verdict computed now. R1 also knows un-'
    'counting written as match get_mut(key) { Some(c) if *c > 0 => { *c -= 1; pop } _ => nothing }: the zero / absent arms leave table '
    'and stack alone.'
)
ASSUMPTIONS = [
    "HashMap::entry/and_modify/or_insert/get and Vec::push/pop have their documented meaning",
    "rustc MIR construction and the chessfacts extractor are faithful",
]

PI = 'chess::board::position_info::PositionInfo'
GAME = 'chess::game::game::Game'
HASHF = ('fld', ('der', ('p', 1)), 'current_position_hash')


def closure_step(facts, name):
    """the closure passed to and_modify: returns +1 / -1 / None"""
    fn = facts.fns.get(name)
    if fn is None:
        return None
    outs = Engine(facts).run(name)
    for o in outs:
        if o.kind != 'return':
            continue
        for e in o.events:
            if e[0] == 'write':
                v = e[2]
                if v[0] == 'bin' and v[1] in ('Add', 'Sub') and v[3] == C(1):
                    return 1 if v[1] == 'Add' else -1
    return None


def _deref(t):
    while isinstance(t, tuple) and t and t[0] in ('ref', 'der', 'K'):
        t = t[1]
    return t


def map_updates(facts, o):
    """Normalised updates of a HashMap on one path: list of dicts {map, key, present: delta|None, absent: inserted value|None, cond}.

    Idioms recognised: entry(k).and_modify(|c| *c += d)[.or_insert(v)];  if let Some(c) = get_mut(&k) { *c += d };
    *entry(k).or_insert(v) += d."""
    ups = []
    evs = o.events
    for e in evs:
        if e[0] != 'call':
            continue
        if e[1].endswith('::and_modify') and e[2][1][0] == 'agg' and e[2][1][1] == 'closure':
            ent = e[2][0]
            if ent[0] == 'call' and ent[1].endswith('::entry'):
                me = ('call', e[1], e[2], e[3])
                ins = [x for x in evs if x[0] == 'call' and x[1].endswith('::or_insert') and x[2][0] == me]
                ups.append({'map': _deref(ent[2][0]), 'key': _deref(ent[2][1]), 'present': closure_step(facts, e[2][1][2]),
                            'absent': ins[0][2][1] if ins else None, 'closure': e[2][1][2]})
        if e[1].endswith('HashMap::<K, V, S, A>::get_mut'):
            me = ('call', e[1], e[2], e[3])
            slot = ('der', ('fld', me, 'Some.0'))
            hit = dict((a, v) for a, v in o.conds).get(('discr', me))
            wr = [x for x in evs if x[0] == 'write' and _deref(x[1]) == ('fld', me, 'Some.0')]
            delta = None
            for x in wr:
                v = x[2]
                if v[0] == 'bin' and v[1] in ('Add', 'Sub') and v[3] == C(1) and _deref(v[2]) == ('fld', me, 'Some.0'):
                    delta = 1 if v[1] == 'Add' else -1
            # `Some(c) if *c > 0 => ..`: the arm that finds a count of zero leaves the entry alone, like the arm that finds none
            zero = any(a[0] == 'bin' and a[1] == 'Gt' and a[3] == C(0) and _deref(a[2]) == ('fld', me, 'Some.0') and is_false(v) for a, v in o.conds)
            if hit == 1 and not wr and zero:
                ups.append({'map': _deref(e[2][0]), 'key': _deref(e[2][1]), 'present': 'not-taken', 'absent': None, 'closure': None})
            elif hit == 1 or wr:
                ups.append({'map': _deref(e[2][0]), 'key': _deref(e[2][1]), 'present': delta, 'absent': None, 'closure': None})
            else:
                ups.append({'map': _deref(e[2][0]), 'key': _deref(e[2][1]), 'present': 'not-taken', 'absent': None, 'closure': None})
        if e[1].endswith('HashMap::<K, V, S, A>::entry'):
            # match map.entry(k) { Entry::Occupied(mut e) => *e.get_mut() += d, Entry::Vacant(_) => .. }
            me = ('call', e[1], e[2], e[3])
            used_by_chain = any(x[0] == 'call' and (x[1].endswith('::and_modify') or x[1].endswith('::or_insert')) and x[2] and x[2][0] == me for x in evs)
            which = dict((a, v) for a, v in o.conds).get(('discr', me))
            if not used_by_chain and which is not None:
                gm = [x for x in evs if x[0] == 'call' and (x[1].endswith('OccupiedEntry::<\'a, K, V, A>::get_mut') or x[1].endswith('OccupiedEntry::<\'a, K, V, A>::into_mut'))]
                delta = None
                for g in gm:
                    slot = ('call', g[1], g[2], g[3])
                    for x in evs:
                        if x[0] == 'write' and _deref(x[1]) == slot:
                            v = x[2]
                            if v[0] == 'bin' and v[1] in ('Add', 'Sub') and v[3] == C(1) and _deref(v[2]) == slot:
                                delta = 1 if v[1] == 'Add' else -1
                ins = [x for x in evs if x[0] == 'call' and x[1].endswith('VacantEntry::<\'a, K, V, A>::insert')]
                if which == 0:
                    ups.append({'map': _deref(e[2][0]), 'key': _deref(e[2][1]), 'present': delta, 'absent': None, 'closure': None, 'arm': 'occupied'})
                else:
                    ups.append({'map': _deref(e[2][0]), 'key': _deref(e[2][1]), 'present': 'not-taken', 'absent': ins[0][2][1] if ins else None, 'closure': None,
                                'arm': 'vacant'})
        if e[1].endswith('::or_insert') and e[2][0][0] == 'call' and e[2][0][1].endswith('::entry'):
            me = ('call', e[1], e[2], e[3])
            ent = e[2][0]
            wr = [x for x in evs if x[0] == 'write' and _deref(x[1]) == me]
            for x in wr:
                v = x[2]
                if v[0] == 'bin' and v[1] in ('Add', 'Sub') and v[3] == C(1) and _deref(v[2]) == me:
                    d = 1 if v[1] == 'Add' else -1
                    try:
                        ab = C(e[2][1][1] + d) if is_const(e[2][1]) else None
                    except Exception:
                        ab = None
                    ups.append({'map': _deref(ent[2][0]), 'key': _deref(ent[2][1]), 'present': d, 'absent': ab, 'closure': None})
    return ups


def r1_inverse(ctx):
    rule = 'C17.R1-inverse-pair'
    facts = ctx.facts
    info = {}
    for m in ('count_current_position', 'uncount_current_position'):
        name = PI + '::' + m
        outs = Engine(facts).run(name)
        ctx.touch(name)
        rets = [o for o in outs if o.kind == 'return']
        if not rets:
            ctx.anchor_missing(rule, name, 'no return path')
            return
        per_path = []
        for o in rets:
            ups = map_updates(facts, o)
            for u_ in ups:
                if u_.get('closure'):
                    ctx.touch(u_['closure'])
            push = [e for e in o.events if e[0] == 'call' and e[1].endswith('Vec::<T, A>::push')]
            pop = [e for e in o.events if e[0] == 'call' and e[1].endswith('Vec::<T, A>::pop')]
            per_path.append(dict(updates=ups, pushes=len(push), pops=len(pop), stack=sorted({show(_deref(e[2][0])) for e in push + pop})))
        info[m] = per_path
    hkey = _deref(HASHF)

    def summary(paths):
        return [{'updates': [{k: (show(v) if isinstance(v, tuple) else v) for k, v in u_.items() if k != 'closure'} for u_ in p_['updates']],
                 'pushes': p_['pushes'], 'pops': p_['pops']} for p_ in paths]
    c, u = info['count_current_position'], info['uncount_current_position']
    def count_ok(u_):
        # `match map.entry(k)`: the occupied arm adds one, the vacant arm inserts one (the two arms are the two paths); any other form
        # does both in one chain
        if u_.get('arm') == 'occupied':
            return u_['present'] == 1 and u_['absent'] is None
        if u_.get('arm') == 'vacant':
            return u_['absent'] == C(1)
        return u_['present'] == 1 and u_['absent'] == C(1)
    okc = bool(c) and all(len(p_['updates']) == 1 and p_['updates'][0]['key'] == hkey and count_ok(p_['updates'][0])
                          and p_['pushes'] == 1 and p_['pops'] == 0 for p_ in c)
    ctx.ob(rule, PI + '::count_current_position', 'entry(key).and_modify(+1).or_insert(1); push(count)', okc,
           found=summary(c), expected='on every path: key = current_position_hash, present: +1, absent: insert 1, one push')
    oku = bool(u) and all(len(p_['updates']) == 1 and p_['updates'][0]['key'] == hkey and p_['updates'][0]['present'] in (-1, 'not-taken') and p_['updates'][0]['absent'] is None
                          and (p_['pops'] == 1 or (p_['pops'] == 0 and p_['updates'][0]['present'] == 'not-taken')) and p_['pushes'] == 0 for p_ in u) and \
        any(p_['updates'] and p_['updates'][0]['present'] == -1 and p_['pops'] == 1 for p_ in u)
    ctx.ob(rule, PI + '::uncount_current_position', 'entry(key).and_modify(-1); pop()', oku,
           found=summary(u), expected='on every path: key = current_position_hash, present: -1, nothing inserted, one pop')
    maps = {show(x['map']) for p_ in c + u for x in p_['updates']}
    keys = {show(x['key']) for p_ in c + u for x in p_['updates']}
    stacks = {x for p_ in c + u for x in p_['stack']}
    ctx.ob(rule, PI, 'count and uncount use the same map and key term', len(maps) == 1 and len(keys) == 1 and len(stacks) == 1,
           found={'maps': sorted(maps), 'keys': sorted(keys), 'stacks': sorted(stacks)}, expected='identical',
           why='unregistering must be the exact inverse of registering')


def r2_key_coverage(ctx):
    rule = 'C17.R2-key-coverage'
    facts = ctx.facts
    # what the key covers: components toggled into the hash (C05.R1-R3 classification of every hash writer)
    covered = set()
    for m in ('put', 'remove', 'push_en_passant_target', 'pop_en_passant_target', 'lose_castle_rights', 'pop_castle_rights',
              'toggle_turn', 'set_turn'):
        name = BOARD + '::' + m
        outs = Engine(facts).run(name)
        ctx.touch(name)
        for o in outs:
            ks = c05.final_hash_toggles(o)
            for k in (ks or []):
                covered.add({'piece': 'placement', 'ep': 'en-passant target', 'rights': 'castling rights'}.get(k[0], k[0]))
            if m in ('toggle_turn', 'set_turn') and (ks or o.heap.get(c05.HASH_LV) is not None):
                covered.add('side to move')
    # any writer of Board.turn that also feeds the hash would cover the side to move
    need = ['placement', 'castling rights', 'en-passant target', 'side to move']
    name = PI + '::count_current_position'
    for comp in need:
        ok = comp in covered
        ctx.ob(rule, name, '%s %s' % (comp, 'in key' if ok else 'not in key'), ok, found=sorted(covered), expected=need,
               why='two occurrences count as a repetition only if placement, side to move, castling rights and en-passant target all agree; '
                   'a key that ignores one of them merges different positions')


def r2b_key_faithful(ctx):
    """the repetition key IS the position key: it distinguishes positions exactly if the toggle discipline of C05.R1-R3 holds"""
    sub = type(ctx)(ctx.prop, ctx.tier, ctx.facts, ctx.facts_info, ctx.seed)
    c05.r1_placement(sub)
    c05.r23_stacks(sub)
    c05.r5_tables(sub)
    for s in sub.samples:
        ctx.ob(s['rule'].replace('C05.', 'C17.R2/C05.'), s['function'], s['instance'], s['ok'], found=s['found'], expected=s['expected'],
               why='a recurrence separated by a lapsed en-passant opportunity or by a loss of castling rights must not be counted as the same '
                   'position, and equal positions must get equal keys: the key has to be a function of the current position only',
               nontrivial='floor' not in s['instance'])


def r3_registration(ctx):
    rule = 'C17.R3-registration'
    facts = ctx.facts
    cnt = BOARD + '::count_current_position'
    appliers = ['apply_chess_move', 'make_alpha_beta_best_move', 'make_waterfall_book_then_alpha_beta_move']
    sites = facts.call_sites(cnt, crate='chess', kinds=('lib', 'bin'))
    ctx.extra['count_current_position_callers'] = sorted({f.name for f, _ in sites})
    for m in appliers:
        name = GAME + '::' + m
        fn = facts.need_fn(name)
        ctx.touch(name)
        eng = Engine(facts, inline_filter=lambda n, c: n.startswith(GAME + '::') and n != name and 'select' not in n, max_paths=5000,
                     opaque={CHESSMOVE + '::apply'})
        outs = eng.run(name)
        n_ok = 0
        missing = 0
        for o in outs:
            if o.kind != 'return' or not is_ok_result(o.value):
                continue
            applied = [e for e in o.events if e[0] == 'call' and e[1] == CHESSMOVE + '::apply']
            if not applied:
                continue
            n_ok += 1
            reg = [e for e in o.events if e[0] == 'call' and e[1] == cnt and o.events.index(e) > o.events.index(applied[0])]
            if not reg:
                missing += 1
        if n_ok == 0:
            ctx.anchor_missing(rule, name, 'no Ok path that applies a move')
            continue
        ctx.ob(rule, name, 'no count_current_position on the Ok path' if missing else 'registers the new position',
               missing == 0, found={'ok paths applying a move': n_ok, 'without registration': missing}, expected='count_current_position after apply',
               why='a game played through the game API in which a position occurs for the third time must be reported as drawn; '
                   'nothing is ever registered, so max_seen_position_count stays at its initial value')


def r4_constant(ctx):
    """the repetition draw fires at the third occurrence: decided by evaluating the count conditions of every return path of
    game_ending for counts 0..8 (half-move clock held at 0), whatever the comparison is spelled like"""
    rule = 'C17.R4-draw-at-three'
    facts = ctx.facts
    from .c16 import game_ending_table
    from sa.evalterm import ev, Unevaluable
    name, outs = game_ending_table(ctx)
    count_terms, clock_terms = set(), set()
    for o in outs:
        for a, v in o.conds:
            for s_ in subterms(a):
                if s_[0] == 'call' and s_[1] == BOARD + '::max_seen_position_count':
                    count_terms.add(s_)
                if s_[0] == 'call' and s_[1] == BOARD + '::halfmove_clock':
                    clock_terms.add(s_)

    def verdict(o):
        v = o.value
        if o.kind != 'return' or v is None or v[0] != 'agg':
            return None
        if v[3] == 'None':
            return 'None'
        inner = dict(v[4]).get('0')
        return inner[3] if inner is not None and inner[0] == 'agg' else None

    def holds(o, n):
        env = {t: n for t in count_terms}
        env.update({t: 0 for t in clock_terms})
        for a, v in o.conds:
            if not any(s_ in clock_terms or s_ in count_terms for s_ in subterms(a)):
                continue
            try:
                x = ev(a, env)
            except Unevaluable:
                return None
            if isinstance(v, tuple) and v[0] == 'not':
                if x in v[1]:
                    return False
            elif x != int(v):
                return False
        return True
    table = {}
    for n_ in range(0, 9):
        live = {verdict(o) for o in outs if verdict(o) in ('Draw', 'None') and holds(o, n_)}
        table[n_] = sorted(live)
    # counts above three cannot arise if play stops at the draw: `== 3` and `>= 3` are both accepted there
    ok = bool(count_terms) and all(table[n_] == ['None'] for n_ in (0, 1, 2)) and table[3] == ['Draw'] and \
        (all(table[n_] == ['Draw'] for n_ in range(4, 9)) or all(table[n_] == ['None'] for n_ in range(4, 9)))
    ctx.ob(rule, name, 'repetition draw at the third occurrence', ok, found={str(k): v for k, v in table.items()}, expected='None for counts 0-2, Draw at 3',
           why='the draw is claimed at the third occurrence, not earlier and not later')


def r5_who_may_write(ctx):
    """the occurrence table and the max-count stack change only in count / uncount (= the C05.R4 rows for PositionInfo.position_count
    and max_seen_position_count_stack): any other writer (a "forget old positions" shortcut) makes counts differ from registrations"""
    import_rules(ctx, 'C17.R5-table-writers', [c05.r4_who_may_write],
                 'the count reported for a position must equal the number of registrations still in force; a second writer of the table '
                 '(clearing it on an irreversible move, say) is not undone by undo and loses registrations made before it',
                 keep=lambda s: 'position_count' in s['function'] or 'count_current_position' in s['function'], floor=2)


def run(ctx):
    # the third occurrence is reported through the game API only if the game reports the verdict computed now (not a remembered status)
    from . import c16
    import_rules(ctx, 'C17.R6-game-reports-current-verdict', [c16.r6_game_reports_current_verdict],
                 'a game in which a position occurs for the third time is reported as drawn at that moment', floor=1)
    r5_who_may_write(ctx)
    r1_inverse(ctx)
    r2_key_coverage(ctx)
    r2b_key_faithful(ctx)
    r3_registration(ctx)
    r4_constant(ctx)
