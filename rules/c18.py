"""C18 — static evaluation: colour symmetry and dominance of mate scores."""
import itertools

from sa.sym import Engine, show, show_cond, subterms, C, is_const, PathLimit
from .common import *
from .tables import is_true, is_false, pin

EXPLANATION = (
    'Static clauses: (R1) the two square->bonus-index tables are permutations of 0..63 and mirror images of each other (const-evaluated'
    ' tables); (R2) board_material_score = f(White) - f(Black) with all other arguments equal; in f the colour parameter is used only '
    'to select the piece set and the index mapping; the amount one piece adds (read off the accumulation, whichever loop / fold / table'
    " / function form produces it) is evaluated on its whole domain 6 kinds x 64 squares x 2 phases for both colours: White's value on "
    "s equals Black's on the rotated square 63 - s, and a piece is counted iff the bit of its square is set in its piece set; (R3) "
    "is_endgame's truth table over its atoms is invariant under swapping the colours; (R4) interval bound recomputed from the "
    'constants: for legal material the score magnitude stays below every mate score and inside i16; (R5) the mate branch returns '
    'BLACK_WINS - d for a mated White and WHITE_WINS + d for a mated Black (strictly monotone in remaining depth d, inside i16 for d <='
    ' 255, u8 -> i16 cast lossless), stalemate/draw return 0 - decided by evaluating the returned term for every remaining depth 0..255'
    ' per scored colour -, and every value score returns is one of these or the material score of this board (no remembered value). The'
    ' numeric equality score(mirror(p)) == -score(p) follows from R1-R3 by a symmetry argument that is stated, not mechanically '
    'checked. (R6) the verdict (mate / stalemate / draw) that selects the branch is computed from this board and the side to move on '
    "this call (game_ending's inputs), not taken from a stored value. R2 recognises bit-scan loops by evaluating the update term; R6 "
    'also imports the in-check definition (C06.R1). R5 falls back to summarising every other function of the module when score asks its'
    ' verdict of something that generates moves.'
)
ASSUMPTIONS = [
    "legal material: one king per side, at most 8 pawns-or-promoted pieces plus the initial complement",
    "rustc const evaluation and the chessfacts extractor are faithful",
]

EV = 'chess::evaluate::'
ET = EV + 'evaluation_tables::'
COLOR = 'chess::board::color::Color'


def arr(v):
    return list(v[1]) if isinstance(v, tuple) and v[0] == 'array' else None


def r1_mirror(ctx):
    rule = 'C18.R1-mirrored-indices'
    f = ctx.facts.consts
    w, b = arr(f.get(ET + 'SQUARE_TO_WHITE_BONUS_INDEX')), arr(f.get(ET + 'SQUARE_TO_BLACK_BONUS_INDEX'))
    if w is None or b is None:
        # no index tables under these names (e.g. an index function instead): the mirrored look-up is decided by R2-summand-symmetry
        ctx.ob(rule, ET + 'SQUARE_TO_*_BONUS_INDEX', 'index tables absent: mirrored look-up decided by evaluation of the summand (R2)', True, nontrivial=False)
        return None
    ctx.ob(rule, ET + 'SQUARE_TO_WHITE_BONUS_INDEX', 'permutation of 0..63', sorted(w) == list(range(64)), found=len(set(w)), expected=64)
    ctx.ob(rule, ET + 'SQUARE_TO_BLACK_BONUS_INDEX', 'permutation of 0..63', sorted(b) == list(range(64)), found=len(set(b)), expected=64)
    bad = [i for i in range(64) if len(w) == 64 and len(b) == 64 and w[i] != b[63 - i]]
    ctx.ob(rule, ET + 'SQUARE_TO_*_BONUS_INDEX', 'WHITE[i] == BLACK[63-i] for all 64 squares', len(w) == 64 and len(b) == 64 and not bad,
           found={'mismatching squares': [sq_name(1 << i) for i in bad][:8]}, expected='none',
           why='Black must read the bonus a mirrored White piece would read, otherwise the evaluation is not colour-symmetric')
    # the white table must be the vertical flip of the natural order (bonus tables are written from White's side, rank 8 first)
    flip = [8 * (7 - i // 8) + i % 8 for i in range(64)]
    ctx.ob(rule, ET + 'SQUARE_TO_WHITE_BONUS_INDEX', 'rank flip of the square order (tables listed from rank 8 down)', w == flip,
           found=w[:8], expected=flip[:8])
    return w, b


def material_source(ctx):
    """(kind, name, values): the per-piece material values, from the constant table MATERIAL_VALUES or, when the table was turned into a
    function Piece -> i16 of the tables module, from that function tabulated on the six pieces"""
    facts = ctx.facts
    mv = arr(facts.consts.get(ET + 'MATERIAL_VALUES'))
    if mv is not None:
        return 'const', ET + 'MATERIAL_VALUES', list(mv)
    cands = [n for n, f in facts.fns.items() if n.startswith(ET) and f.kind != 'Closure'
             and (f.raw.get('sig') or '').replace(' ', '').endswith('fn(chess::board::piece::Piece)->i16')]
    if len(cands) != 1:
        return None, None, None
    vals = []
    for pn in PIECES:
        outs = [o for o in Engine(facts, fold_only=()).run(cands[0], args=[piece(pn)]) if o.kind != 'abort']
        if len(outs) != 1 or outs[0].kind != 'return' or not is_const(outs[0].value):
            return None, None, None
        vals.append(outs[0].value[1])
    ctx.touch(cands[0])
    return 'fn', cands[0], vals


def is_material_leaf(t, msrc):
    kind, mname, _ = msrc
    if kind == 'const':
        return t[0] == 'named' and t[1] == mname
    return kind == 'fn' and t[0] == 'call' and t[1] == mname


def r2_colour_blind(ctx):
    rule = 'C18.R2-colour-blind'
    facts = ctx.facts
    # the per-colour material function is whatever board_material_score subtracts: f(.., White, ..) - f(.., Black, ..)
    n2 = EV + 'board_material_score'
    ev_fns = {n for n in facts.fns if n.startswith(EV) and n != n2 and facts.fns[n].crate == 'chess'}
    outs2 = Engine(facts, readonly=ev_fns).run(n2)
    ctx.touch(n2)
    rets2 = [o for o in outs2 if o.kind == 'return']
    name, colp, ok_diff = None, None, False
    if len(rets2) == 1:
        v = rets2[0].value
        if v[0] == 'bin' and v[1] == 'Sub' and v[2][0] == 'call' and v[3][0] == 'call' and v[2][1] == v[3][1] and len(v[2][2]) == len(v[3][2]):
            wpos = [i for i, (x, y) in enumerate(zip(v[2][2], v[3][2])) if x != y]
            if len(wpos) == 1 and v[2][2][wpos[0]] == WHITE and v[3][2][wpos[0]] == BLACK:
                name, colp, ok_diff = v[2][1], wpos[0] + 1, True
    ctx.ob(rule, n2, 'score(White) - score(Black)', ok_diff, found=show(rets2[0].value) if rets2 else None,
           expected='f(board, White, ..) - f(board, Black, ..) with all other arguments equal')
    if name is None:
        return
    CP = ('p', colp)
    pieces_fn = BOARD + '::pieces'
    msrc = material_source(ctx)
    eng = Engine(facts, readonly={pieces_fn, EV + 'is_endgame', 'chess::board::piece_set::PieceSet::locate'} | ({msrc[1]} if msrc[0] == 'fn' else set()), max_paths=20000)
    outs = eng.run(name)
    ctx.touch(name)
    cd = {facts.variant_discr(COLOR, c): c for c in ('White', 'Black')}
    uses = set()
    table_by_colour = {}
    for o in outs:
        col = cd.get(pin(dict(o.conds).get(('discr', CP))))
        terms = [a for a, v in o.conds] + [o.value] if o.value else [a for a, v in o.conds]
        for e in o.events:
            if e[0] == 'call':
                terms.extend(e[2])
            elif e[0] == 'assert':
                terms.append(e[2])
            elif e[0] == 'loop_head':
                terms.extend(v_ for v_ in e[3].values() if isinstance(v_, tuple))
        for t in terms:
            if t is None:
                continue
            for s in subterms(t):
                if s == CP:
                    continue
                if s[0] == 'discr' and s[1] == CP:
                    uses.add('match colour')
                elif s[0] == 'call' and CP in s[2]:
                    uses.add('arg of ' + s[1])
                elif CP in s[1:] and s[0] not in ('discr', 'call'):
                    uses.add('other: ' + show(s)[:60])
                if s[0] == 'named' and 'BONUS_INDEX' in s[1]:
                    table_by_colour.setdefault(col, set()).add(s[1].rsplit('::', 1)[-1])
    allowed = {'match colour', 'arg of ' + pieces_fn}
    ctx.ob(rule, name, 'colour parameter used only to pick the piece set and the index table', uses <= allowed and 'arg of ' + pieces_fn in uses,
           found=sorted(uses), expected=sorted(allowed), why='any other use of the colour makes the score colour dependent')
    # the summand itself is decided by evaluation on its whole domain, whichever tables / functions / loop forms produce it
    r2_summand_symmetry(ctx, name, colp, msrc)
    return
    want = {'White': {'SQUARE_TO_WHITE_BONUS_INDEX'}, 'Black': {'SQUARE_TO_BLACK_BONUS_INDEX'}}
    for c in ('White', 'Black'):
        ctx.ob(rule, name, '%s uses %s' % (c, '/'.join(sorted(table_by_colour.get(c, {'<none>'})))), table_by_colour.get(c) == want[c],
               found=sorted(table_by_colour.get(c, [])), expected=sorted(want[c]))
    # accumulated summand: MATERIAL_VALUES[piece] + BONUS_TABLES[piece][is_endgame][index_lookup[i]]
    # leaves of the additions that update the accumulator in one iteration (profile independent: no reliance on overflow checks)
    shapes = set()

    def add_leaves(t):
        if t[0] == 'bin' and t[1] in ('Add', 'WAdd', 'AddUnchecked'):
            return add_leaves(t[2]) + add_leaves(t[3])
        if t[0] == 'fld' and t[2] == '0' and t[1][0] == 'agg' and t[1][1] == 'tuple':
            return add_leaves(t[1][4][0][1])       # (a + b, overflowed).0
        return [t]
    for o in outs:
        if o.kind != 'backedge' or not o.locals:
            continue
        for l, t in o.locals.items():
            if isinstance(t, tuple) and t[0] == 'bin' and any(is_material_leaf(s_, msrc) for s_ in subterms(t)):
                for x in add_leaves(t):
                    names = sorted({('MATERIAL_VALUES' if is_material_leaf(s_, msrc) else s_[1].rsplit('::', 1)[-1]) for s_ in subterms(x) if s_[0] == 'named' or is_material_leaf(s_, msrc)})
                    if names:
                        shapes.add(tuple(names))
    ctx.ob(rule, name, 'summands are MATERIAL_VALUES[piece] and BONUS_TABLES[piece][endgame][index]',
           ('MATERIAL_VALUES',) in shapes and any('BONUS_TABLES' in s for s in shapes), found=sorted(shapes),
           expected=[('MATERIAL_VALUES',), ('BONUS_TABLES', 'SQUARE_TO_*_BONUS_INDEX')])
    # the per-piece summand must be the same term for both colours up to the mirrored index table and the piece set
    import re as _re
    upd = {}
    for o in outs:
        if o.kind != 'backedge' or not o.locals:
            continue
        col = cd.get(pin(dict(o.conds).get(('discr', CP))))
        for l, t in o.locals.items():
            if any(is_material_leaf(s, msrc) for s in subterms(t)) and t[0] == 'bin':
                s = show(t)
                s = s.replace('SQUARE_TO_WHITE_BONUS_INDEX', 'IDX').replace('SQUARE_TO_BLACK_BONUS_INDEX', 'IDX')
                s = _re.sub(r'[#@]\d+', '#', s)
                s = _re.sub(r'Color::(White|Black)', 'Color::SIDE', s)
                s = _re.sub(r'local\(\d+:\d+\)', 'local', s)
                upd.setdefault(col, set()).add(s)
    same = upd.get('White') == upd.get('Black') and bool(upd.get('White'))
    ctx.ob(rule, name, 'per-piece summand identical for both colours up to the mirrored index table', same,
           found={k: sorted(v)[:2] for k, v in upd.items()}, expected='material += MATERIAL_VALUES[p] + BONUS_TABLES[p][eg][IDX[i]] for both colours',
           why='any colour-dependent term in the sum breaks score(mirror(p)) == -score(p)')


def _tolist(v):
    if isinstance(v, tuple) and v and v[0] in ('array', 'tuple'):
        return [_tolist(x) for x in v[1]]
    return v


def evt(t, env, facts):
    """evaluation of an extracted term over constant tables: named constants, array literals, indexing, integer arithmetic"""
    from sa.evalterm import Unevaluable
    if t in env:
        return env[t]
    k = t[0]
    if k == 'c':
        v = t[1]
        if isinstance(v, bool):
            return int(v)
        if isinstance(v, int):
            return v
        raise Unevaluable(t)
    if k == 'named':
        v = facts.consts.get(t[1])
        if v is None:
            raise Unevaluable(t)
        return _tolist(v)
    if k == 'agg' and t[1] in ('array', 'tuple'):
        return [evt(x, env, facts) for _, x in t[4]]
    if k == 'agg' and t[1] == 'adt' and len(t[4]) == 1:
        return evt(t[4][0][1], env, facts)
    if k == 'idx':
        b = evt(t[1], env, facts)
        i = evt(t[2], env, facts)
        if not isinstance(b, list) or not isinstance(i, int) or not 0 <= i < len(b):
            raise Unevaluable(t)
        return b[i]
    if k in ('ref', 'K', 'der'):
        if t[1][0] == 'L':
            raise Unevaluable(t)
        return evt(t[1], env, facts)
    if k == 'cast':
        return evt(t[1], env, facts)
    if k == 'fld' and t[2] == '0':
        v = evt(t[1], env, facts)
        return v[0] if isinstance(v, list) else v
    if k == 'bin':
        op = t[1].replace('WithOverflow', '').replace('Unchecked', '')
        a, b = evt(t[2], env, facts), evt(t[3], env, facts)
        if isinstance(a, list) or isinstance(b, list):
            raise Unevaluable(t)
        f = {'Add': lambda: a + b, 'WAdd': lambda: a + b, 'Sub': lambda: a - b, 'Mul': lambda: a * b, 'BitXor': lambda: a ^ b, 'BitAnd': lambda: a & b,
             'BitOr': lambda: a | b, 'Shl': lambda: (a << b) & ((1 << 64) - 1) if 0 <= b < 64 else 0, 'Shr': lambda: a >> b if 0 <= b < 64 else 0,
             'Eq': lambda: int(a == b), 'Ne': lambda: int(a != b), 'Lt': lambda: int(a < b), 'Le': lambda: int(a <= b), 'Gt': lambda: int(a > b),
             'Ge': lambda: int(a >= b)}.get(op)
        if f is None:
            raise Unevaluable(t)
        return f()
    if k == 'un' and t[1] == 'Not':
        return int(not evt(t[2], env, facts))
    raise Unevaluable(t)


def _add_leaves(t):
    if t[0] == 'bin' and t[1] in ('Add', 'WAdd', 'AddUnchecked', 'AddWithOverflow'):
        return _add_leaves(t[2]) + _add_leaves(t[3])
    if t[0] == 'fld' and t[2] == '0' and t[1][0] == 'agg' and t[1][1] == 'tuple':
        return _add_leaves(t[1][4][0][1])
    if t[0] == 'fld' and t[2] == '0' and t[1][0] == 'bin' and t[1][1].endswith('WithOverflow'):
        return _add_leaves(('bin', 'Add', t[1][2], t[1][3])) if t[1][1].startswith('Add') else [t]
    return [t]


def _opaque_leaves(t, out):
    """maximal sub-terms that are not arithmetic over constants: call results, loop / adapter elements, discriminants"""
    k = t[0]
    if k in ('c', 'named'):
        return
    if k in ('call', 'elem', 'lv', 'discr', 'hv', 'p', 'unk', 'pos'):
        out.add(t)
        return
    if k == 'fld' and t[1][0] in ('call', 'elem', 'lv', 'hv', 'fld') and not (t[2] == '0' and t[1][0] == 'agg'):
        # projection out of an opaque value (next(..).Some.0): opaque as a whole
        r = t
        while r[0] == 'fld':
            r = r[1]
        if r[0] in ('call', 'elem', 'lv', 'hv'):
            out.add(t)
            return
    if k == 'agg':
        for _, x in t[4]:
            _opaque_leaves(x, out)
        return
    for x in t[1:]:
        if isinstance(x, tuple) and x and isinstance(x[0], str):
            _opaque_leaves(x, out)


def r2_summand_symmetry(ctx, name, colp, msrc):
    """The amount one piece adds to its side's score, as a function of (piece kind, square, endgame flag), read off the accumulation of the
    per-colour material function - whatever way the iteration is written - and evaluated on its whole domain (6 x 64 x 2) for both colours:
    White's value on square s must equal Black's on the square rotated by 180 degrees (63 - s); the piece is counted iff its bit is set."""
    rule = 'C18.R2-summand-symmetry'
    facts = ctx.facts
    from sa.evalterm import Unevaluable
    pieces_fn = BOARD + '::pieces'
    tables = {}
    detail = {}
    for col in ('White', 'Black'):
        args = [None] * (colp - 1) + [COLORS[col]]
        eng = Engine(facts, readonly={pieces_fn, EV + 'is_endgame', 'chess::board::piece_set::PieceSet::locate'} | ({msrc[1]} if msrc[0] == 'fn' else set()), max_paths=20000)
        outs = eng.run(name, args=args)
        found = None
        for o in outs:
            if o.kind != 'backedge':
                continue
            cands = [v for v in (o.locals or {}).values() if isinstance(v, tuple)] + ([o.value] if isinstance(o.value, tuple) else [])
            for t in cands:
                leaves = _add_leaves(t)
                accs = [x for x in leaves if x[0] == 'lv']
                rest = [x for x in leaves if x[0] != 'lv']
                if len(accs) != 1 or not rest or len(leaves) < 2:
                    continue
                if msrc[0] == 'fn':
                    # material value through a function Piece -> i16 (tabulated by material_source): read it as a table indexed by the piece
                    tab = ('agg', 'array', None, None, tuple((str(i_), C(v_)) for i_, v_ in enumerate(msrc[2])))

                    def _mat(x):
                        if not isinstance(x, tuple):
                            return x
                        if x and x[0] == 'call' and x[1] == msrc[1] and len(x[2]) == 1:
                            return ('idx', tab, ('discr', x[2][0]))
                        return tuple(_mat(y) for y in x)
                    rest = [_mat(x) for x in rest]
                op = set()
                for x in rest:
                    _opaque_leaves(x, op)
                pc = [x for x in op if x[0] == 'discr']
                others = [x for x in op if x not in pc]
                # the square leaf is the one a path condition ties to the located bitboard; the remaining leaf is the game-phase flag
                # (the result of is_endgame, or a bool handed in by the caller)
                def tied(x):
                    return [(a, v) for a, v in o.conds if any(s_ == x for s_ in subterms(a))
                            and any(s_[0] == 'call' and s_[1].endswith('PieceSet::locate') for s_ in subterms(a))]
                sq_ = [x for x in others if tied(x)]
                eg = [x for x in others if x not in sq_]
                if len(eg) == 1 and len(pc) == 1 and len(sq_) == 1:
                    found = (rest, eg[0], pc[0], sq_[0], tied(sq_[0]))
                    break
                # bit-scan form: the square is tz(R) of a loop-carried bitboard R that starts as the located squares and loses its lowest
                # set bit per iteration (every set bit is visited exactly once)
                bs = bitscan_loop(o)
                if bs is not None:
                    sq_ = [x for x in others if any(s_ in (bs['R'], bs['R0']) for s_ in subterms(x)) and any(s_[0] == 'call' and s_[1] == 'trailing_zeros' for s_ in subterms(x))]
                    eg = [x for x in others if x not in sq_]
                    src_ok = any(s_[0] == 'call' and s_[1].endswith('PieceSet::locate') for s_ in subterms(bs['init']))
                    if len(eg) == 1 and len(pc) == 1 and len(sq_) == 1 and src_ok:
                        found = (rest, eg[0], pc[0], sq_[0], ('bitscan', bs))
                        break
            if found:
                break
        if not found:
            ctx.ob(rule, name, '%s: per-piece summand recognised (accumulator + terms over piece, square, endgame flag)' % col, False,
                   expected='material += f(piece, square, is_endgame) inside the iteration over the squares of each piece kind')
            return
        rest, E, P, S, guard = found
        tbl = {}
        try:
            for p_ in range(6):
                for e_ in (0, 1):
                    for s_ in range(64):
                        tbl[(p_, s_, e_)] = sum(evt(x, {E: e_, ('cast', E, 'usize'): e_, ('cast', ('cast', E, 'u8'), 'usize'): e_, P: p_, S: s_}, facts) for x in rest)
        except (Unevaluable, TypeError, IndexError) as ex:
            ctx.ob(rule, name, '%s: per-piece summand evaluable over the constant tables' % col, False, found=[show(x)[:200] for x in rest] + [repr(ex)[:100]],
                   expected='MATERIAL_VALUES[piece] + BONUS_TABLES[piece][endgame][index(square)]')
            return
        tables[col] = tbl
        detail[col] = [show(x)[:120] for x in rest]
        # guard: counted iff bit `square` of the located bitboard is set (decided on all 64 x 64 (square, single-bit board) pairs)
        okg = len(guard) >= 1
        if okg and guard[0] == 'bitscan':
            # the scan visits exactly the set bits of locate(piece) of this colour's piece set
            okg = True
            guard = [(guard[1]['init'], 'bit-scan of')]
        elif okg:
            a, v = guard[0]
            loc = [s_ for s_ in subterms(a) if s_[0] == 'call' and s_[1].endswith('PieceSet::locate')][0]
            try:
                for s_ in range(64):
                    for j in range(64):
                        x = evt(a, {S: s_, loc: 1 << j, ('fld', loc, '0'): 1 << j}, facts)
                        holds = (x not in v[1]) if isinstance(v, tuple) and v and v[0] == 'not' else x == (int(v) if isinstance(v, bool) else v)
                        if holds != (s_ == j):
                            okg = False
            except (Unevaluable, TypeError):
                okg = False
            okg = okg and loc[2][1] == P[1] if False else okg
        ctx.ob(rule, name, '%s: a piece is counted iff the bit of its square is set in pieces(%s).locate(piece)' % (col, col), okg,
               found=[show_cond(c)[:160] for c in guard][:2], expected='(1 << square) & locate(piece) != 0')
    w, b = tables['White'], tables['Black']
    bad = [(p_, sq_name(1 << s_), e_, w[(p_, s_, e_)], b[(p_, 63 - s_, e_)]) for (p_, s_, e_) in sorted(w) if w[(p_, s_, e_)] != b[(p_, 63 - s_, e_)]]
    ctx.ob(rule, name, 'value of a White piece on s = value of a Black piece on the rotated square 63 - s (6 kinds x 64 squares x 2 phases)', not bad,
           found={'mismatches (piece, square, endgame, white, black)': bad[:4], 'summand': detail}, expected='equal for all 768 cases',
           why='the score of the colour-swapped, 180-degree rotated position must be exactly the negative: every piece must be worth to Black on the '
               'rotated square what it is worth to White')
    ctx.evaluations_note = len(w) * 2


def swap_colours(t):
    if not isinstance(t, tuple):
        return t
    if t and t[0] == 'fld' and t[2] in ('white', 'black'):
        return ('fld', swap_colours(t[1]), 'black' if t[2] == 'white' else 'white')
    return tuple(swap_colours(x) for x in t)


def r3_is_endgame(ctx):
    rule = 'C18.R3-endgame-symmetry'
    facts = ctx.facts
    name = EV + 'is_endgame'
    outs = Engine(facts).run(name)
    ctx.touch(name)
    rows = []
    atoms = []
    expanded = []
    for o in outs:
        if o.kind != 'return':
            continue
        if is_const(o.value):
            expanded.append((list(o.conds), bool(o.value[1])))
        else:
            # a row whose value is itself a test: split it into the two rows it stands for
            v = o.value
            neg = False
            while v[0] == 'un' and v[1] == 'Not':
                v = v[2]
                neg = not neg
            expanded.append((list(o.conds) + [(v, 1)], not neg))
            expanded.append((list(o.conds) + [(v, 0)], neg))
    for conds_, value_ in expanded:
        r = {}
        for a, v in conds_:
            tv = 1 if is_true(v) else (0 if is_false(v) else None)
            # atoms that are integer tests `x == 0` / `x != 0`
            if tv is None:
                ctx.ob(rule, name, 'unrecognised atom value', False, found=show_cond((a, v)))
                return
            r[a] = tv
            if a not in atoms:
                atoms.append(a)
        rows.append((r, value_))
    # atoms never consulted (short-circuit) are added as don't-cares so that the table can be mirrored
    for a in list(atoms):
        if swap_colours(a) not in atoms:
            atoms.append(swap_colours(a))
    colour_free = [a for a in atoms if swap_colours(a) == a]
    ctx.ob(rule, name, 'every atom tests one colour\'s state (%d atoms)' % len(atoms), not colour_free and len(atoms) <= 12,
           found=[show(a) for a in atoms], expected='atoms over white/black piece sets')
    if len(atoms) > 12:
        return

    def ev(assign):
        for r, val in rows:
            if all(assign[a] == tv for a, tv in r.items()):
                return val
        return None
    bad = []
    n = 0
    for bits in itertools.product((0, 1), repeat=len(atoms)):
        assign = dict(zip(atoms, bits))
        sw = {swap_colours(a): v for a, v in assign.items()}
        n += 1
        if ev(assign) != ev(sw):
            bad.append({show(a): v for a, v in assign.items()})
    ctx.ob(rule, name, 'truth table invariant under colour swap (%d assignments)' % n, not bad, found=bad[:3], expected=[],
           why='an endgame flag that depends on which colour has the material breaks score(mirror(p)) == -score(p)')


def r4_magnitude(ctx):
    rule = 'C18.R4-magnitude'
    f = ctx.facts.consts
    mv = material_source(ctx)[2]
    bt = f.get(ET + 'BONUS_TABLES')
    ww, bw = f.get(EV + 'WHITE_WINS'), f.get(EV + 'BLACK_WINS')
    if mv is None or bt is None or ww is None or bw is None:
        ctx.anchor_missing(rule, 'evaluation constants')
        return
    tables = [[arr(x) for x in arr(p)] for p in arr(bt)]
    pd = {v['name']: v['discr'] for v in ctx.facts.adts[PIECE_ADT]['variants']}
    best = {}
    worst = {}
    for n, d in pd.items():
        vals = [x for t in tables[d] for x in t]
        best[n] = mv[d] + max(vals)
        worst[n] = mv[d] + min(vals)
    nonking = [n for n in pd if n != 'King']
    ctx.ob(rule, ET + 'MATERIAL_VALUES', 'every non-king piece contributes a positive amount on every square', all(worst[n] > 0 for n in nonking),
           found={n: worst[n] for n in nonking}, expected='> 0')
    top = max(best[n] for n in nonking)
    max_side = best['King'] + 2 * best['Rook'] + 2 * best['Knight'] + 2 * best['Bishop'] + best['Queen'] + 8 * top
    min_side = worst['King']
    diff = max_side - min_side
    mate_floor = min(abs(ww), abs(bw)) - 255
    ctx.ob(rule, EV + 'board_material_score', 'per-side sum fits i16 (max %d)' % max_side, max_side <= 32767 and min_side >= -32768,
           found={'max_side': max_side, 'min_side': min_side}, expected='within i16', why='the evaluation must not overflow for any legal material')
    ctx.ob(rule, EV + 'board_material_score', '|white - black| <= %d < %d = weakest mate score' % (diff, mate_floor), diff < mate_floor,
           found={'max |score|': diff, 'mate floor': mate_floor}, expected='strictly below every mate score',
           why='material can never outweigh a mate')
    ctx.extra['interval'] = {'max_side': max_side, 'min_side': min_side, 'max_abs_score': diff, 'mate_floor': mate_floor}


def r5_mate_scores(ctx):
    rule = 'C18.R5-mate-scores'
    facts = ctx.facts
    name = EV + 'score'
    ro = {EV + 'game_ending', EV + 'board_material_score', BOARD + '::max_seen_position_count'}
    ctx.touch(name)
    ww, bw = facts.consts.get(EV + 'WHITE_WINS'), facts.consts.get(EV + 'BLACK_WINS')
    ge = 'chess::evaluate::GameEnding'
    dv = {facts.variant_discr(ge, n): n for n in ('Checkmate', 'Stalemate', 'Draw')}
    from sa.evalterm import ev, Unevaluable
    from sa.sym import wrap_int
    def run_score(col):
        try:
            return Engine(facts, readonly=ro).run(name, args=[None, None, COLORS[col], None])
        except PathLimit:
            # the verdict is asked of something other than game_ending (a helper that generates moves): summarise every other function of
            # the module and the generator, so that the paths of `score` itself are still enumerated and reported for what they return
            ro2 = ro | {n_ for n_ in facts.fns if (n_.startswith(EV) and n_ != name) or n_.startswith('chess::move_generator::MoveGenerator::')}
            return Engine(facts, readonly=ro2, max_paths=20000).run(name, args=[None, None, COLORS[col], None])
    seen = {}
    # the function is specialised on the scored side (so `if`, `match` and table look-ups indexed by the colour all fold) and the value
    # returned on each verdict is evaluated for every remaining depth 0..255
    for col in ('White', 'Black'):
        outs = run_score(col)
        for o in outs:
            if o.kind != 'return':
                continue
            conds = dict(o.conds)
            g = [a for a in conds if a[0] == 'discr' and a[1][0] == 'fld' and a[1][2] == 'Some.0' and a[1][1][0] == 'call' and a[1][1][1] == EV + 'game_ending']
            if not g:
                continue
            verdict = dv.get(conds[g[0]])
            if verdict is None:
                continue
            seen.setdefault((verdict, col), []).append((o.value, g[0][1][1]))
    exp = {('Checkmate', 'White'): (lambda d: bw - d, 'BLACK_WINS - depth'), ('Checkmate', 'Black'): (lambda d: ww + d, 'WHITE_WINS + depth'),
           ('Stalemate', 'White'): (lambda d: 0, '0'), ('Stalemate', 'Black'): (lambda d: 0, '0'),
           ('Draw', 'White'): (lambda d: 0, '0'), ('Draw', 'Black'): (lambda d: 0, '0')}
    for k, (want, want_s) in exp.items():
        gots = seen.get(k) or []
        ok = bool(gots) and isinstance(ww, int) and isinstance(bw, int)
        for val, _ in gots:
            try:
                for d in range(256):
                    x = ev(val, {('p', 4): d})
                    if wrap_int(x, 'i16') != want(d):
                        ok = False
                        break
            except Unevaluable:
                ok = False
        inst = '%s of %s' % k if k[0] == 'Checkmate' else '%s (%s to move)' % k
        ctx.ob(rule, name, '%s -> %s for every remaining depth 0..255' % (inst, want_s), ok,
               found=[show(v) for v, _ in gots][:2] or None, expected=want_s,
               why='a mate with more depth remaining must score strictly better for the mating side; stalemate scores zero')
        for _, call in gots[:1]:
            ctx.ob(rule, name, '%s: verdict computed for the scored side on the same board' % inst,
                   call[2][2] in (('p', 3), COLORS[k[1]]) and call[2][0] == ('ref', ('der', ('p', 1))), found=show(call), expected='game_ending(board, mg, current_turn)')
    # no other source of values: every return path of score is the repetition clause, a verdict value or the material score of this board
    # (a remembered value, e.g. from a cache keyed without the remaining depth, is none of these)
    other = []
    n_ret = 0
    for col in ('White', 'Black'):
        for o in run_score(col):
            if o.kind != 'return':
                continue
            n_ret += 1
            v = o.value
            if is_const(v):
                continue
            if v[0] == 'call' and v[1] == EV + 'board_material_score' and v[2][0] == ('ref', ('der', ('p', 1))):
                continue
            try:
                ev(v, {('p', 4): 0})
                continue
            except Unevaluable:
                other.append(show(v)[:160])
    ctx.ob(rule, name, 'every value returned is a verdict score or the material score of this board', not other and n_ret > 0, found=sorted(set(other))[:3],
           expected='WIN/LOSS constants +- remaining depth, 0, or board_material_score(board)',
           why='a score taken from anywhere else (a per-generator memo keyed by position only) ignores the remaining depth: a mate found with more '
               'depth left no longer scores better than one found with less')
    ok = isinstance(ww, int) and isinstance(bw, int) and bw - 255 >= -32768 and ww + 255 <= 32767 and ww > 0 > bw
    ctx.ob(rule, EV + 'WHITE_WINS/BLACK_WINS', 'mate scores +-255 stay inside i16', ok, found={'WHITE_WINS': ww, 'BLACK_WINS': bw},
           expected='BLACK_WINS - 255 >= i16::MIN and WHITE_WINS + 255 <= i16::MAX')
    fn = facts.need_fn(name)
    dty = fn.local_ty(4)
    ctx.ob(rule, name, 'remaining depth is u8 (cast to i16 is lossless)', dty == 'u8', found=dty, expected='u8')


def r6_verdicts(ctx):
    """score returns 0 / the mate value exactly for the positions game_ending calls stalemate / checkmate: that classification must be
    'no legal move' combined with 'in check' (= C06.R2: decided from the full legal-move list, not from a shortcut that counts the moves of
    pinned pieces)"""
    from . import c06
    import_rules(ctx, 'C18.R6-verdict-source', [c06.r2_tables, c06.r1_in_check],
                 'stalemate scores zero and mate scores dominate only if game_ending recognises them: a "has any move" shortcut that skips the '
                 'king-safety simulation calls a stalemated side with a pinned piece "not ended" and the material balance is returned instead of 0',
                 keep=lambda s: 'game_ending' in s['function'] or 'in_check' in s['function'] or 'floor' in s['instance'], floor=3)


def run(ctx):
    r6_verdicts(ctx)
    r1_mirror(ctx)
    r2_colour_blind(ctx)
    r3_is_endgame(ctx)
    r4_magnitude(ctx)
    r5_mate_scores(ctx)
