"""C19 — coordinate (UCI) move text: writer/reader tables."""
from sa.sym import Engine, show, show_cond, subterms, C, is_const, PathLimit
from .common import *
from .tables import is_true, is_false

EXPLANATION = (
    "Static clauses: (R1) the square-name table is exactly file letter + rank digit in lower case for all 64 indices; "
    "to_algebraic indexes it with the bit index (shift-count loop), square_string_to_bitboard maps file letter -> 0..7 "
    "by an explicit table, digit-1 -> rank and builds 1 << (file + 8*rank); (R2) the promotion suffix tables of the "
    "writer (to_uci) and the reader (create_chess_move_from_uci) are inverse bijections on {Queen,Rook,Bishop,Knight}; "
    "(R3) the reader's classification table (promotion / en passant / king-side / queen-side castle / standard) equals "
    "the oracle table and builds each move from the parsed squares; (R4) every non-promotion move prints "
    "from_square()+to_square() of its own variant. Distinctness of strings per position follows from these tables given "
    "C01 and is not separately decided.")
ASSUMPTIONS = [
    "rustc MIR construction / const evaluation, the chessfacts extractor and the decoding of format_args! templates are faithful",
    "regex, char::to_digit, str::chars have their documented meaning",
]

SQ = 'common::bitboard::square::'
SF = 'chess::game::stockfish_elo::create_chess_move_from_uci'


def r1_names(ctx):
    rule = 'C19.R1-square-names'
    facts = ctx.facts
    tab = facts.consts.get(SQ + 'tables::ALGEBRAIC')
    if not (isinstance(tab, tuple) and tab[0] == 'array'):
        ctx.anchor_missing(rule, SQ + 'tables::ALGEBRAIC')
        return
    names = list(tab[1])
    bad = [(i, n) for i, n in enumerate(names) if n != 'abcdefgh'[i % 8] + str(i // 8 + 1)]
    ctx.ob(rule, SQ + 'tables::ALGEBRAIC', '64 lower-case names, index = 8*rank+file', len(names) == 64 and not bad, found=bad[:5], expected=[],
           why='squares are rendered as file letter + rank digit in lower case')
    # ORDERED_SQUARES / A1..H8 constants: single bits at the right index
    n_ok = 0
    for i in range(64):
        nm = 'ABCDEFGH'[i % 8] + str(i // 8 + 1)
        v = facts.consts.get(SQ + nm)
        from sa.facts import bb_value
        if bb_value(v) == 1 << i:
            n_ok += 1
    ctx.ob(rule, SQ + 'A1..H8', 'square constants are 1 << (8*rank+file)', n_ok == 64, found=n_ok, expected=64)
    # to_algebraic: shift-count loop returning ALGEBRAIC[i-1]
    name = SQ + 'to_algebraic'
    outs = Engine(facts).run(name)
    ctx.touch(name)
    rets = [o for o in outs if o.kind == 'return']
    backs = [o for o in outs if o.kind == 'backedge']
    ok = False
    detail = {}
    if len(rets) == 1 and len(backs) == 1:
        v = rets[0].value
        head = [e for e in rets[0].events if e[0] == 'loop_head']
        if v[0] == 'idx' and v[1] == ('named', SQ + 'tables::ALGEBRAIC') and head:
            idx = v[2]
            before = head[0][3]
            if idx[0] == 'bin' and idx[1] == 'Sub' and idx[3] == C(1) and idx[2][0] == 'lv':
                cnt = idx[2][2]
                bloc = [l for l, t in before.items() if t[0] == 'agg' or (t[0] == 'p')]
                upd = backs[0].locals
                i_next = upd.get(cnt)
                init_i = before.get(cnt)
                from sa.sym import field as sfield
                shifted = []
                for l, t in upd.items():
                    f0 = sfield(t, '0')
                    if f0[0] == 'bin' and f0[1] == 'Shr' and f0[3] == C(1) and f0[2] == ('fld', ('lv', idx[2][1], l), '0'):
                        shifted.append(l)
                exit_cond = [c for c in rets[0].conds if c[1] == 0 and c[0][0] == 'fld']
                detail = {'index': show(idx), 'counter init': show(init_i) if init_i else None, 'counter step': show(i_next) if i_next else None,
                          'shifted locals': shifted, 'exit': [show_cond(c) for c in rets[0].conds]}
                ok = (init_i == C(0) and i_next == ('bin', 'Add', ('lv', idx[2][1], cnt), C(1)) and len(shifted) == 1
                      and before.get(shifted[0]) == ('p', 1))
    if not ok and len(rets) == 1 and not backs:
        # the same count written with adapters: ALGEBRAIC[(0..64).take_while(|s| !(b >> s).is_empty()).count() - 1]; the predicate term is
        # evaluated for every single-bit board and every shift: the length of its true prefix must be bit index + 1
        v = rets[0].value
        if v[0] == 'idx' and v[1] == ('named', SQ + 'tables::ALGEBRAIC') and v[2][0] == 'bin' and v[2][1] == 'Sub' and v[2][3] == C(1):
            cnt = v[2][2]
            tw = cnt[2][0] if cnt[0] == 'call' and cnt[1].endswith('Iterator::count') and len(cnt[2]) == 1 else None
            if tw is not None and tw[0] == 'call' and tw[1].endswith('Iterator::take_while') and tw[2][0][0] == 'agg' and str(tw[2][0][2]).endswith('Range') \
                    and tw[2][1][0] == 'agg' and tw[2][1][1] == 'closure':
                rf = dict(tw[2][0][4])
                snaps = [e[2] for e in rets[0].events if e[0] == 'closure' and e[1] == tw[2][1][2]]
                co = [o for o in Engine(facts).run(tw[2][1][2]) if o.kind != 'abort']
                ctx.touch(tw[2][1][2])
                if rf.get('start') == C(0) and rf.get('end') == C(64) and snaps and snaps[0] == (('p', 1),) or (snaps and show(snaps[0][0]) in ('arg1', 'assert_square@0(arg1)')):
                    if len(co) == 1 and co[0].kind == 'return' and not co[0].conds:
                        from sa.evalterm import ev, Unevaluable
                        pred = subst_upvars(co[0].value, snaps[0])

                        def bev(t_, env):
                            if t_[0] == 'un' and t_[1] == 'Not':
                                return int(not bev(t_[2], env))
                            return int(bool(ev(t_, env)))
                        good = True
                        try:
                            for k in range(64):
                                n_true = 0
                                for s_ in range(64):
                                    if bev(pred, {('fld', snaps[0][0], '0'): 1 << k, snaps[0][0]: 1 << k, ('der', ('p', 2)): s_, ('p', 2): s_}):
                                        n_true += 1
                                    else:
                                        break
                                good = good and n_true == k + 1
                        except Unevaluable:
                            good = False
                        ok = good
                        detail = {'form': 'take_while(..).count() - 1', 'predicate': show(pred)}
    ctx.ob(rule, name, 'returns ALGEBRAIC[number of right shifts until empty - 1] (= bit index)', ok, found=detail,
           expected='i = 0; while b != 0 { b >>= 1; i += 1 }; ALGEBRAIC[i - 1]')
    # from_rank_file
    name = SQ + 'from_rank_file'
    outs = Engine(facts).run(name)
    ctx.touch(name)
    rets = [o for o in outs if o.kind == 'return']
    want = ('bin', 'Shl', C(1), ('cast', ('bin', 'Add', ('p', 2), ('bin', 'Mul', ('p', 1), C(8))), 'usize'))
    got = rets[0].value[4][0][1] if rets and rets[0].value[0] == 'agg' else None
    alt = ('bin', 'Shl', C(1), ('cast', ('bin', 'Add', ('bin', 'Mul', ('p', 1), C(8)), ('p', 2)), 'usize'))
    ctx.ob(rule, name, '1 << (file + 8*rank)', got in (want, alt), found=show(got) if got else None, expected=show(want))
    # square_string_to_bitboard: file table, rank = digit - 1, argument order
    name = SQ + 'square_string_to_bitboard'
    eng = Engine(facts, readonly={SQ + 'from_rank_file'})
    outs = eng.run(name)
    ctx.touch(name)
    rets = [o for o in outs if o.kind == 'return']
    table = {}
    rank_ok = set()
    arg_ok = set()
    for o in rets:
        v = o.value
        if not (v[0] == 'call' and v[1] == SQ + 'from_rank_file'):
            continue
        rank_t, file_t = v[2]
        # file comes from a char match
        chars = [(a, val) for a, val in o.conds if isinstance(val, int) and val >= 0x41 and a[0] != 'discr']
        if len(chars) == 1 and is_const(file_t):
            table[chr(chars[0][1])] = file_t[1]
        rank_ok.add(rank_t[0] == 'cast' and rank_t[1][0] == 'bin' and rank_t[1][1] == 'Sub' and rank_t[1][3] == C(1)
                    and any(s[0] == 'call' and s[1].endswith('::to_digit') for s in subterms(rank_t)))
    want = {c: i for i, c in enumerate('abcdefgh')}
    ctx.ob(rule, name, 'file letter table a..h -> 0..7', table == want, found=table, expected=want,
           why='reading a square name back must give the same square')
    ctx.ob(rule, name, 'rank = digit - 1, passed as from_rank_file(rank, file)', rank_ok == {True}, found=sorted(rank_ok), expected=[True])
    regexes = set()
    for o in outs:
        for e in o.events:
            if e[0] == 'call' and e[1] == 'regex::Regex::new':
                regexes.add(show(e[2][0]))
    ctx.extra['square_regex'] = sorted(regexes)


def r2_suffix(ctx):
    rule = 'C19.R2-suffix-tables'
    facts = ctx.facts
    name = CHESSMOVE + '::to_uci'
    outs = Engine(facts, readonly={SQ + 'to_algebraic'}).run(name)
    ctx.touch(name)
    pd = {v['discr']: v['name'] for v in facts.adts[PIECE_ADT]['variants']}
    writer = {}
    shapes = {}
    for o in outs:
        if o.kind != 'return':
            continue
        conds = dict(o.conds)
        var = conds.get(('discr', ('der', ('p', 1))))
        v = o.value
        parts = list(v[1]) if v[0] == 'concat' else [v]
        p = [c for a, c in o.conds if a[0] == 'discr' and a[1][0] == 'fld' and a[1][2] == 'promote_to_piece']
        if p and isinstance(p[0], int):
            suffix = parts[-1][1] if is_const(parts[-1]) else show(parts[-1])
            writer[pd.get(p[0])] = suffix
            parts = parts[:-1]
        shapes[(var, tuple(p))] = parts
    want = {'Queen': 'q', 'Rook': 'r', 'Bishop': 'b', 'Knight': 'n'}
    ctx.ob(rule, name, 'promotion suffix table', writer == want, found=writer, expected=want,
           why='promotions are rendered with a q/r/b/n suffix')
    # reader
    clos = [f for f in facts.closures_of(SF)]
    reader = {}
    rname = None
    # the char -> piece map of the reader, tabulated by partial evaluation on all 128 ASCII characters (any spelling: match, lookup table)
    for c in clos:
        if c.arg_count != 2 or c.local_ty(2) != 'char':
            continue
        tbl = {}
        for code in range(128):
            outs = [o for o in Engine(facts, unroll=True).run(c.name, args=[None, C(code)]) if o.kind != 'abort']
            if len(outs) == 1 and outs[0].kind == 'return' and outs[0].value[0] == 'agg' and outs[0].value[2] == PIECE_ADT:
                tbl[chr(code)] = outs[0].value[3]
            elif outs:
                tbl[chr(code)] = '?'
        if tbl:
            reader = tbl
            rname = c.name
    if rname:
        ctx.touch(rname)
    inv = {v: k for k, v in writer.items()}
    ctx.ob(rule, rname or SF, 'reader suffix table is the inverse of the writer\'s', reader == inv and len(reader) == 4, found=reader, expected=inv,
           why='a rendered promotion must read back as the same promotion')
    return shapes


def r4_text(ctx, shapes):
    rule = 'C19.R4-from-to-text'
    facts = ctx.facts
    adt = facts.adts[CHESSMOVE]
    n = 0
    for (var, p), parts in sorted(shapes.items(), key=str):
        vname = [v['name'] for v in adt['variants'] if v['discr'] == var]
        vname = vname[0] if vname else str(var)
        want = []
        for fld in ('from_square', 'to_square'):
            want.append(('disp', ('call', SQ + 'to_algebraic', (('fld', ('fld', ('der', ('p', 1)), vname + '.0'), fld),), ('e', 0))))
        n += 1
        ctx.ob(rule, CHESSMOVE + '::to_uci', '%s%s: to_algebraic(from) ++ to_algebraic(to)' % (vname, ' promo' if p else ''), parts == want,
               found=[show(x) for x in parts], expected=[show(x) for x in want],
               why='long coordinate form is origin square followed by destination square (castling as the king\'s move)')
    ctx.floor(rule, 'to_uci rows', n, 7)


def r3_reader(ctx):
    rule = 'C19.R3-reader-classification'
    facts = ctx.facts
    ro = {SQ + 'square_string_to_bitboard', BOARD + '::get', BOARD + '::peek_en_passant_target', BOARD + '::turn'}
    outs = Engine(facts, readonly=ro).run(SF)
    ctx.touch(SF)
    pd = {v['name']: v['discr'] for v in facts.adts[PIECE_ADT]['variants']}
    kinds = {}
    n = 0
    for o in outs:
        if o.kind != 'return' or o.value[0] != 'agg' or o.value[2] != CHESSMOVE:
            continue
        n += 1
        v = o.value
        kind = v[3]
        inner = dict(v[4])['0']
        fields = dict(inner[4])
        conds = o.conds
        promo = None
        piece = None
        ep = None
        castle = []
        frm = to = None
        for a, val in conds:
            if a[0] == 'discr' and a[1][0] == 'call' and a[1][1].endswith('::nth'):
                promo = val
            if a[0] == 'discr' and a[1][0] == 'fld' and a[1][2] == '0' and a[1][1][0] == 'fld' and a[1][1][2] == 'Some.0' \
                    and a[1][1][1][0] == 'call' and a[1][1][1][1] == BOARD + '::get':
                piece = val
                frm = a[1][1][1][2][1]
            if any(s[0] == 'call' and s[1] == BOARD + '::peek_en_passant_target' for s in subterms(a)):
                ep = (a, val)
            consts = [bb_of(s) for s in subterms(a) if s[0] == 'agg' and bb_of(s) is not None]
            if a[0] == 'and' and len(consts) == 2:
                castle.append((tuple(sq_name(c) for c in consts), is_true(val)))
        kinds.setdefault(kind, 0)
        kinds[kind] += 1
        is_pawn = piece == pd['Pawn']
        is_king = piece == pd['King']
        true_castles = [c for c, t in castle if t]
        if kind == 'PawnPromotion':
            ok = is_pawn and promo == 1
            want = 'piece == Pawn and a 5th character'
        elif kind == 'EnPassant':
            ok = is_pawn and promo == 0 and ep is not None and is_true(ep[1])
            want = 'piece == Pawn, no suffix, to == en-passant target'
        elif kind == 'Castle':
            f, t = sq_name(bb_of(fields['from_square'])), sq_name(bb_of(fields['to_square']))
            side_sets = {'K': {('e1', 'g1'), ('e8', 'g8')}, 'Q': {('e1', 'c1'), ('e8', 'c8')}}
            ok = is_king and promo == 0 and len(true_castles) == 1 and any(
                true_castles[0] in s and (f, t) in s for s in side_sets.values())
            want = 'piece == King, no suffix, (from,to) a castling pair; result on the same wing'
        else:
            not_promo = not (is_pawn and promo == 1)
            not_ep = not (is_pawn and promo == 0 and ep is not None and is_true(ep[1]))
            not_castle = not (is_king and promo == 0 and true_castles)
            ok = not_promo and not_ep and not_castle
            want = 'none of the special cases'
        ctx.ob(rule, SF, '%s row: piece=%s suffix=%s ep=%s castle=%s' % (kind, piece, promo, None if ep is None else is_true(ep[1]), true_castles or None),
               ok, found=[show_cond(c) for c in conds][:8], expected=want,
               why='the move read back must be of the kind that was rendered')
        if kind in ('Standard', 'PawnPromotion'):
            cap = fields.get('captures')
            to_t = fields.get('to_square')
            gets = [(a, val) for a, val in conds if a[0] == 'discr' and a[1][0] == 'call' and a[1][1] == BOARD + '::get' and a[1][2][1] == to_t]
            okcap = False
            if gets:
                occupied = gets[0][1] == 1
                g = gets[0][0][1]
                if occupied:
                    want_cap = ('agg', 'adt', 'std::option::Option', 'Some', (('0', ('agg', 'adt', 'chess::chess_move::capture::Capture', 'Capture',
                                (('0', ('fld', ('fld', g, 'Some.0'), '0')),))),))
                    okcap = cap == want_cap
                else:
                    okcap = cap is not None and cap[0] == 'agg' and cap[3] == 'None'
            ctx.ob(rule, SF, '%s row: capture = piece standing on the destination (%s)' % (kind, 'occupied' if gets and gets[0][1] == 1 else 'empty'), okcap,
                   found=show(cap)[:160] if cap else None, expected='board.get(to).map(|(p, _)| Capture(p))',
                   why='the move read back must carry the capture the rendered move carried, or apply rejects it')
        if kind != 'Castle':
            sf = fields.get('from_square')
            st_ = fields.get('to_square')
            okf = sf is not None and sf[0] == 'call' and sf[1] == SQ + 'square_string_to_bitboard' and 'Range(0, 2)' in show(sf) \
                and st_ is not None and 'Range(2, 4)' in show(st_)
            ctx.ob(rule, SF, '%s row: squares parsed from characters 0..2 and 2..4' % kind, okf, found=[show(sf), show(st_)][:2], expected='uci[0..2], uci[2..4]',
                   nontrivial=False)
    for k in ('Standard', 'PawnPromotion', 'EnPassant', 'Castle'):
        ctx.ob(rule, SF, 'rows producing %s exist' % k, kinds.get(k, 0) > 0, found=kinds.get(k, 0), expected='> 0', nontrivial=False)
    ctx.floor(rule, 'reader rows', n, 12)
    # castle squares compared are the four oracle pairs
    pairs = set()
    for o in outs:
        for a, val in o.conds:
            consts = [bb_of(s) for s in subterms(a) if s[0] == 'agg' and bb_of(s) is not None]
            if a[0] == 'and' and len(consts) == 2:
                pairs.add(tuple(sq_name(c) for c in consts))
    want = {('e1', 'g1'), ('e8', 'g8'), ('e1', 'c1'), ('e8', 'c8')}
    ctx.ob(rule, SF, 'castling recognised by the four king moves', pairs == want, found=sorted(pairs), expected=sorted(want))


def run(ctx):
    r1_names(ctx)
    shapes = r2_suffix(ctx)
    r3_reader(ctx)
    r4_text(ctx, shapes)
