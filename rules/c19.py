"""C19 — coordinate (UCI) move text: writer/reader tables."""
from sa.sym import Engine, show, show_cond, subterms, C, is_const, PathLimit
from .common import *
from .tables import is_true, is_false

EXPLANATION = (
    'Static clauses: (R1) the square-name table is exactly file letter + rank digit in lower case for all 64 '
    'indices; to_algebraic is tabulated by partial evaluation on all 64 single-square boards (constant propagation '
    'through its loop or bit tricks) and must return that name, square_string_to_bitboard maps file letter -> 0..7 '
    '(table read off the paths for every ASCII letter, whichever look-up is used), digit-1 -> rank and builds 1 << '
    '(file + 8*rank); (R2) the promotion suffix tables of the writer (to_uci) and the reader '
    "(create_chess_move_from_uci) are inverse bijections on {Queen,Rook,Bishop,Knight}; (R3) the reader's "
    'classification table (promotion / en passant / king-side / queen-side castle / standard) equals the oracle '
    'table and builds each move from the parsed squares; (R4) every non-promotion move prints '
    'from_square()+to_square() of its own variant. Distinctness of strings per position follows from these tables '
    'given C01 and is not separately decided.'
)
ASSUMPTIONS = [
    "rustc MIR construction / const evaluation, the chessfacts extractor and the decoding of format_args! templates are faithful",
    "regex, char::to_digit, str::chars have their documented meaning",
]

SQ = 'common::bitboard::square::'
SF = 'chess::game::stockfish_elo::create_chess_move_from_uci'


def r1_names(ctx):
    rule = 'C19.R1-square-names'
    facts = ctx.facts
    tab = facts.consts.get(SQ + 'tables::ALGEBRAIC')
    if not (isinstance(tab, tuple) and tab[0] == 'array'):
        ctx.anchor_missing(rule, SQ + 'tables::ALGEBRAIC')
        return
    names = list(tab[1])
    bad = [(i, n) for i, n in enumerate(names) if n != 'abcdefgh'[i % 8] + str(i // 8 + 1)]
    ctx.ob(rule, SQ + 'tables::ALGEBRAIC', '64 lower-case names, index = 8*rank+file', len(names) == 64 and not bad, found=bad[:5], expected=[],
           why='squares are rendered as file letter + rank digit in lower case')
    # ORDERED_SQUARES / A1..H8 constants: single bits at the right index
    n_ok = 0
    for i in range(64):
        nm = 'ABCDEFGH'[i % 8] + str(i // 8 + 1)
        v = facts.consts.get(SQ + nm)
        from sa.facts import bb_value
        if bb_value(v) == 1 << i:
            n_ok += 1
    ctx.ob(rule, SQ + 'A1..H8', 'square constants are 1 << (8*rank+file)', n_ok == 64, found=n_ok, expected=64)
    # to_algebraic: tabulated by partial evaluation on all 64 single-square boards (constant propagation through its loop / bit tricks,
    # whichever way the bit index is computed): the name returned for 1 << (8*rank+file) must be "<file letter><rank digit>"
    name = SQ + 'to_algebraic'
    ctx.touch(name)
    bad = []
    for k in range(64):
        outs = [o for o in Engine(facts, concrete=True).run(name, args=[bb(1 << k)]) if o.kind != 'abort']
        wantn = 'abcdefgh'[k % 8] + str(k // 8 + 1)
        if len(outs) != 1 or outs[0].kind != 'return' or outs[0].value != C(wantn):
            bad.append((wantn, [show(o.value) if o.value else o.kind for o in outs][:2]))
    ctx.ob(rule, name, 'to_algebraic(1 << i) is the lower-case name of square i, for all 64 squares', not bad, found=bad[:4], expected=[],
           why='squares are rendered as file letter + rank digit in lower case')
    # from_rank_file
    name = SQ + 'from_rank_file'
    outs = Engine(facts).run(name)
    ctx.touch(name)
    rets = [o for o in outs if o.kind == 'return']
    want = ('bin', 'Shl', C(1), ('cast', ('bin', 'Add', ('p', 2), ('bin', 'Mul', ('p', 1), C(8))), 'usize'))
    got = rets[0].value[4][0][1] if rets and rets[0].value[0] == 'agg' else None
    alt = ('bin', 'Shl', C(1), ('cast', ('bin', 'Add', ('bin', 'Mul', ('p', 1), C(8)), ('p', 2)), 'usize'))
    ctx.ob(rule, name, '1 << (file + 8*rank)', got in (want, alt), found=show(got) if got else None, expected=show(want))
    # square_string_to_bitboard: file table, rank = digit - 1, argument order
    name = SQ + 'square_string_to_bitboard'
    eng = Engine(facts, readonly={SQ + 'from_rank_file'}, unroll=True)
    outs = eng.run(name)
    ctx.touch(name)
    rets = [o for o in outs if o.kind == 'return']
    table = {}
    rank_ok = set()
    arg_ok = set()
    # the file index as a function of the (lower-cased) file character, whichever way it is looked up (match, table + position): every
    # return path tests one character atom against constants; the table is read off by deciding, for each ASCII code, which path it takes
    char_rows = []
    for o in rets:
        v = o.value
        if not (v[0] == 'call' and v[1] == SQ + 'from_rank_file'):
            continue
        rank_t, file_t = v[2]
        cc = [(a, val) for a, val in o.conds if a[0] != 'discr' and ((isinstance(val, int) and not isinstance(val, bool) and val >= 0x41)
                                                                     or (isinstance(val, tuple) and val and val[0] == 'not' and all(isinstance(x, int) and x >= 0x41 for x in val[1])))]
        atoms = {a for a, _ in cc}
        if len(atoms) == 1 and is_const(file_t):
            char_rows.append((cc, file_t[1]))
        rank_ok.add(rank_t[0] == 'cast' and rank_t[1][0] == 'bin' and rank_t[1][1] == 'Sub' and rank_t[1][3] == C(1)
                    and any(s[0] == 'call' and s[1].endswith('::to_digit') for s in subterms(rank_t)))
    for code in range(0x41, 0x7b):
        hit = set()
        for cc, fv in char_rows:
            if all((code not in val[1]) if isinstance(val, tuple) else code == val for _, val in cc):
                hit.add(fv)
        if len(hit) == 1:
            table[chr(code)] = hit.pop()
        elif hit:
            table[chr(code)] = '?'
    want = {c: i for i, c in enumerate('abcdefgh')}
    ctx.ob(rule, name, 'file letter table a..h -> 0..7', table == want, found=table, expected=want,
           why='reading a square name back must give the same square')
    ctx.ob(rule, name, 'rank = digit - 1, passed as from_rank_file(rank, file)', rank_ok == {True}, found=sorted(rank_ok), expected=[True])
    regexes = set()
    for o in outs:
        for e in o.events:
            if e[0] == 'call' and e[1] == 'regex::Regex::new':
                regexes.add(show(e[2][0]))
    ctx.extra['square_regex'] = sorted(regexes)


def r2_suffix(ctx):
    rule = 'C19.R2-suffix-tables'
    facts = ctx.facts
    name = CHESSMOVE + '::to_uci'
    outs = Engine(facts, readonly={SQ + 'to_algebraic'}).run(name)
    ctx.touch(name)
    pd = {v['discr']: v['name'] for v in facts.adts[PIECE_ADT]['variants']}
    writer = {}
    shapes = {}
    for o in outs:
        if o.kind != 'return':
            continue
        conds = dict(o.conds)
        var = conds.get(('discr', ('der', ('p', 1))))
        v = o.value
        parts = list(v[1]) if v[0] == 'concat' else [v]
        p = [c for a, c in o.conds if a[0] == 'discr' and a[1][0] == 'fld' and a[1][2] == 'promote_to_piece']
        if p and isinstance(p[0], int):
            suffix = parts[-1][1] if is_const(parts[-1]) else show(parts[-1])
            writer[pd.get(p[0])] = suffix
            parts = parts[:-1]
        shapes[(var, tuple(p))] = parts
    want = {'Queen': 'q', 'Rook': 'r', 'Bishop': 'b', 'Knight': 'n'}
    ctx.ob(rule, name, 'promotion suffix table', writer == want, found=writer, expected=want,
           why='promotions are rendered with a q/r/b/n suffix')
    # reader
    clos = [f for f in facts.closures_of(SF)]
    reader = {}
    rname = None
    # the char -> piece map of the reader, tabulated by partial evaluation on all 128 ASCII characters (any spelling: match, lookup table)
    # ... written as a closure of the reader or as a named `fn(char) -> Piece` that the reader reaches
    # (a function handed to `map` by name is not a call edge: take the functions of the reader's module and what the reader calls)
    mod_ = SF.rsplit('::', 1)[0] + '::'
    reach = set(facts.reachable_fns([SF] + [c.name for c in clos])) | {n for n in facts.fns if n.startswith(mod_)}
    named = [facts.fns[n] for n in sorted(reach) if n in facts.fns and facts.fns[n].crate == 'chess' and facts.fns[n].kind != 'Closure'
             and facts.fns[n].arg_count == 1 and facts.fns[n].local_ty(1) == 'char' and facts.fns[n].local_ty(0) == PIECE_ADT]
    for c in clos + named:
        is_clo = c.kind == 'Closure'
        if is_clo and (c.arg_count != 2 or c.local_ty(2) != 'char'):
            continue
        tbl = {}
        for code in range(128):
            outs = [o for o in Engine(facts, unroll=True).run(c.name, args=([None, C(code)] if is_clo else [C(code)])) if o.kind != 'abort']
            if len(outs) == 1 and outs[0].kind == 'return' and outs[0].value[0] == 'agg' and outs[0].value[2] == PIECE_ADT:
                tbl[chr(code)] = outs[0].value[3]
            elif outs:
                tbl[chr(code)] = '?'
        if tbl:
            reader = tbl
            rname = c.name
    if rname:
        ctx.touch(rname)
    inv = {v: k for k, v in writer.items()}
    ctx.ob(rule, rname or SF, 'reader suffix table is the inverse of the writer\'s', reader == inv and len(reader) == 4, found=reader, expected=inv,
           why='a rendered promotion must read back as the same promotion')
    return shapes


def r4_text(ctx, shapes):
    rule = 'C19.R4-from-to-text'
    facts = ctx.facts
    adt = facts.adts[CHESSMOVE]
    n = 0
    for (var, p), parts in sorted(shapes.items(), key=str):
        vname = [v['name'] for v in adt['variants'] if v['discr'] == var]
        vname = vname[0] if vname else str(var)
        want = []
        for fld in ('from_square', 'to_square'):
            want.append(('disp', ('call', SQ + 'to_algebraic', (('fld', ('fld', ('der', ('p', 1)), vname + '.0'), fld),), ('e', 0))))
        n += 1
        ctx.ob(rule, CHESSMOVE + '::to_uci', '%s%s: to_algebraic(from) ++ to_algebraic(to)' % (vname, ' promo' if p else ''), parts == want,
               found=[show(x) for x in parts], expected=[show(x) for x in want],
               why='long coordinate form is origin square followed by destination square (castling as the king\'s move)')
    ctx.floor(rule, 'to_uci rows', n, 7)


def r3_reader(ctx):
    rule = 'C19.R3-reader-classification'
    facts = ctx.facts
    ro = {SQ + 'square_string_to_bitboard', BOARD + '::get', BOARD + '::peek_en_passant_target', BOARD + '::turn'}
    outs = Engine(facts, readonly=ro).run(SF)
    ctx.touch(SF)
    pd = {v['name']: v['discr'] for v in facts.adts[PIECE_ADT]['variants']}
    kinds = {}
    n = 0
    for o in outs:
        if o.kind != 'return' or o.value[0] != 'agg' or o.value[2] != CHESSMOVE:
            continue
        n += 1
        v = o.value
        kind = v[3]
        inner = dict(v[4])['0']
        fields = dict(inner[4])
        conds = o.conds
        promo = None
        piece = None
        ep = None
        castle = []
        frm = to = None
        for a, val in conds:
            if a[0] == 'discr' and a[1][0] == 'call' and a[1][1].endswith('::nth'):
                promo = val
            if a[0] == 'haschar' and a[2] == 4:          # "the text has a fifth character" (chars().nth(4) / four next() calls)
                promo = 1 if is_true(val) else 0
            if a[0] == 'discr' and a[1][0] == 'fld' and a[1][2] == '0' and a[1][1][0] == 'fld' and a[1][1][2] == 'Some.0' \
                    and a[1][1][1][0] == 'call' and a[1][1][1][1] == BOARD + '::get':
                piece = val
                frm = a[1][1][1][2][1]
            if any(s[0] == 'call' and s[1] == BOARD + '::peek_en_passant_target' for s in subterms(a)):
                ep = (a, val)
            consts = [bb_of(s) for s in subterms(a) if s[0] == 'agg' and bb_of(s) is not None]
            if a[0] == 'and' and len(consts) == 2:
                castle.append((tuple(sq_name(c) for c in consts), is_true(val)))
        kinds.setdefault(kind, 0)
        kinds[kind] += 1
        is_pawn = piece == pd['Pawn']
        is_king = piece == pd['King']
        true_castles = [c for c, t in castle if t]
        if kind == 'PawnPromotion':
            ok = is_pawn and promo == 1
            want = 'piece == Pawn and a 5th character'
        elif kind == 'EnPassant':
            ok = is_pawn and promo == 0 and ep is not None and is_true(ep[1])
            want = 'piece == Pawn, no suffix, to == en-passant target'
        elif kind == 'Castle':
            f, t = sq_name(bb_of(fields['from_square'])), sq_name(bb_of(fields['to_square']))
            side_sets = {'K': {('e1', 'g1'), ('e8', 'g8')}, 'Q': {('e1', 'c1'), ('e8', 'c8')}}
            ok = is_king and promo == 0 and len(true_castles) == 1 and any(
                true_castles[0] in s and (f, t) in s for s in side_sets.values())
            want = 'piece == King, no suffix, (from,to) a castling pair; result on the same wing'
        else:
            not_promo = not (is_pawn and promo == 1)
            not_ep = not (is_pawn and promo == 0 and ep is not None and is_true(ep[1]))
            not_castle = not (is_king and promo == 0 and true_castles)
            ok = not_promo and not_ep and not_castle
            want = 'none of the special cases'
        ctx.ob(rule, SF, '%s row: piece=%s suffix=%s ep=%s castle=%s' % (kind, piece, promo, None if ep is None else is_true(ep[1]), true_castles or None),
               ok, found=[show_cond(c) for c in conds][:8], expected=want,
               why='the move read back must be of the kind that was rendered')
        if kind in ('Standard', 'PawnPromotion'):
            cap = fields.get('captures')
            to_t = fields.get('to_square')
            gets = [(a, val) for a, val in conds if a[0] == 'discr' and a[1][0] == 'call' and a[1][1] == BOARD + '::get' and a[1][2][1] == to_t]
            okcap = False
            if gets:
                occupied = gets[0][1] == 1
                g = gets[0][0][1]
                if occupied:
                    want_cap = ('agg', 'adt', 'std::option::Option', 'Some', (('0', ('agg', 'adt', 'chess::chess_move::capture::Capture', 'Capture',
                                (('0', ('fld', ('fld', g, 'Some.0'), '0')),))),))
                    okcap = cap == want_cap
                else:
                    okcap = cap is not None and cap[0] == 'agg' and cap[3] == 'None'
            ctx.ob(rule, SF, '%s row: capture = piece standing on the destination (%s)' % (kind, 'occupied' if gets and gets[0][1] == 1 else 'empty'), okcap,
                   found=show(cap)[:160] if cap else None, expected='board.get(to).map(|(p, _)| Capture(p))',
                   why='the move read back must carry the capture the rendered move carried, or apply rejects it')
        if kind != 'Castle':
            sf = fields.get('from_square')
            st_ = fields.get('to_square')
            okf = sf is not None and sf[0] == 'call' and sf[1] == SQ + 'square_string_to_bitboard' and 'Range(0, 2)' in show(sf) \
                and st_ is not None and 'Range(2, 4)' in show(st_)
            ctx.ob(rule, SF, '%s row: squares parsed from characters 0..2 and 2..4' % kind, okf, found=[show(sf), show(st_)][:2], expected='uci[0..2], uci[2..4]',
                   nontrivial=False)
    for k in ('Standard', 'PawnPromotion', 'EnPassant', 'Castle'):
        ctx.ob(rule, SF, 'rows producing %s exist' % k, kinds.get(k, 0) > 0, found=kinds.get(k, 0), expected='> 0', nontrivial=False)
    ctx.floor(rule, 'reader rows', n, 12)
    # castle squares compared are the four oracle pairs
    pairs = set()
    for o in outs:
        for a, val in o.conds:
            consts = [bb_of(s) for s in subterms(a) if s[0] == 'agg' and bb_of(s) is not None]
            if a[0] == 'and' and len(consts) == 2:
                pairs.add(tuple(sq_name(c) for c in consts))
    want = {('e1', 'g1'), ('e8', 'g8'), ('e1', 'c1'), ('e8', 'c8')}
    ctx.ob(rule, SF, 'castling recognised by the four king moves', pairs == want, found=sorted(pairs), expected=sorted(want))


def run(ctx):
    r1_names(ctx)
    shapes = r2_suffix(ctx)
    r3_reader(ctx)
    r4_text(ctx, shapes)
