"""Shared anchors and helpers for the rule modules."""
from sa.sym import Engine, show, show_cond, subterms, DEFAULT_FOLD_ONLY, C, is_const, PathLimit

CM = 'chess::chess_move::'
BOARD = 'chess::board::Board'
KINDS = {
    'standard': CM + 'standard::StandardChessMove',
    'castle': CM + 'castle::CastleChessMove',
    'en_passant': CM + 'en_passant::EnPassantChessMove',
    'promotion': CM + 'pawn_promotion::PawnPromotionChessMove',
}
CHESSMOVE = CM + 'chess_move::ChessMove'
STD_HELPERS = [CM + 'standard::get_en_passant_target_square',
               CM + 'standard::get_lost_castle_rights_if_rook_or_king_moved',
               CM + 'standard::get_lost_castle_rights_if_rook_taken']

# the 18 state-changing methods of Board (DESIGN §1) + accessors
BOARD_MUTATORS = ['put', 'remove', 'toggle_turn', 'set_turn', 'push_en_passant_target', 'pop_en_passant_target',
                  'preserve_castle_rights', 'lose_castle_rights', 'pop_castle_rights', 'increment_fullmove_clock',
                  'decrement_fullmove_clock', 'set_fullmove_clock', 'push_halfmove_clock', 'increment_halfmove_clock',
                  'reset_halfmove_clock', 'pop_halfmove_clock', 'count_current_position', 'uncount_current_position']

EP_PUSH = {'push_en_passant_target'}
EP_POP = {'pop_en_passant_target'}
RIGHTS_PUSH = {'lose_castle_rights', 'preserve_castle_rights'}
RIGHTS_POP = {'pop_castle_rights'}
HALF_PUSH = {'reset_halfmove_clock', 'increment_halfmove_clock', 'push_halfmove_clock'}
HALF_POP = {'pop_halfmove_clock'}
FULL_INC = {'increment_fullmove_clock'}
FULL_DEC = {'decrement_fullmove_clock'}

WHITE = ('agg', 'adt', 'chess::board::color::Color', 'White', ())
BLACK = ('agg', 'adt', 'chess::board::color::Color', 'Black', ())
COLORS = {'White': WHITE, 'Black': BLACK}
PIECE_ADT = 'chess::board::piece::Piece'
PIECES = ['Pawn', 'Knight', 'Bishop', 'Rook', 'Queen', 'King']


def piece(name):
    return ('agg', 'adt', PIECE_ADT, name, ())


def bb(v):
    return ('agg', 'adt', 'common::bitboard::bitboard::Bitboard', 'Bitboard', (('0', C(v)),))


def bb_of(t):
    """int value of a constant Bitboard term, else None"""
    if t[0] == 'agg' and t[1] == 'adt' and t[2].endswith('::Bitboard') and t[4] and is_const(t[4][0][1]):
        return t[4][0][1][1]
    return None


def sq(name):
    f = 'abcdefgh'.index(name[0].lower())
    r = int(name[1]) - 1
    return 1 << (8 * r + f)


def sq_name(v):
    if isinstance(v, int) and v > 0 and v & (v - 1) == 0:
        i = v.bit_length() - 1
        return 'abcdefgh'[i % 8] + str(i // 8 + 1)
    return None


def board_methods(facts):
    return [n for n in facts.fns if n.startswith(BOARD + '::')]


MOVE_INFO = 'chess::board::move_info::MoveInfo'
_BASE_FNS = []


def board_api(facts):
    """(opaque set, call aliases) for effect summaries at the level of the Board API.  The methods of the pinned tree are the vocabulary
    of the rules and stay opaque.  A `&mut Board` method the pinned tree does not have (a maintainer's `push_move_state(ep, lost)` that
    bundles two stack operations) is looked INTO instead: what it does to `self.move_info` through MoveInfo's own methods is recorded
    under the name of the Board delegator of the same name (same arguments; the delegator adds only the re-keying of the hash, which
    C05 decides for every stack-changing method by itself)."""
    if not _BASE_FNS:
        import json as _json
        from sa.facts import BASELINE
        try:
            _BASE_FNS.append(set(_json.load(open(BASELINE))['fns']))
        except Exception:
            _BASE_FNS.append(set())
    base = _BASE_FNS[0]
    names = board_methods(facts)
    new_mut = [n for n in names if base and n not in base and facts.fns[n].kind != 'Closure' and not facts.fns[n].derived
               and facts.fns[n].arg_count >= 1 and facts.fns[n].local_ty(1) == '&mut ' + BOARD]
    # a new associated function without a Board receiver (a pure table look-up kept in `impl Board`) cannot touch a board: looked into as well
    new_pure = [n for n in names if base and n not in base and facts.fns[n].kind != 'Closure' and not facts.fns[n].derived
                and not any('chess::board::Board' in facts.fns[n].local_ty(i_) for i_ in range(1, facts.fns[n].arg_count + 1))]
    opaque = set(names) - set(new_mut) - set(new_pure)
    alias = {}
    if new_mut:
        # the hash bookkeeping below Board is C05's business: kept as plain calls
        opaque |= {n for n in facts.fns if n.startswith('chess::board::position_info::PositionInfo::')}
        for n in names:
            m = method(n)
            if n in base and (MOVE_INFO + '::' + m) in facts.fns:
                opaque.add(MOVE_INFO + '::' + m)
                alias[MOVE_INFO + '::' + m] = n
    return opaque, alias


def method(name):
    return name.rsplit('::', 1)[-1]


def is_ok_result(v):
    """the path returns Ok(..) - or hands back, unchanged, the Result of a final Board::put (`board.put(..)` as tail expression is
    `board.put(..)?; Ok(())`: the path succeeds exactly when that last put does)"""
    if v is None:
        return False
    if v[0] == 'agg' and v[3] == 'Ok':
        return True
    return v[0] == 'call' and v[1] == BOARD + '::put'


def is_err_result(v):
    return v is not None and v[0] == 'agg' and v[3] == 'Err'


def kind_summaries(ctx, which, fold_helpers=True, extra_opaque=(), unroll=False, only=None):
    """Outcomes of <kind>::apply / ::undo with the Board API opaque (effect summaries, A5)."""
    facts = ctx.facts
    fo = set(DEFAULT_FOLD_ONLY)
    if fold_helpers:
        fo |= set(STD_HELPERS)
    out = {}
    for k, path in KINDS.items():
        if only is not None and k not in only:
            continue
        name = path + '::' + which
        ctx.touch(name)
        opq, alias = board_api(facts)
        eng = Engine(facts, opaque=opq | set(extra_opaque), fold_only=fo, call_alias=alias, max_paths=20000 if (alias or unroll) else 4096, unroll=unroll)
        out[k] = (name, eng.run(name))
    return out


def board_calls(outcome):
    """ordered (method, args, uid) of Board API calls on a path"""
    res = []
    for e in outcome.events:
        if e[0] == 'call' and e[1].startswith(BOARD + '::'):
            res.append((method(e[1]), e[2], e[3]))
    return res


def strval(t):
    """value behind reborrows of constant / indexed strings"""
    while t[0] == 'ref':
        t = t[1]
        if t[0] in ('K', 'der'):
            t = t[1]
    return t


# ---- form-agnostic helpers: the same iteration written as a closure (`iter().for_each(|x| ..)`) or as a `for` loop -----------------
def tmap(t, f):
    """rebuild term t, replacing every sub-term x for which f(x) is not None (outermost first)"""
    if not isinstance(t, tuple):
        return t
    r = f(t)
    if r is not None:
        return r
    return tuple(tmap(x, f) for x in t)


def subst_upvars(t, snaps):
    """replace reads of captured variables in a closure-body term by the values the parent had when it built the closure"""
    def f(x):
        if len(x) == 2 and x[0] == 'der' and isinstance(x[1], tuple) and len(x[1]) == 3 and x[1][0] == 'fld' and isinstance(x[1][2], str) and x[1][2].startswith('upvar'):
            k = int(x[1][2][5:])
            return snaps[k] if k < len(snaps) else None
        if len(x) == 3 and x[0] == 'fld' and isinstance(x[2], str) and x[2].startswith('upvar'):
            k = int(x[2][5:])
            return snaps[k] if k < len(snaps) else None
        return None
    return tmap(t, f)


def strip_refs_t(t):
    while isinstance(t, tuple) and t and t[0] in ('ref', 'der', 'K'):
        t = t[1]
    return t


def iteration_bodies(facts, name, outs, engine=None, adapters=('for_each',)):
    """Per-element bodies of `name`, whichever way the iteration is written.

    Returns a list of dicts {form, where, elem, events, conds}: for a closure handed to an iterator adapter the closure's outcomes with
    captured variables substituted by the parent's values (elem = the closure's argument); for a loop the parent's own back-edge
    outcomes restricted to the events after the loop head (elem = None: the element is whatever `next()` produced on that path)."""
    from sa.sym import Engine as _E
    bodies = []
    seen = set()
    for o in outs:
        for e in o.events:
            if e[0] == 'closure' and e[1].startswith(name) and (e[1], tuple(e[2]), tuple(o.conds[:e[3]])) not in seen:
                seen.add((e[1], tuple(e[2]), tuple(o.conds[:e[3]])))
                eng = engine() if engine else _E(facts)
                try:
                    couts = eng.run(e[1])
                except Exception:
                    continue
                for co in couts:
                    if co.kind not in ('return', 'backedge'):
                        continue
                    evs = [subst_upvars(x, e[2]) for x in co.events]
                    cs = [(subst_upvars(a, e[2]), v) for a, v in co.conds]
                    bodies.append({'form': 'closure', 'where': e[1], 'elem': ('p', 2), 'events': evs, 'conds': cs, 'parent_conds': list(o.conds[:e[3]]),
                                   'value': subst_upvars(co.value, e[2]) if isinstance(co.value, tuple) else co.value})
    for o in outs:
        if o.kind != 'backedge' or not o.where:
            continue
        heads = [i for i, e in enumerate(o.events) if e[0] == 'loop_head' and e[2] == o.where[1]]
        if not heads:
            continue
        evs = o.events[heads[-1]:]
        key = (o.where, tuple(x for x in evs if x[0] == 'call'), tuple(o.conds))
        if key in seen:
            continue
        seen.add(key)
        bodies.append({'form': 'loop', 'where': '%s@bb%s' % o.where, 'elem': None, 'events': evs, 'conds': list(o.conds), 'parent_conds': [], 'value': None})
    return bodies


def find_closures(outs):
    """closures handed to Iterator::find on the given paths: {closure name: snapshot tuple of its captures}, wherever the closure is
    written (in the analysed function or in a private helper the engine inlined)"""
    res = {}
    for o in outs:
        names = [e[2][1][2] for e in o.events if e[0] == 'call' and (e[1].endswith('::find') and 'Iterator' in e[1]) and len(e[2]) > 1
                 and e[2][1][0] == 'agg' and e[2][1][1] == 'closure']
        for e in o.events:
            if e[0] == 'closure' and e[1] in names:
                res.setdefault(e[1], e[2])
    return res


def coordinate_predicate(facts, clo_name, snaps):
    """Truth table of a `|m| m.from_square() == a && m.to_square() == b` predicate over its two atoms.

    Returns (table, atoms, rows_ok): table maps (from_equal, to_equal) -> bool; atoms = {'from_square': shown captured value it is
    compared with, 'to_square': ...}."""
    from sa.sym import Engine as _E, show as _show
    from .tables import is_true as _t, is_false as _f
    o2 = _E(facts, readonly={CHESSMOVE + '::from_square', CHESSMOVE + '::to_square'}).run(clo_name)

    def st(t):
        while isinstance(t, tuple) and t and (t[0] in ('ref', 'der', 'K') or (t[0] == 'call' and t[1].endswith('Clone>::clone'))):
            t = t[2][0] if t[0] == 'call' else t[1]
        return t

    def atom(t):
        if t[0] == 'eq':
            t = ('bin', 'Eq', t[1], t[2])
        if t[0] == 'bin' and t[1] == 'Eq':
            for a, b in ((t[2], t[3]), (t[3], t[2])):
                a, b = st(a), st(b)
                if a[0] == 'fld' and a[2] == '0':
                    a = st(a[1])
                if b[0] == 'fld' and b[2] == '0':
                    b = st(b[1])
                if a[0] == 'call' and a[1] in (CHESSMOVE + '::from_square', CHESSMOVE + '::to_square') and st(a[2][0]) == ('p', 2) \
                        and b[0] == 'fld' and isinstance(b[2], str) and b[2].startswith('upvar'):
                    k = int(b[2][5:])
                    return (a[1].rsplit('::', 1)[1], _show(snaps[k]) if k < len(snaps) else '?')
        return None
    rows, okrows, atoms = [], True, {}
    for o in o2:
        if o.kind != 'return':
            okrows = False
            continue
        env = {}
        for a, v in o.conds:
            k = atom(a)
            if k is None or not (_t(v) or _f(v)):
                okrows = False
            else:
                env[k[0]] = _t(v)
                atoms[k[0]] = k[1]
        val = o.value
        if val[0] == 'c':
            res = bool(val[1])
        else:
            k = atom(val)
            if k is None:
                okrows, res = False, None
            else:
                atoms[k[0]] = k[1]
                res = ('atom', k[0])
        rows.append((env, res))
    table = {}
    for va in (False, True):
        for vb in (False, True):
            full = {'from_square': va, 'to_square': vb}
            r = None
            for env, res in rows:
                if all(full[k] == v for k, v in env.items()):
                    r = full.get(res[1]) if isinstance(res, tuple) else res
                    break
            table[(va, vb)] = r
    return table, atoms, okrows


AND_TABLE = {(False, False): False, (False, True): False, (True, False): False, (True, True): True}


def is_iteration_element(t):
    """t (references stripped) is the element an iteration is currently at: `next()`'s payload in a loop, the element of an adapter"""
    t = strip_refs_t(t)
    if t[0] == 'elem':
        return True
    return t[0] == 'fld' and t[2] == 'Some.0' and t[1][0] == 'call' and t[1][1].endswith('::next')


def iteration_sources(o):
    """terms the iterations on this path run over: adapter sources and the iterators live at loop heads"""
    src = []
    for e in o.events:
        if e[0] == 'adapter':
            src.append((e[2], e[3], e[4]))
        elif e[0] == 'loop_head' and not (isinstance(e[2], tuple)):
            for v in e[3].values():
                if isinstance(v, tuple) and v and v[0] == 'call' and (v[1].endswith('into_iter') or v[1].endswith('::iter')):
                    src.append((e[2], v, ()))
    return src


def search_cache_fns(facts):
    """(probe, store): the functions of the search that look up resp. insert into SearchContext.search_result_cache, whatever they
    are called and wherever they live (free functions or methods).  None for a role that is not filled by exactly one function."""
    from sa.facts import field_reads
    SCX = 'chess::alpha_beta_searcher::SearchContext'
    users = {}
    for f, b, fl in field_reads(facts, SCX, 'search_result_cache', kinds=('lib',)):
        if f.derived or f.kind == 'Closure' or f.impl_trait:
            continue
        users.setdefault(f.name, f)
    probe, store = [], []
    for name, f in users.items():
        calls = [facts.callee_name(t) or '' for b, t in f.calls()]
        for c in facts.closures_of(name):          # a look-up may sit in a closure of the function (e.g. a probing loop)
            calls += [facts.callee_name(t) or '' for b, t in c.calls()]
        if any('HashMap' in c and c.endswith('::insert') for c in calls):
            store.append(name)
        elif any('HashMap' in c and (c.endswith('::get') or c.endswith('::contains_key')) for c in calls):
            probe.append(name)
    return (probe[0] if len(probe) == 1 else None), (store[0] if len(store) == 1 else None)


def import_rules(ctx, new_rule, fns, why, keep=None, floor=1):
    """Run rule functions of another property on a scratch context and re-state their obligations under `new_rule` of this property
    (the imported clause is a necessary condition here as well; the reason is given in `why`)."""
    sub = type(ctx)(ctx.prop, ctx.tier, ctx.facts, ctx.facts_info, ctx.seed)
    for fn in fns:
        fn(sub)
    n = 0
    for s in sub.samples:
        if keep is not None and not keep(s):
            continue
        n += 1
        ctx.ob(new_rule, s['function'], s['instance'], s['ok'], found=s['found'], expected=s['expected'], why=why,
               nontrivial='floor' not in s['instance'])
    ctx.floor(new_rule, 'obligations imported', n, floor)
    return n


_FINDER_CACHE = {}


def finder_summary(facts, name):
    """Summary of a crate function that returns the FIRST element of a list parameter whose origin and destination squares equal two of
    its other parameters - a first-match search written as a loop (or anything the engine walks like one) instead of `Iterator::find`.
    Returns {'table': truth table over (from equal, to equal), 'params': {'from_square': i, 'to_square': j}, 'list_param': k} or None."""
    key = (id(facts), name)
    if key in _FINDER_CACHE:
        return _FINDER_CACHE[key]
    from sa.sym import Engine as _E, PathLimit as _PL
    res = None
    f = facts.fns.get(name)
    if f is not None and f.crate == 'chess' and f.kind != 'Closure' and f.local_ty(0).startswith('std::option::Option<&') and f.cfg.has_loops():
        try:
            outs = _E(facts, readonly={CHESSMOVE + '::from_square', CHESSMOVE + '::to_square'}).run(name)
        except _PL:
            outs = []

        def st(t_):
            while isinstance(t_, tuple) and t_ and (t_[0] in ('ref', 'der', 'K') or (t_[0] == 'fld' and t_[2] == '0' and t_[1][0] != 'agg')
                                                    or (t_[0] == 'call' and t_[1].endswith('Clone>::clone'))):
                t_ = t_[2][0] if t_[0] == 'call' else t_[1]
            return t_

        def atom(t_):
            if t_[0] == 'eq':
                a, b = t_[1], t_[2]
            elif t_[0] == 'bin' and t_[1] == 'Eq':
                a, b = t_[2], t_[3]
            else:
                return None
            for x, y in ((a, b), (b, a)):
                x, y = st(x), st(y)
                if x[0] == 'call' and x[1] in (CHESSMOVE + '::from_square', CHESSMOVE + '::to_square') and is_iteration_element(x[2][0]) and y[0] == 'p':
                    return (x[1].rsplit('::', 1)[1], y[1])
            return None
        rows, params, ok, lists = [], {}, bool(outs), set()
        for o in outs:
            if o.kind == 'abort':
                continue
            env = {}
            for a, v in o.conds:
                k = atom(a)
                if k is None:
                    if a[0] == 'discr':
                        continue          # iterator exhausted / element present
                    ok = False
                    continue
                params.setdefault(k[0], k[1])
                if params[k[0]] != k[1] or v not in (0, 1, True, False):
                    ok = False
                env[k[0]] = bool(v)
            for src in iteration_sources(o):
                for s_ in subterms(src[1]):
                    if s_[0] == 'p':
                        lists.add(s_[1])
            v = o.value
            if o.kind == 'return' and v is not None and v[0] == 'agg' and v[3] == 'Some':
                ok = ok and is_iteration_element(dict(v[4])['0'])
                rows.append((env, True))
            elif o.kind == 'backedge':
                rows.append((env, False))
            elif o.kind == 'return' and v is not None and v[0] == 'agg' and v[3] == 'None':
                continue
            else:
                ok = False
        table = {}
        for va in (False, True):
            for vb in (False, True):
                full = {'from_square': va, 'to_square': vb}
                hits = {r for env, r in rows if all(full[k] == x for k, x in env.items())}
                table[(va, vb)] = hits.pop() if len(hits) == 1 else None
        if ok and len(lists) == 1 and set(params) == {'from_square', 'to_square'}:
            res = {'table': table, 'params': params, 'list_param': next(iter(lists))}
    _FINDER_CACHE[key] = res
    return res


def find_events(facts, o):
    """first-match searches on a path: calls of Iterator::find and calls of crate functions with a finder summary"""
    return [e for e in o.events if e[0] == 'call' and ((e[1].endswith('::find') and 'Iterator' in e[1]) or finder_summary(facts, e[1]) is not None)]


# ---- comparing two paths up to one decision ------------------------------------------------------------------------------------------
def _normalise(x, ren):
    """path-local numbering of call instances / unknowns (the engine numbers them globally across paths) and no epochs, so that two paths
    can be compared for being the same up to one decision"""
    if isinstance(x, tuple):
        if len(x) == 2 and x[0] == 'e' and isinstance(x[1], int):
            return ('e', 0)
        if len(x) == 3 and x[0] == 'L' and isinstance(x[1], int) and isinstance(x[2], int):
            return ('L', ren.setdefault(('f', x[1]), len(ren)), x[2])
        if len(x) == 2 and x[0] in ('havoc', 'hv') and isinstance(x[1], int):
            return (x[0], ren.setdefault(('u', x[1]), len(ren)))
        if len(x) >= 4 and x[0] == 'call' and isinstance(x[3], int) and not isinstance(x[3], bool):
            head = ('call', x[1], _normalise(x[2], ren), ren.setdefault(('u', x[3]), len(ren)))
            return head + tuple(_normalise(y, ren) for y in x[4:])
        return tuple(_normalise(y, ren) for y in x)
    if isinstance(x, list):
        return tuple(_normalise(y, ren) for y in x)
    if isinstance(x, dict):
        return tuple(sorted((repr(k), _normalise(v, ren)) for k, v in x.items()))
    return x



_SIB_CACHE = {}


def decides_only(outs, o, i, drop_event, tag=''):
    """The decision at path condition i of outcome o decides nothing but events of the kind `drop_event` accepts: some other path takes the
    decision the other way and is otherwise the same path (same kind, same remaining conditions, same value, same events once the
    droppable ones are removed; call instances, frames and unknowns renumbered path-locally, events compared without span and epoch)."""
    def sig(p):
        evs = [e for e in p.events if not drop_event(p, e)]
        evs = [(e[:5] + (e[6],) if e[0] == 'call' and len(e) > 6 else (e[:2] if e[0] == 'drop' else e)) for e in evs]
        return _normalise((p.kind, [x for j, x in enumerate(p.conds) if j != i], evs, p.value), {})
    atom = repr(_normalise(o.conds[i][0], {}))
    key = (id(outs), i, atom, tag)
    if key not in _SIB_CACHE:
        table = {}
        for p in outs:
            if len(p.conds) > i and repr(_normalise(p.conds[i][0], {})) == atom:
                table.setdefault(sig(p), set()).add(repr(p.conds[i][1]))
        if len(_SIB_CACHE) > 64:
            _SIB_CACHE.clear()
        _SIB_CACHE[key] = table
    return len(_SIB_CACHE[key].get(sig(o), ())) >= 2


def bitscan_loop(o):
    """Bit-scan iteration on a back-edge path: a loop-carried bitboard R (tested non-empty to go on) whose next value clears exactly its
    lowest set bit - decided by EVALUATING the update term on test values (`R & (R - 1)`, `R & !(1 << tz(R))`, `R ^ (R & R.wrapping_neg())`
    ... all qualify) - so that the iterations visit every set bit of R's initial value exactly once, lowest first, at index tz(R).
    Returns {'R': term, 'R0': field-0 term, 'init': initial value term} or None."""
    from sa.evalterm import ev, Unevaluable
    heads = [e for e in o.events if e[0] == 'loop_head' and not isinstance(e[2], tuple)]
    if not heads or not o.locals or o.kind != 'backedge':
        return None
    h = heads[-1]
    tests = (1, 2, 3, 0x80, 0x8000000000000000, 0xff00, 0x0000001008000000, 0xffffffffffffffff, 0x8100000000000081, 0x5555555555555555, 6, 0x7000)
    for l, init in h[3].items():
        R = ('lv', h[2], l)
        R0 = ('fld', R, '0')
        nv = o.locals.get(l)
        if nv is None or nv == R:
            continue
        nv0 = ('fld', nv, '0') if not (nv[0] == 'agg' and nv[4]) else dict(nv[4]).get('0', nv)
        ok = True
        try:
            for x in tests:
                got = ev(nv0, {R: x, R0: x})
                if got != (x & (x - 1)):
                    ok = False
                    break
        except (Unevaluable, TypeError, KeyError, IndexError):
            ok = False
        if not ok:
            continue
        # the loop goes on only while R is non-empty
        nonempty = False
        for a, v in o.conds[h[4]:]:
            if any(s_ == R for s_ in subterms(a)):
                try:
                    z = ev(a, {R: 0, R0: 0})
                    nz = ev(a, {R: 8, R0: 8})
                except (Unevaluable, TypeError):
                    continue
                hold = lambda val: (val not in v[1]) if isinstance(v, tuple) and v and v[0] == 'not' else val == (int(v) if isinstance(v, bool) else v)
                if hold(nz) and not hold(z):
                    nonempty = True
        if nonempty:
            return {'R': R, 'R0': R0, 'init': init, 'head': h[2], 'local': l}
    return None


def par_task(facts, parent):
    """the closure of `parent` that is handed to a rayon adapter (par_iter().map(..) / for_each(..) / filter_map(..)): the body of the parallel
    tasks, whatever its index among the closures of the function (another closure written before it shifts the numbering)"""
    f = facts.fns.get(parent)
    if f is not None:
        clos = {}
        for b in f.blocks:
            if b['cleanup']:
                continue
            for s in b['stmts']:
                if s['k'] == 'assign' and s['rv'].get('k') == 'aggregate' and s['rv'].get('agg') == 'closure' and not s['place'].get('proj'):
                    clos[s['place']['local']] = s['rv'].get('closure')
        for b_, t in f.calls():
            cn = facts.callee_name(t) or ''
            if 'rayon::' in cn and 'Parallel' in cn:
                for a in t.get('args', []):
                    if a.get('k') in ('move', 'copy') and not a['place'].get('proj') and a['place']['local'] in clos:
                        return clos[a['place']['local']]
    return parent + '::{closure#0}'
