"""Decision-table helpers (A3): rows = (normalised condition set -> value) from path outcomes."""
from sa.sym import show, show_cond, subterms, is_const


def cond_value(v):
    """('not', (a,b)) -> ('not', frozenset) ; ints stay"""
    if isinstance(v, tuple) and v and v[0] == 'not':
        return ('not', tuple(sorted(v[1])))
    return v


def rows(outs, kinds=('return',)):
    res = []
    for o in outs:
        if o.kind not in kinds:
            continue
        res.append((dict((a, cond_value(v)) for a, v in o.conds), o.value, o))
    return res


def param_discr(i):
    return ('discr', ('p', i))


def is_true(v, two_valued=True):
    """condition value means 'atom == 1 / non-zero' for boolean-like atoms"""
    if v == 1 or v is True:
        return True
    if isinstance(v, tuple) and v[0] == 'not' and tuple(v[1]) == (0,):
        return True
    return False


def is_false(v):
    if v == 0 or v is False:
        return True
    if isinstance(v, tuple) and v[0] == 'not' and tuple(v[1]) == (1,):
        return True
    return False


def pin(v, domain=(0, 1)):
    """the single discriminant value a condition leaves possible within `domain`, else None
    (`x not in [1]` on a two-valued enum means x == 0)"""
    if isinstance(v, bool):
        return int(v)
    if isinstance(v, int):
        return v
    if isinstance(v, tuple) and v and v[0] == 'not':
        rest = [d for d in domain if d not in v[1]]
        if len(rest) == 1:
            return rest[0]
    return None
