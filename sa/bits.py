"""Bit-range analysis of packing terms (part of A14): is an integer term built from casts, constant shifts, constant masks and `|`
an injective function of its leaves?

For every sub-term two masks are tracked at the term's integer width:
  nz    bits that can be non-zero for some value of the leaves,
  info  bits that together still determine the leaves below (a sign-extended i16 inside an i32 has nz = all 32 bits but info = the low 16).
`a | b` keeps both operands recoverable only if their nz masks are disjoint; a constant mask or a shift keeps a leaf recoverable only if
its info bits survive.  Anything else (addition, multiplication, xor of overlapping ranges, ...) is reported as not decidable.  No values are
enumerated: the verdict holds for the whole domain."""

WIDTH = {'u8': 8, 'u16': 16, 'u32': 32, 'u64': 64, 'u128': 128, 'usize': 64,
         'i8': 8, 'i16': 16, 'i32': 32, 'i64': 64, 'i128': 128, 'isize': 64, 'bool': 1, 'char': 32}


class NotInjective(Exception):
    pass


def _signed(ty):
    return ty is not None and ty.startswith('i')


def analyse(t, leaf_ty):
    """returns (ty, nz, info, leaves) for term t; leaf_ty(term) -> type name or None for non-leaves; raises NotInjective(reason)"""
    lt = leaf_ty(t)
    if lt is not None:
        w = WIDTH.get(lt)
        if w is None:
            raise NotInjective('leaf of non-integer type %s' % lt)
        m = (1 << w) - 1
        return lt, m, m, {t}
    k = t[0]
    if k == 'c':
        v = t[1]
        if isinstance(v, bool):
            v = int(v)
        if not isinstance(v, int):
            raise NotInjective('non-integer constant')
        return None, v, 0, set()
    if k == 'cast':
        ty, nz, info, leaves = analyse(t[1], leaf_ty)
        to = t[2]
        wt = WIDTH.get(to)
        if wt is None:
            raise NotInjective('cast to %s' % to)
        if ty is None:
            return to, nz & ((1 << wt) - 1), 0, leaves
        ws = WIDTH[ty]
        if wt > ws and _signed(ty):
            # sign extension: the upper bits copy the sign bit whenever it can be set
            if (nz >> (ws - 1)) & 1:
                nz |= ((1 << wt) - 1) & ~((1 << ws) - 1)
        elif wt < ws:
            keep = (1 << wt) - 1
            if info & ~keep:
                raise NotInjective('truncating cast %s -> %s drops bits that carry information' % (ty, to))
            nz &= keep
        return to, nz, info, leaves
    if k == 'bin':
        op = t[1].replace('Unchecked', '').replace('WithOverflow', '')
        if op in ('Shl', 'Shr'):
            ty, nz, info, leaves = analyse(t[2], leaf_ty)
            if t[3][0] != 'c' and not (t[3][0] == 'cast' and t[3][1][0] == 'c'):
                raise NotInjective('shift by a non-constant')
            sh = t[3][1] if t[3][0] == 'c' else t[3][1][1]
            w = WIDTH.get(ty, 64)
            full = (1 << w) - 1
            if op == 'Shl':
                if (info << sh) & ~full:
                    raise NotInjective('left shift by %d pushes information bits out of %s' % (sh, ty))
                return ty, (nz << sh) & full, (info << sh) & full, leaves
            if _signed(ty) and (nz >> (w - 1)) & 1:
                raise NotInjective('arithmetic right shift of a possibly negative value')
            if info & ((1 << sh) - 1):
                raise NotInjective('right shift by %d drops information bits' % sh)
            return ty, nz >> sh, info >> sh, leaves
        ta, nza, ia, la = analyse(t[2], leaf_ty)
        tb, nzb, ib, lb = analyse(t[3], leaf_ty)
        ty = ta or tb
        if op == 'BitAnd':
            if not la or not lb:
                (nzv, iv, lv), c = ((nzb, ib, lb), nza) if not la else ((nza, ia, la), nzb)
                if _signed(ty) and c < 0:
                    c &= (1 << WIDTH.get(ty, 64)) - 1
                if iv & ~c:
                    raise NotInjective('constant mask %#x drops information bits' % c)
                return ty, nzv & c, iv & c, lv
            raise NotInjective('& of two non-constant parts')
        if op == 'BitOr':
            if not la or not lb:
                if (not la and nza) or (not lb and nzb):
                    c = nza if not la else nzb
                    other_info = ib if not la else ia
                    if c & other_info:
                        raise NotInjective('| with a constant overwrites information bits')
                return ty, nza | nzb, ia | ib, la | lb
            if nza & nzb:
                raise NotInjective('the operands of | can both be non-zero in bits %#x: one part overwrites the other' % (nza & nzb))
            if la & lb:
                raise NotInjective('a leaf occurs on both sides of |')
            return ty, nza | nzb, ia | ib, la | lb
        raise NotInjective('operator %s is not a packing operator' % op)
    raise NotInjective('term of kind %s' % k)


def injective(t, leaf_ty):
    """(True, leaves, None) if t is a provably injective function of its leaves, else (False, None, reason)"""
    try:
        ty, nz, info, leaves = analyse(t, leaf_ty)
        return True, leaves, None
    except NotInjective as e:
        return False, None, str(e)
