"""Finite-domain evaluation of extracted terms (A9): constant folding of a reconstructed term under an
assignment of its free leaves.  Bitboard arithmetic is u64."""
M64 = (1 << 64) - 1


class Unevaluable(Exception):
    pass


def ev(t, env):
    if t in env:
        return env[t]
    k = t[0]
    if k == 'c':
        v = t[1]
        if isinstance(v, bool):
            return int(v)
        if isinstance(v, int):
            return v
        raise Unevaluable(t)
    if k == 'bin':
        op = t[1]
        a, b = ev(t[2], env), ev(t[3], env)
        if op == 'BitAnd':
            return a & b
        if op == 'BitOr':
            return a | b
        if op == 'BitXor':
            return a ^ b
        if op == 'Shl':
            return (a << b) & M64 if 0 <= b < 64 else 0
        if op == 'Shr':
            return (a & M64) >> b if 0 <= b < 64 else 0
        if op in ('Add', 'WAdd'):
            return (a + b) & M64
        if op in ('Sub', 'WSub'):
            return (a - b) & M64
        if op in ('Mul', 'WMul'):
            return (a * b) & M64
        if op == 'Div':
            if b == 0:
                raise Unevaluable(t)
            return a // b
        if op == 'Rem':
            if b == 0:
                raise Unevaluable(t)
            return a % b
        if op == 'Eq':
            return int(a == b)
        if op == 'Ne':
            return int(a != b)
        if op == 'Lt':
            return int(a < b)
        if op == 'Le':
            return int(a <= b)
        if op == 'Gt':
            return int(a > b)
        if op == 'Ge':
            return int(a >= b)
        raise Unevaluable(t)
    if k == 'un':
        a = ev(t[2], env)
        if t[1] == 'Not':
            return (~a) & M64
        raise Unevaluable(t)
    if k == 'cast':
        return ev(t[1], env)
    if k == 'eqc':
        return int(ev(t[1], env) == t[2])
    if k == 'agg' and t[1] == 'adt' and len(t[4]) == 1:
        return ev(t[4][0][1], env)
    if k == 'fld' and t[2] == '0':
        # field 0 of a Bitboard-valued leaf
        if t[1] in env:
            return env[t[1]]
        return ev(t[1], env)
    if k == 'upd' and t[1] == 'fld' and t[3] == '0':
        # single-field wrapper (Bitboard) whose field 0 was overwritten
        return ev(t[4], env)
    raise Unevaluable(t)


def squares(v):
    return {i for i in range(64) if (v >> i) & 1}


def geom(i, deltas):
    """bitboard of squares reached from square index i by (d_rank, d_file) steps that stay on the board"""
    r, f = divmod(i, 8)
    out = 0
    for dr, df in deltas:
        rr, ff = r + dr, f + df
        if 0 <= rr < 8 and 0 <= ff < 8:
            out |= 1 << (8 * rr + ff)
    return out


KNIGHT = [(2, 1), (1, 2), (-1, 2), (-2, 1), (2, -1), (1, -2), (-1, -2), (-2, -1)]
KING = [(1, 1), (1, 0), (1, -1), (-1, 1), (-1, 0), (-1, -1), (0, 1), (0, -1)]
ROOK_DIRS = [(1, 0), (0, -1), (-1, 0), (0, 1)]
BISHOP_DIRS = [(1, 1), (1, -1), (-1, -1), (-1, 1)]


def ray_attacks(i, occ, dirs):
    r, f = divmod(i, 8)
    out = 0
    for dr, df in dirs:
        rr, ff = r + dr, f + df
        while 0 <= rr < 8 and 0 <= ff < 8:
            b = 1 << (8 * rr + ff)
            out |= b
            if occ & b:
                break
            rr, ff = rr + dr, ff + df
    return out


def relevant_mask(i, dirs):
    """squares whose occupancy matters: each ray without its last square"""
    r, f = divmod(i, 8)
    out = 0
    for dr, df in dirs:
        rr, ff = r + dr, f + df
        while 0 <= rr + dr < 8 and 0 <= ff + df < 8:
            out |= 1 << (8 * rr + ff)
            rr, ff = rr + dr, ff + df
    return out


def subsets(mask):
    s = 0
    while True:
        yield s
        s = (s - mask) & mask
        if s == 0:
            return
