"""Extraction of MIR/const facts from a source tree of codyjk/chess through the chessfacts driver.

Facts are a pure function of (tree contents, extractor binary, profile); they are cached under
/verif/.cache/facts/<hash>/ and rebuilt whenever any hashed input changes.  The build-script output
directory and the members' fingerprints are deleted before each extraction so that (a) cargo cannot
replay a cached compilation without the driver and (b) the build script regenerates its tables from
the *current* precompile sources.
"""
import fcntl
import glob
import hashlib
import json
import os
import shutil
import subprocess
import sys
import time

VERIF = os.path.dirname(os.path.dirname(os.path.abspath(__file__)))
CACHE = os.path.join(VERIF, ".cache")
DRIVER = os.path.join(VERIF, "extractor", "target", "release", "chessfacts")
EXPECTED = ["common-lib.json", "precompile-lib.json", "build_script_main-build.json",
            "chess-lib.json", "chess-bin.json"]
SKIP_DIRS = {".git", "target"}


def tree_hash(root, extra=b""):
    h = hashlib.sha256()
    h.update(extra)
    for dirpath, dirnames, filenames in os.walk(root):
        dirnames[:] = sorted(d for d in dirnames if d not in SKIP_DIRS)
        for fn in sorted(filenames):
            p = os.path.join(dirpath, fn)
            rel = os.path.relpath(p, root)
            if os.path.islink(p):
                h.update(b"L" + rel.encode() + os.readlink(p).encode())
                continue
            try:
                with open(p, "rb") as f:
                    data = f.read()
            except OSError:
                continue
            h.update(b"F" + rel.encode() + b"\0" + hashlib.sha256(data).digest())
    return h.hexdigest()[:24]


def driver_digest():
    with open(DRIVER, "rb") as f:
        return hashlib.sha256(f.read()).digest()


def sysroot():
    return subprocess.check_output(["rustc", "+nightly", "--print", "sysroot"], text=True).strip()


def build_driver():
    if os.path.exists(DRIVER):
        src_m = max(os.path.getmtime(p) for p in glob.glob(os.path.join(VERIF, "extractor", "src", "*.rs")))
        if os.path.getmtime(DRIVER) >= src_m:
            return
    env = dict(os.environ, CARGO_NET_OFFLINE="true")
    subprocess.check_call(["cargo", "build", "--release", "--offline"], cwd=os.path.join(VERIF, "extractor"), env=env)


def _clean_members(target_dir):
    for prof in ("debug",):
        base = os.path.join(target_dir, prof)
        for pat in (".fingerprint/chess-*", ".fingerprint/common-*", ".fingerprint/precompile-*",
                    "build/chess-*"):
            for p in glob.glob(os.path.join(base, pat)):
                shutil.rmtree(p, ignore_errors=True)


def run_extraction(repo, out_dir, target_dir, profile="debug", nonce=None, crates=None, cwd=None,
                   extra_args=None, timeout=900):
    """Run cargo check through the driver; returns (ok, log)."""
    build_driver()
    nonce = nonce or hashlib.sha1(os.urandom(16)).hexdigest()[:12]
    os.makedirs(out_dir, exist_ok=True)
    os.makedirs(target_dir, exist_ok=True)
    _clean_members(target_dir)
    rustflags = "-Zmir-opt-level=0 -Awarnings"
    if profile == "release":
        rustflags += " -C overflow-checks=off -C debug-assertions=off"
    env = dict(os.environ)
    env.update({
        "LD_LIBRARY_PATH": os.path.join(sysroot(), "lib") + ":" + env.get("LD_LIBRARY_PATH", ""),
        "RUSTFLAGS": rustflags,
        "RUSTC_WRAPPER": DRIVER,
        "CARGO_PROFILE_DEV_BUILD_OVERRIDE_OPT_LEVEL": "3",
        "CARGO_PROFILE_DEV_BUILD_OVERRIDE_DEBUG": "false",
        "CARGO_TARGET_DIR": target_dir,
        "CHESSFACTS_OUT": out_dir,
        "CHESSFACTS_NONCE": nonce,
        "CARGO_NET_OFFLINE": "true",
        "CARGO_INCREMENTAL": "0",
    })
    if crates:
        env["CHESSFACTS_CRATES"] = crates
    cmd = ["cargo", "+nightly", "check", "--offline"] + (extra_args if extra_args is not None else ["--lib", "--bins"])
    p = subprocess.run(cmd, cwd=cwd or repo, env=env, stdout=subprocess.PIPE, stderr=subprocess.STDOUT,
                       text=True, timeout=timeout)
    return p.returncode == 0, p.stdout, nonce


def facts_for(repo="/repo", profile="debug", force=False, log=None):
    """Return (facts_dir, info) for the current working tree of `repo`, extracting if needed."""
    build_driver()
    th = tree_hash(repo, driver_digest() + profile.encode())
    final = os.path.join(CACHE, "facts", th)
    info = {"tree_hash": th, "extraction_ran": False, "profile": profile}
    if os.path.isdir(final) and not force and all(os.path.exists(os.path.join(final, e)) for e in EXPECTED):
        return final, info
    os.makedirs(os.path.join(CACHE, "facts"), exist_ok=True)
    # VERIF_EXTRACT_SLOT=<k>: the self-test sweeps extract several scratch trees at once, each worker in its own copy of the warm
    # target directory (a plain copy: ~110 MB); checks of /repo itself never set it
    slot = os.environ.get("VERIF_EXTRACT_SLOT") or ""
    lock = open(os.path.join(CACHE, "extract%s.lock" % (("-" + slot) if slot else "")), "w")
    fcntl.flock(lock, fcntl.LOCK_EX)
    try:
        if os.path.isdir(final) and not force and all(os.path.exists(os.path.join(final, e)) for e in EXPECTED):
            return final, info
        tmp = final + ".tmp%d" % os.getpid()
        shutil.rmtree(tmp, ignore_errors=True)
        base_target = os.path.join(CACHE, "target" if profile == "debug" else "target-" + profile)
        target = base_target + ((".slot" + slot) if slot else "")
        if slot and not os.path.isdir(target) and os.path.isdir(base_target):
            subprocess.call(["cp", "-a", base_target, target])
        t0 = time.time()
        ok, out, nonce = run_extraction(repo, tmp, target, profile=profile)
        info["extraction_s"] = round(time.time() - t0, 1)
        info["extraction_ran"] = True
        if not ok:
            shutil.rmtree(tmp, ignore_errors=True)
            raise ExtractionError("cargo check through the driver failed:\n" + out[-4000:])
        for e in EXPECTED:
            p = os.path.join(tmp, e)
            if not os.path.exists(p):
                shutil.rmtree(tmp, ignore_errors=True)
                raise ExtractionError("fact file %s was not produced (driver skipped?)\n%s" % (e, out[-3000:]))
            with open(p) as f:
                head = f.read(400)
            if nonce not in head:
                shutil.rmtree(tmp, ignore_errors=True)
                raise ExtractionError("fact file %s carries a stale nonce" % e)
        # keep the generated sources next to the facts for the record (inspected as source only)
        gen = glob.glob(os.path.join(target, "debug", "build", "chess-*", "out", "*.rs"))
        for g in gen:
            shutil.copy(g, tmp)
        try:
            if os.path.isdir(final) and all(os.path.exists(os.path.join(final, e)) for e in EXPECTED):
                # another process (a check of a different property, working in its own extraction slot) has just published the
                # facts of this very tree: use those
                shutil.rmtree(tmp, ignore_errors=True)
            else:
                shutil.rmtree(final, ignore_errors=True)
                os.rename(tmp, final)
        except OSError:
            if os.path.isdir(final) and all(os.path.exists(os.path.join(final, e)) for e in EXPECTED):
                shutil.rmtree(tmp, ignore_errors=True)
            else:
                raise
        _prune_cache(keep=final)
        return final, info
    finally:
        fcntl.flock(lock, fcntl.LOCK_UN)
        lock.close()


def _prune_cache(keep, max_entries=40):
    base = os.path.join(CACHE, "facts")
    ents = [os.path.join(base, e) for e in os.listdir(base)]
    ents = [e for e in ents if os.path.isdir(e) and e != keep]
    ents.sort(key=os.path.getmtime)
    while len(ents) > max_entries - 1:
        shutil.rmtree(ents.pop(0), ignore_errors=True)


class ExtractionError(Exception):
    pass


if __name__ == "__main__":
    d, info = facts_for(sys.argv[1] if len(sys.argv) > 1 else "/repo", force="--force" in sys.argv)
    print(d, json.dumps(info))
