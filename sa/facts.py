"""Fact base loader + CFG utilities (A1) + call graph / access sets (A8)."""
import json
import os
import re
from collections import defaultdict

FILES = ["common-lib.json", "precompile-lib.json", "build_script_main-build.json",
         "chess-lib.json", "chess-bin.json"]


def norm_value(v):
    """JSON constant -> hashable python value.
    ints/bools/str stay; char -> ('char', c); arrays -> ('array', (..)); tuples -> ('tuple', (..));
    ADTs -> ('adt', path, variant, ((fname, val), ...)); anything else -> ('opaque', repr)"""
    if isinstance(v, (bool, int, str)) or v is None:
        return v
    if isinstance(v, list):
        return ('array', tuple(norm_value(x) for x in v))
    if isinstance(v, dict):
        if 'char' in v:
            return ('char', v['char'])
        if 'tuple' in v:
            return ('tuple', tuple(norm_value(x) for x in v['tuple']))
        if 'adt' in v:
            return ('adt', v['adt'], v['variant'], tuple((k, norm_value(x)) for k, x in v['fields'].items()))
        if 'fn' in v:
            return ('fn', v['fn'])
        if 'bytes' in v:
            return ('bytes', tuple(v['bytes']))
        return ('opaque', json.dumps(v, sort_keys=True))
    return ('opaque', repr(v))


def bb_value(v):
    """Bitboard constant -> int, else None"""
    if isinstance(v, tuple) and len(v) == 4 and v[0] == 'adt' and v[1].endswith('::Bitboard'):
        return v[3][0][1]
    return None


class Fn:
    def __init__(self, raw, crate, kind):
        self.raw = raw
        self.crate = crate
        self.crate_kind = kind
        self.name = raw['pretty']
        self.path = raw['path']
        self.blocks = raw['blocks']
        self.locals = raw['locals']
        self.arg_count = raw['arg_count']
        self.span = raw['span']
        self.vis = raw.get('vis')
        self.derived = raw.get('derived', False)
        self.impl_self = raw.get('impl_self')
        self.impl_trait = raw.get('impl_trait')
        self.closure_of = raw.get('closure_of')
        self.kind = raw['kind']
        self._cfg = None

    @property
    def file(self):
        return self.span.split(':')[0]

    @property
    def line(self):
        try:
            return int(self.span.split(':')[1])
        except Exception:
            return 0

    def local_ty(self, n):
        return self.locals[n]['ty']

    def local_name(self, n):
        return self.locals[n]['name']

    # ---- CFG (A1) -------------------------------------------------------------------------
    def succs(self, b):
        """normal (non-unwind) successors"""
        t = self.blocks[b]['term']
        k = t['k']
        if k == 'goto':
            return [t['target']]
        if k == 'switch':
            out = [x[1] for x in t['targets']]
            out.append(t['otherwise'])
            return out
        if k in ('call', 'drop', 'assert'):
            return [t['target']] if t.get('target') is not None else []
        if k == 'other':
            return list(t.get('succ', []))
        return []

    @property
    def cfg(self):
        if self._cfg is None:
            self._cfg = CFG(self)
        return self._cfg

    def calls(self):
        """yield (block id, term) for every non-cleanup call"""
        for b in self.blocks:
            if b['cleanup']:
                continue
            t = b['term']
            if t['k'] == 'call':
                yield b['id'], t


class CFG:
    def __init__(self, fn):
        self.fn = fn
        n = len(fn.blocks)
        self.n = n
        self.succ = [[] for _ in range(n)]
        self.pred = [[] for _ in range(n)]
        for b in fn.blocks:
            if b['cleanup']:
                continue
            for s in fn.succs(b['id']):
                if fn.blocks[s]['cleanup']:
                    continue
                self.succ[b['id']].append(s)
                self.pred[s].append(b['id'])
        # reachable
        self.reach = set()
        st = [0]
        while st:
            x = st.pop()
            if x in self.reach:
                continue
            self.reach.add(x)
            st.extend(self.succ[x])
        self.exits = [b for b in self.reach if fn.blocks[b]['term']['k'] == 'return']
        self._dom = None
        self._pdom = None
        self._loops = None

    def _dominators(self, entry_list, succ, pred, nodes):
        dom = {x: set(nodes) for x in nodes}
        for e in entry_list:
            dom[e] = {e}
        changed = True
        order = list(nodes)
        while changed:
            changed = False
            for x in order:
                if x in entry_list:
                    continue
                ps = [p for p in pred[x] if p in dom]
                if not ps:
                    new = {x}
                else:
                    new = set.intersection(*[dom[p] for p in ps]) | {x}
                if new != dom[x]:
                    dom[x] = new
                    changed = True
        return dom

    @property
    def dom(self):
        if self._dom is None:
            self._dom = self._dominators([0], self.succ, self.pred, sorted(self.reach))
        return self._dom

    @property
    def pdom(self):
        """post-dominators w.r.t. normal returns (blocks that cannot reach a return post-dominate nothing)"""
        if self._pdom is None:
            # virtual exit
            nodes = sorted(self.reach)
            succ = {x: [s for s in self.succ[x]] for x in nodes}
            pred = {x: [p for p in self.pred[x] if p in self.reach] for x in nodes}
            # reverse graph dominators from exits
            can_exit = set()
            st = list(self.exits)
            while st:
                x = st.pop()
                if x in can_exit:
                    continue
                can_exit.add(x)
                st.extend(pred[x])
            nodes2 = [x for x in nodes if x in can_exit]
            rsucc = {x: [p for p in pred[x] if p in can_exit] for x in nodes2}
            rpred = {x: [s for s in succ[x] if s in can_exit] for x in nodes2}
            EXIT = -1
            nodes3 = nodes2 + [EXIT]
            rsucc[EXIT] = list(self.exits)
            rpred[EXIT] = []
            for e in self.exits:
                rpred[e] = rpred[e] + [EXIT]
            self._pdom = self._dominators([EXIT], rsucc, rpred, nodes3)
        return self._pdom

    def dominates(self, a, b):
        return a in self.dom.get(b, ())

    def postdominates(self, a, b):
        return a in self.pdom.get(b, ())

    @property
    def loops(self):
        """dict head -> set(body blocks) (natural loops, merged per head)"""
        if self._loops is None:
            loops = {}
            for t in self.reach:
                for h in self.succ[t]:
                    if self.dominates(h, t):
                        body = {h, t}
                        st = [t]
                        while st:
                            x = st.pop()
                            if x == h:
                                continue
                            for p in self.pred[x]:
                                if p not in body and p in self.reach:
                                    body.add(p)
                                    st.append(p)
                        loops.setdefault(h, set()).update(body)
            self._loops = loops
        return self._loops

    def has_loops(self):
        return bool(self.loops)

    def reachable_from(self, b, avoid=()):
        seen = set()
        st = [b]
        while st:
            x = st.pop()
            if x in seen or x in avoid:
                continue
            seen.add(x)
            st.extend(self.succ[x])
        return seen



# ---- alias layer: functions / fields that were only renamed or moved -----------------------------------------------------------------
BASELINE = os.path.join(os.path.dirname(os.path.dirname(os.path.abspath(__file__))), 'rules', 'anchor_baseline.json')


def fn_sigkey(fr):
    """signature up to parameter order: kind-independent multiset of parameter types + return type"""
    tys = [l['ty'] for l in fr['locals'][:fr['arg_count'] + 1]]
    return [tys[0]] + sorted(tys[1:])


def const_digest(v):
    import hashlib
    return hashlib.sha1(json.dumps(v, sort_keys=True).encode()).hexdigest()[:16]


def fn_callees(fr):
    out = []
    for b in fr['blocks']:
        if b['cleanup']:
            continue
        t_ = b['term']
        if t_['k'] == 'call':
            n = t_['callee'].get('pretty') or t_['callee'].get('declared')
            if n:
                out.append(n)
    return sorted(out)


def compute_aliases(raws):
    """({current function name: baseline name}, {(adt, current field): baseline field}) for functions / fields of the baseline that are
    absent from the current tree while exactly one new item matches them (same signature multiset and the closest callee multiset for
    functions; same position and type for fields).  The rules are written against the baseline names; an alias only re-attaches them to the
    same code under its new name - what that code does is then decided by the rules as usual."""
    try:
        base = json.load(open(BASELINE))
    except Exception:
        return {}, {}
    cur = {}
    cur_adts = {}
    for raw in raws:
        if raw['kind'] in ('bin', 'build'):
            continue
        for fr in raw['fns']:
            if fr['kind'] == 'Closure' or fr.get('derived'):
                continue
            cur[fr['pretty']] = (fn_sigkey(fr), fn_callees(fr), raw['crate'])
        for a in raw['adts']:
            cur_adts[a['path']] = [[(f['name'], f['ty']) for f in v['fields']] for v in a['variants']]
    missing = [n for n in base['fns'] if n not in cur]
    extra = [n for n in cur if n not in base['fns']]
    fn_alias = {}
    if missing and extra:
        def sim(a, b):
            from collections import Counter
            ca, cb = Counter(a), Counter(b)
            inter = sum((ca & cb).values())
            union = sum((ca | cb).values())
            return inter / union if union else 1.0
        changed = True
        while changed:
            changed = False
            ren = {v: k for k, v in fn_alias.items()}        # baseline -> current, to compare callee lists under the renames found so far
            for m in missing:
                if m in fn_alias.values():
                    continue
                b = base['fns'][m]
                cands = [n for n in extra if n not in fn_alias and cur[n][0] == b['sig'] and cur[n][2] == b['crate']]
                if not cands:
                    continue
                want = [fn_alias_inv_get(ren, x) for x in b['callees']]
                scored = sorted(((sim(want, cur[n][1]), n) for n in cands), reverse=True)
                if len(scored) == 1 or (scored[0][0] >= 0.5 and scored[0][0] - scored[1][0] >= 0.2):
                    if scored[0][0] >= 0.5 or len(cands) == 1 and len(missing) == 1:
                        fn_alias[scored[0][1]] = m
                        changed = True
    # constants: same type and same value under a new name (or path)
    cur_consts = {}
    for raw in raws:
        if raw['kind'] in ('bin', 'build'):
            continue
        for c in raw['consts']:
            cur_consts[c['path']] = (c['ty'], const_digest(c['value']))
    for m, (ty, dg) in base.get('consts', {}).items():
        if m in cur_consts:
            continue
        cands = [n for n, (t2, d2) in cur_consts.items() if n not in base.get('consts', {}) and t2 == ty and d2 == dg and n not in fn_alias]
        if len(cands) == 1:
            fn_alias[cands[0]] = m
    field_alias = {}
    for path, variants in base['adts'].items():
        cv = cur_adts.get(path)
        if cv is None or len(cv) != len(variants):
            continue
        for bv, nv in zip(variants, cv):
            if len(bv) != len(nv):
                continue
            for (bn, bt), (nn, nt) in zip(bv, nv):
                if bn != nn and bt == nt and bn not in [x[0] for x in nv] and nn not in [x[0] for x in bv]:
                    field_alias[(path, nn)] = bn
    return fn_alias, field_alias


def fn_alias_inv_get(ren, x):
    return ren.get(x, x)


def _perm_for(base_params, cur_params):
    """for every baseline parameter position the current position holding it, or None when the signatures are not a reordering of one
    another.  Same-typed parameters are told apart by their names when those are unchanged, by their relative order otherwise."""
    if len(base_params) != len(cur_params) or sorted(t for t, _ in base_params) != sorted(t for t, _ in cur_params):
        return None
    used = set()
    perm = [None] * len(base_params)
    for i, (ty, nm) in enumerate(base_params):                  # unique type, or same type and same name
        cands = [j for j, (t2, _) in enumerate(cur_params) if t2 == ty]
        if len(cands) == 1:
            perm[i] = cands[0]
        else:
            named = [j for j in cands if nm is not None and cur_params[j][1] == nm]
            if len(named) == 1:
                perm[i] = named[0]
        if perm[i] is not None:
            used.add(perm[i])
    for i, (ty, nm) in enumerate(base_params):
        if perm[i] is None:
            cands = [j for j, (t2, _) in enumerate(cur_params) if t2 == ty and j not in used]
            if not cands:
                return None
            perm[i] = cands[0]
            used.add(cands[0])
    return perm if len(set(perm)) == len(perm) else None


def normalize_param_order(raws):
    """Private functions whose parameters were only REORDERED (declaration and every call site alike) are put back into the baseline
    order: the rules name parameters by position.  Returns {function: permutation} for the evidence.  A function that is also used as
    a value (passed as a callback) is left alone."""
    try:
        base = json.load(open(BASELINE))
    except Exception:
        return {}
    todo = {}
    for raw in raws:
        if raw['kind'] in ('bin', 'build'):
            continue
        for fr in raw['fns']:
            b = base['fns'].get(fr['pretty'])
            if not b or 'params' not in b or fr['kind'] == 'Closure':
                continue
            n = fr['arg_count']
            curp = [(l['ty'], l.get('name')) for l in fr['locals'][1:n + 1]]
            basep = [tuple(x) for x in b['params']]
            if [t for t, _ in curp] == [t for t, _ in basep]:
                continue
            perm = _perm_for(basep, curp)
            if perm is None or perm == list(range(n)):
                continue
            todo[fr['pretty']] = (perm, fr)
    if not todo:
        return {}

    def relocal(x, m):
        if isinstance(x, dict):
            for k, v in x.items():
                if k in ('local', 'index') and isinstance(v, int) and not isinstance(v, bool):
                    x[k] = m.get(v, v)
                else:
                    relocal(v, m)
        elif isinstance(x, list):
            for v in x:
                relocal(v, m)

    for name, (perm, fr) in todo.items():
        m = {perm[i] + 1: i + 1 for i in range(len(perm))}       # current local id -> baseline local id
        relocal(fr['blocks'], m)
        relocal(fr.get('debug_proj'), m)
        args = fr['locals'][1:len(perm) + 1]
        new = [dict(args[perm[i]], id=i + 1) for i in range(len(perm))]
        fr['locals'][1:len(perm) + 1] = new
    for raw in raws:
        for fr in raw['fns']:
            for b in fr['blocks']:
                t_ = b['term']
                if t_['k'] != 'call':
                    continue
                n = t_['callee'].get('pretty') or t_['callee'].get('declared')
                if n in todo and len(t_['args']) == len(todo[n][0]):
                    perm = todo[n][0]
                    t_['args'] = [t_['args'][perm[i]] for i in range(len(perm))]
                    if t_.get('arg_tys'):
                        t_['arg_tys'] = [t_['arg_tys'][perm[i]] for i in range(len(perm))]
    return {n: p for n, (p, _) in todo.items()}


def apply_aliases(raw, fn_alias, field_alias):
    """rewrite one crate's facts to baseline names (functions incl. their closures; struct fields)"""
    pairs = sorted(fn_alias.items(), key=lambda kv: -len(kv[0]))

    def fix_str(s):
        for new, old in pairs:
            if new in s:
                i = s.find(new)
                while i != -1:
                    j = i + len(new)
                    if (j == len(s) or not (s[j].isalnum() or s[j] == '_')) and (i == 0 or not (s[i - 1].isalnum() or s[i - 1] == '_')):
                        s = s[:i] + old + s[j:]
                        i = s.find(new, i + len(old))
                    else:
                        i = s.find(new, j)
        return s

    def walk(x):
        if isinstance(x, dict):
            if 'field' in x and 'of' in x and (x['of'], x['field']) in field_alias:
                x['field'] = field_alias[(x['of'], x['field'])]
            if x.get('k') == 'aggregate' and x.get('adt') and x.get('field_names'):
                x['field_names'] = [field_alias.get((x['adt'], f), f) for f in x['field_names']]
            for k, v in list(x.items()):
                if isinstance(v, str):
                    if pairs:
                        x[k] = fix_str(v)
                else:
                    walk(v)
        elif isinstance(x, list):
            for i, v in enumerate(x):
                if isinstance(v, str):
                    if pairs:
                        x[i] = fix_str(v)
                else:
                    walk(v)
    walk(raw)
    for a in raw['adts']:
        for v in a['variants']:
            for f in v['fields']:
                f['name'] = field_alias.get((a['path'], f['name']), f['name'])
    return raw


class Facts:
    def __init__(self, d):
        self.dir = d
        self.fns = {}
        self.fn_by_path = {}
        self.consts = {}
        self.const_ty = {}
        self.adts = {}
        self.mods = {}
        self.crates = {}
        raws = []
        for fname in FILES:
            with open(os.path.join(d, fname)) as f:
                raws.append(json.load(f))
        self.fn_aliases, self.field_aliases = compute_aliases(raws)
        if self.fn_aliases or self.field_aliases:
            raws = [apply_aliases(r, self.fn_aliases, self.field_aliases) for r in raws]
        self.param_orders = normalize_param_order(raws)
        for raw in raws:
            key = (raw['crate'], raw['kind'])
            self.crates[key] = raw
            for fr in raw['fns']:
                fn = Fn(fr, raw['crate'], raw['kind'])
                name = fn.name
                if raw['kind'] == 'bin':
                    # the bin shares the crate name with the lib; keep both, lib wins on collision
                    if name in self.fns:
                        name = 'bin::' + name
                if raw['kind'] == 'build':
                    name = 'build::' + name
                fn.key = name
                self.fns[name] = fn
                self.fn_by_path[(raw['crate'], raw['kind'], fn.path)] = fn
            for c in raw['consts']:
                name = c['path']
                if raw['kind'] in ('bin', 'build') and name in self.consts:
                    name = raw['kind'] + '::' + name
                self.consts[name] = norm_value(c['value'])
                self.const_ty[name] = c['ty']
            for a in raw['adts']:
                name = a['path']
                if raw['kind'] in ('bin', 'build') and name in self.adts:
                    continue
                self.adts[name] = a
            for m in raw['mods']:
                self.mods[(raw['crate'], raw['kind'], m['path'])] = m['vis']
        self._callers = None

    # ------------------------------------------------------------------------------------------
    def fn(self, name):
        return self.fns.get(name)

    def need_fn(self, name):
        f = self.fns.get(name)
        if f is None:
            raise AnchorMissing('function ' + name)
        return f

    def lib_fns(self, crate='chess'):
        return [f for f in self.fns.values() if f.crate == crate and f.crate_kind == 'lib']

    def closures_of(self, name):
        return sorted([f for f in self.fns.values() if f.closure_of == name], key=lambda f: f.name)

    def variant_discr(self, adt, variant):
        a = self.adts.get(adt)
        if a is None:
            return None
        for v in a['variants']:
            if v['name'] == variant:
                return v['discr']
        return None

    def variant_by_discr(self, adt, discr):
        a = self.adts.get(adt)
        if a is None:
            return None
        for v in a['variants']:
            if v['discr'] == discr:
                return v['name']
        return None

    # ---- call graph (A8) -------------------------------------------------------------------------
    def callee_name(self, term):
        ce = term['callee']
        return ce.get('pretty') or ce.get('declared')

    def resolve_callee_fn(self, term):
        """Fn object for a resolved local/cross-crate callee whose facts we have, else None"""
        ce = term['callee']
        name = ce.get('pretty')
        if not name:
            return None
        return self.fns.get(name)

    @property
    def callers(self):
        """callee pretty name -> list of (caller Fn, block id)"""
        if self._callers is None:
            c = defaultdict(list)
            for f in self.fns.values():
                for b, t in f.calls():
                    n = self.callee_name(t)
                    if n:
                        c[n].append((f, b))
            self._callers = c
        return self._callers

    def call_sites(self, callee, crate=None, kinds=('lib',)):
        out = []
        for f, b in self.callers.get(callee, []):
            if crate and f.crate != crate:
                continue
            if kinds and f.crate_kind not in kinds:
                continue
            out.append((f, b))
        return out

    def callees_of(self, fn, include_closures=True):
        """set of callee names called directly by fn (and closures constructed in it)"""
        out = set()
        for b, t in fn.calls():
            n = self.callee_name(t)
            if n:
                out.add(n)
        if include_closures:
            for c in self.closures_of(fn.name):
                out.add(c.name)
        return out

    def only_through(self, gates, crate='chess', kinds=('lib', 'bin')):
        """The gate functions plus every function all of whose call sites (in the analysed crates) already belong to the set: code that
        only ever runs as part of a gate (a helper the gate's body was split into).  Closures count as part of their parent."""
        inside = set(gates)
        changed = True
        while changed:
            changed = False
            for name, f in self.fns.items():
                if name in inside or f.crate != crate:
                    continue
                if f.kind == 'Closure':
                    if f.closure_of in inside:
                        inside.add(name)
                        changed = True
                    continue
                callers = {(c.closure_of or c.name) for c, _ in self.call_sites(name, crate=crate, kinds=kinds)}
                if callers and callers <= inside:
                    inside.add(name)
                    changed = True
        return inside

    def reachable_fns(self, roots, stop=()):
        seen = set()
        st = list(roots)
        while st:
            n = st.pop()
            if n in seen or n in stop:
                continue
            seen.add(n)
            f = self.fns.get(n)
            if f is None:
                continue
            st.extend(self.callees_of(f))
        return seen


class AnchorMissing(Exception):
    pass


def span_line(span):
    m = re.match(r'([^:]+):(\d+):', span)
    if m:
        return m.group(1), int(m.group(2))
    return span, 0


def _place_fields(place):
    out = []
    for p in place.get('proj', []):
        if isinstance(p, dict) and 'field' in p:
            out.append((p['of'], p['field']))
    return out


def field_writes(facts, adt, field=None, crates=('chess',), kinds=('lib', 'bin')):
    """All places in non-derived code where a field of `adt` (or any field if None) is assigned, mutably
    borrowed, or used as a call destination.  Returns list of (Fn, block id, how, field)."""
    res = []
    for f in facts.fns.values():
        if f.crate not in crates or f.crate_kind not in kinds:
            continue
        for b in f.blocks:
            if b['cleanup']:
                continue
            for s in b['stmts']:
                if s['k'] != 'assign':
                    continue
                for (a, fl) in _place_fields(s['place']):
                    if a == adt and (field is None or fl == field):
                        res.append((f, b['id'], 'assign', fl))
                rv = s['rv']
                if rv['k'] in ('ref', 'rawptr') and rv.get('mut'):
                    for (a, fl) in _place_fields(rv['place']):
                        if a == adt and (field is None or fl == field):
                            res.append((f, b['id'], 'borrow_mut', fl))
            t = b['term']
            if t['k'] == 'call':
                for (a, fl) in _place_fields(t['dest']):
                    if a == adt and (field is None or fl == field):
                        res.append((f, b['id'], 'call-dest', fl))
    return res


def field_reads(facts, adt, field=None, crates=('chess',), kinds=('lib',)):
    """(Fn, block id, field) for every operand/borrow that reads a field of adt"""
    res = []

    def scan_op(f, b, op):
        if op.get('k') in ('copy', 'move'):
            for (a, fl) in _place_fields(op['place']):
                if a == adt and (field is None or fl == field):
                    res.append((f, b, fl))

    for f in facts.fns.values():
        if f.crate not in crates or f.crate_kind not in kinds:
            continue
        for blk in f.blocks:
            if blk['cleanup']:
                continue
            b = blk['id']
            for s in blk['stmts']:
                if s['k'] != 'assign':
                    continue
                rv = s['rv']
                k = rv['k']
                if k in ('use', 'cast', 'repeat'):
                    scan_op(f, b, rv['op'])
                elif k == 'binop':
                    scan_op(f, b, rv['a'])
                    scan_op(f, b, rv['b'])
                elif k == 'unop':
                    scan_op(f, b, rv['a'])
                elif k in ('ref', 'rawptr', 'discr'):
                    for (a, fl) in _place_fields(rv['place']):
                        if a == adt and (field is None or fl == field):
                            res.append((f, b, fl))
                elif k == 'aggregate':
                    for o in rv['ops']:
                        scan_op(f, b, o)
            t = blk['term']
            if t['k'] == 'call':
                for o in t['args']:
                    scan_op(f, b, o)
            elif t['k'] == 'switch':
                scan_op(f, b, t['discr'])
    return res


SIZE_QUERIES = ('len', 'is_empty', 'capacity')


def size_only_use(facts, f, adt, field):
    """True when function f touches `adt.field` only to ask for its size: every use of the field is a shared borrow that flows (through
    plain copies / reborrows) into nothing but calls of len / is_empty / capacity.  Such a reader can neither change what the container
    holds nor hand out what it holds (statistics, Display impls)."""
    refs = set()            # locals holding a shared reference to the field
    for b in f.blocks:
        if b['cleanup']:
            continue
        for s in b['stmts']:
            if s['k'] != 'assign':
                continue
            hits = [1 for (a, fl) in _place_fields(s['place']) if a == adt and fl == field]
            if hits:
                return False                                   # assigned through
            rv = s['rv']
            if rv['k'] in ('ref', 'rawptr'):
                pf = _place_fields(rv['place'])
                if any(a == adt and fl == field for a, fl in pf):
                    last = [p for p in rv['place'].get('proj', []) if isinstance(p, dict) and 'field' in p][-1]
                    if rv.get('mut') or not (last['of'] == adt and last['field'] == field) or s['place'].get('proj'):
                        return False                           # mutable borrow, or a borrow of something inside the field
                    refs.add(s['place']['local'])
    if not refs:
        return False
    changed = True
    while changed:
        changed = False
        for b in f.blocks:
            if b['cleanup']:
                continue
            for s in b['stmts']:
                if s['k'] != 'assign' or s['place'].get('proj'):
                    continue
                rv = s['rv']
                src = None
                if rv['k'] == 'use' and rv['op'].get('k') in ('copy', 'move') and not rv['op']['place'].get('proj'):
                    src = rv['op']['place']['local']
                elif rv['k'] == 'ref' and not rv.get('mut') and [p for p in rv['place'].get('proj', [])] == ['deref']:
                    src = rv['place']['local']
                if src in refs and s['place']['local'] not in refs:
                    refs.add(s['place']['local'])
                    changed = True

    def mentions(x):
        if isinstance(x, dict):
            if x.get('local') in refs and 'proj' in x:
                return True
            return any(mentions(v) for v in x.values())
        if isinstance(x, list):
            return any(mentions(v) for v in x)
        return False
    for b in f.blocks:
        if b['cleanup']:
            continue
        for s in b['stmts']:
            if s['k'] != 'assign':
                continue
            if not s['place'].get('proj') and s['place']['local'] in refs:
                continue                                       # the definitions collected above
            if mentions(s['rv']) or mentions(s['place']):
                return False
        t = b['term']
        if t['k'] == 'call':
            if any(mentions(a) for a in t['args']):
                n = (facts.callee_name(t) or '').rsplit('::', 1)[-1]
                if n not in SIZE_QUERIES:
                    return False
            if mentions(t.get('dest')):
                return False
        elif mentions({k: v for k, v in t.items() if k not in ('span',)}):
            return False
    # any direct operand use of the field (copy / move out of it, discriminant, switch) is not a size query
    for f2, b2, fl in field_reads(facts, adt, field, crates=(f.crate,), kinds=(f.crate_kind,)):
        if f2 is f:
            blk = [x for x in f.blocks if x['id'] == b2][0]
            for s in blk['stmts']:
                if s['k'] == 'assign' and s['rv']['k'] in ('ref', 'rawptr'):
                    continue
                if s['k'] == 'assign' and any(a == adt and fl2 == field for op in _ops_of(s['rv']) for a, fl2 in _place_fields(op)):
                    return False
            t = blk['term']
            if t['k'] == 'call' and any(o.get('k') in ('copy', 'move') and any(a == adt and fl2 == field for a, fl2 in _place_fields(o['place'])) for o in t['args']):
                return False
    return True


def _ops_of(rv):
    k = rv['k']
    ops = []
    if k in ('use', 'cast', 'repeat'):
        ops = [rv['op']]
    elif k == 'binop':
        ops = [rv['a'], rv['b']]
    elif k == 'unop':
        ops = [rv['a']]
    elif k == 'aggregate':
        ops = rv['ops']
    elif k == 'discr':
        return [rv['place']]
    return [o['place'] for o in ops if o.get('k') in ('copy', 'move')]
