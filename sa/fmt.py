"""Decoder for the byte template of core::fmt::Arguments (rustc 1.97 lowering of format_args!)."""


class TemplateError(Exception):
    pass


def decode_template(b):
    """bytes -> list of ('lit', str) | ('arg', index, has_options)"""
    out = []
    i = 0
    nxt = 0
    b = bytes(b)
    while True:
        if i >= len(b):
            raise TemplateError('template not terminated')
        n = b[i]
        i += 1
        if n == 0:
            if i != len(b):
                raise TemplateError('bytes after end marker')
            return out
        if n < 0x80:
            out.append(('lit', b[i:i + n].decode('utf-8')))
            i += n
        elif n == 0x80:
            ln = int.from_bytes(b[i:i + 2], 'little')
            i += 2
            out.append(('lit', b[i:i + ln].decode('utf-8')))
            i += ln
        elif n >= 0xC0:
            opts = False
            if n & 1:
                i += 4
                opts = True
            if n & 2:
                i += 2
                opts = True
            if n & 4:
                i += 2
                opts = True
            idx = nxt
            if n & 8:
                idx = int.from_bytes(b[i:i + 2], 'little')
                i += 2
            nxt = idx + 1
            out.append(('arg', idx, opts))
        else:
            raise TemplateError('bad template byte %#x' % n)
