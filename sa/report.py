"""Obligation bookkeeping, violation reports, evidence files, known findings."""
import hashlib
import json
import os
import time
import traceback

VERIF = os.path.dirname(os.path.dirname(os.path.abspath(__file__)))
KNOWN = os.path.join(VERIF, "known_findings.json")


class Ctx:
    def __init__(self, prop, tier, facts, facts_info, seed=0):
        self.prop = prop
        self.tier = tier
        self.facts = facts
        self.facts_info = facts_info
        self.seed = seed
        self.obligations = []      # (rule, key, ok, detail)
        self.violations = []       # dicts
        self.samples = []
        self.functions = set()
        self.call_sites = 0
        self.nontrivial = set()
        self.notes = []
        self.extra = {}
        self.t0 = time.time()

    # -- recording ---------------------------------------------------------------------------------
    def touch(self, *fn_names):
        for n in fn_names:
            self.functions.add(n)

    def ob(self, rule, fn, instance, ok, found=None, expected=None, why=None, nontrivial=True, span=None):
        """one obligation = one rule instance examined.  key is rule|fn|instance (no line numbers)"""
        key = "%s | %s | %s" % (rule, fn, instance)
        self.obligations.append((rule, key, bool(ok)))
        if fn:
            self.functions.add(fn)
        if nontrivial:
            self.nontrivial.add(key)
        if len(self.samples) < 400:
            self.samples.append({"rule": rule, "function": fn, "instance": instance, "ok": bool(ok),
                                 "found": _short(found), "expected": _short(expected)})
        if not ok:
            self.violation(rule, fn, instance, found, expected, why, span=span, _counted=True)
        return ok

    def violation(self, rule, fn, instance, found=None, expected=None, why=None, span=None, _counted=False):
        key = "%s | %s | %s" % (rule, fn, instance)
        if not _counted:
            self.obligations.append((rule, key, False))
        f = self.facts.fns.get(fn) if self.facts is not None and fn else None
        now = None
        if self.facts is not None and fn and getattr(self.facts, 'fn_aliases', None):
            cur = [k for k, b in self.facts.fn_aliases.items() if b == fn]
            now = cur[0] if cur else None
        v = {"property": self.prop, "rule": rule, "key": key,
             "construct": {"function": fn if now is None else '%s (named %s in this tree)' % (fn, now), "file": (span or (f.span if f else None))},
             "instance": instance, "found": _short(found, 4000), "expected": _short(expected, 4000), "why": why}
        self.violations.append(v)

    def floor(self, rule, what, count, minimum):
        """fail closed when an anchor count falls below what was confirmed by hand"""
        ok = count >= minimum
        self.ob(rule, what, "floor>=%d" % minimum, ok, found=count, expected=">= %d" % minimum,
                why="anchor count far below the number confirmed on the pinned tree (floors are about half of it, so that a refactoring that merges call sites stays silent): the rule would pass vacuously",
                nontrivial=False)
        return ok

    def anchor_missing(self, rule, what, detail=None):
        self.violation(rule, what, "anchor-missing", found=detail, expected="anchor present",
                       why="the construct this rule is anchored in was not found or has an unrecognised shape (fail closed)")

    def note(self, s):
        self.notes.append(s)


def _short(x, n=600):
    if x is None:
        return None
    if isinstance(x, (list, tuple)) and not isinstance(x, str):
        return [_short(y, n) for y in x][:60]
    if isinstance(x, dict):
        return {str(k): _short(v, n) for k, v in list(x.items())[:60]}
    s = x if isinstance(x, (int, float, bool)) else str(x)
    if isinstance(s, str) and len(s) > n:
        s = s[:n] + "..."
    return s


def load_known():
    if not os.path.exists(KNOWN):
        return []
    with open(KNOWN) as f:
        return json.load(f).get("findings", [])


def finish(ctx, explanation, assumptions, level="other"):
    """print verdict lines, write evidence + violation reports, return exit code"""
    known = [k for k in load_known() if k.get("property") == ctx.prop]
    known_keys = {k["key"]: k for k in known if k.get("status") == "known"}
    evdir = os.environ.get("VERIF_EVIDENCE_DIR") or os.path.join(VERIF, "evidence")
    os.makedirs(os.path.join(evdir, "violations"), exist_ok=True)
    new = []
    seen_known = []
    seen = set()
    for v in ctx.violations:
        if v["key"] in seen:
            continue
        seen.add(v["key"])
        if v["key"] in known_keys:
            seen_known.append(v)
        else:
            new.append(v)
    for v in seen_known:
        k = known_keys[v["key"]]
        print("KNOWN-FINDING: property=%s %s [%s]" % (ctx.prop, k.get("what_fails", ""), v["key"]))
    code = 0
    for v in new:
        h = hashlib.sha1(v["key"].encode()).hexdigest()[:12]
        path = os.path.join(evdir, "violations", "%s-%s.json" % (ctx.prop, h))
        with open(path, "w") as f:
            json.dump(v, f, indent=1)
        print("VIOLATION property=%s replay=%s" % (ctx.prop, path))
        print("  rule: %s\n  construct: %s (%s)\n  instance: %s\n  found: %s\n  expected: %s\n  why: %s" % (
            v["rule"], v["construct"]["function"], v["construct"]["file"], v["instance"],
            json.dumps(v["found"])[:700], json.dumps(v["expected"])[:700], v["why"]))
        code = 1
    n_ob = len(ctx.obligations)
    n_ok = sum(1 for o in ctx.obligations if o[2])
    rules = sorted({o[0] for o in ctx.obligations})
    ev = {
        "property_id": ctx.prop,
        "tier": ctx.tier,
        "seed": ctx.seed,
        "level": level,
        "coverage": {
            "explanation": explanation,
            "obligations": n_ob,
            "discharged": n_ok,
            "evaluations": n_ob,
            "distinct_nontrivial": len(ctx.nontrivial),
            "rule": "one obligation per (rule, function, instance) examined in the MIR/const fact base of the current "
                    "tree; non-trivial = the verdict needed a comparison of extracted terms/tables/paths with the "
                    "oracle (floor and presence checks are counted as trivial)",
            "samples": _pick_samples(ctx),
            "rules": rules,
            "functions_analysed": sorted(ctx.functions),
            "n_functions_analysed": len(ctx.functions),
            "facts_tree_hash": ctx.facts_info.get("tree_hash"),
            "extraction_ran": ctx.facts_info.get("extraction_ran"),
            "known_findings_reported": [v["key"] for v in seen_known],
            "exhaustive": False,
            "notes": ctx.notes[:50],
        },
        "assumptions": assumptions,
        "wall_s": round(time.time() - ctx.t0, 2),
        "violations": len(new),
    }
    ev["coverage"].update(ctx.extra)
    with open(os.path.join(evdir, "%s.json" % ctx.prop), "w") as f:
        json.dump(ev, f, indent=1)
    print("%s: %d obligations, %d discharged, %d new violation(s), %d known finding(s), %d functions, %.1fs" % (
        ctx.prop, n_ob, n_ok, len(new), len(seen_known), len(ctx.functions), time.time() - ctx.t0))
    return code


def _pick_samples(ctx):
    s = ctx.samples
    if len(s) <= 40:
        return s
    # deterministic selection influenced by the seed; failing obligations always included
    bad = [x for x in s if not x["ok"]]
    good = [x for x in s if x["ok"]]
    step = max(1, len(good) // 36)
    off = ctx.seed % step if step else 0
    return bad[:20] + good[off::step][:36]
