"""Small regular-expression library (A12): parser for the subset used by the repository
(literals, classes, ?, *, +, {n}, |, groups incl. (?:...), ^ $), Thompson NFA, subset DFA,
language inclusion / disjointness by product search.  Alphabet = printable ASCII."""
import string

ALPHABET = [c for c in string.printable if c not in '\t\n\r\x0b\x0c']


class RxError(Exception):
    pass


class Node:
    pass


def parse(pattern, fragment=False):
    """returns (ast, n_groups, first_group_is_whole) ; ast nodes: ('cat',[...]) ('alt',[...]) ('star',x) ('opt',x) ('plus',x)
    ('set', frozenset) ('eps',) ('group', idx|None, x)"""
    pos = [0]
    groups = [0]
    s = pattern
    anch_start = anch_end = False
    if s.startswith('^'):
        anch_start = True
        s = s[1:]
    if s.endswith('$') and not s.endswith('\\$'):
        anch_end = True
        s = s[:-1]

    def peek():
        return s[pos[0]] if pos[0] < len(s) else None

    def eat():
        c = s[pos[0]]
        pos[0] += 1
        return c

    def p_alt():
        items = [p_cat()]
        while peek() == '|':
            eat()
            items.append(p_cat())
        return items[0] if len(items) == 1 else ('alt', items)

    def p_cat():
        items = []
        while peek() is not None and peek() not in '|)':
            items.append(p_rep())
        if not items:
            return ('eps',)
        return items[0] if len(items) == 1 else ('cat', items)

    def p_rep():
        a = p_atom()
        while peek() is not None and peek() in '?*+{':
            c = eat()
            if c == '?':
                a = ('opt', a)
            elif c == '*':
                a = ('star', a)
            elif c == '+':
                a = ('plus', a)
            else:
                num = ''
                while peek() != '}':
                    num += eat()
                eat()
                if ',' in num:
                    raise RxError('range repetition unsupported')
                a = ('cat', [a] * int(num)) if int(num) != 1 else a
        return a

    def p_atom():
        c = eat()
        if c == '(':
            idx = None
            if s[pos[0]:pos[0] + 2] == '?:':
                pos[0] += 2
            else:
                groups[0] += 1
                idx = groups[0]
            x = p_alt()
            if peek() != ')':
                raise RxError('unbalanced group')
            eat()
            return ('group', idx, x)
        if c == '[':
            neg = False
            if peek() == '^':
                neg = True
                eat()
            chars = set()
            while peek() != ']':
                a = eat()
                if a == '\\':
                    a = eat()
                if peek() == '-' and s[pos[0] + 1] != ']':
                    eat()
                    b = eat()
                    for o in range(ord(a), ord(b) + 1):
                        chars.add(chr(o))
                else:
                    chars.add(a)
            eat()
            if neg:
                chars = set(ALPHABET) - chars
            return ('set', frozenset(chars))
        if c == '.':
            return ('set', frozenset(ALPHABET))
        if c == '\\':
            d = eat()
            if d == 'd':
                return ('set', frozenset('0123456789'))
            return ('set', frozenset(d))
        if c in '?*+{)|':
            raise RxError('unexpected %r' % c)
        return ('set', frozenset(c))

    ast = p_alt()
    if pos[0] != len(s):
        raise RxError('trailing input')
    whole = ast[0] == 'group' and ast[1] == 1
    if not (anch_start and anch_end) and not fragment:
        # unanchored: surround with .*
        anyc = ('star', ('set', frozenset(ALPHABET)))
        parts = ([] if anch_start else [anyc]) + [ast] + ([] if anch_end else [anyc])
        ast = ('cat', parts)
    return ast, groups[0], whole


def lit(sv):
    return ('cat', [('set', frozenset(c)) for c in sv]) if sv else ('eps',)


def alt(*xs):
    return ('alt', list(xs))


def cat(*xs):
    return ('cat', list(xs))


class NFA:
    def __init__(self):
        self.n = 0
        self.eps = {}
        self.tr = {}

    def new(self):
        self.n += 1
        return self.n - 1

    def add_eps(self, a, b):
        self.eps.setdefault(a, set()).add(b)

    def add(self, a, chars, b):
        self.tr.setdefault(a, []).append((chars, b))


def build(ast):
    nfa = NFA()

    def go(x):
        k = x[0]
        s, e = nfa.new(), nfa.new()
        if k == 'eps':
            nfa.add_eps(s, e)
        elif k == 'set':
            nfa.add(s, x[1], e)
        elif k == 'group':
            a, b = go(x[2])
            nfa.add_eps(s, a)
            nfa.add_eps(b, e)
        elif k == 'cat':
            cur = s
            for y in x[1]:
                a, b = go(y)
                nfa.add_eps(cur, a)
                cur = b
            nfa.add_eps(cur, e)
        elif k == 'alt':
            for y in x[1]:
                a, b = go(y)
                nfa.add_eps(s, a)
                nfa.add_eps(b, e)
        elif k in ('opt', 'star', 'plus'):
            a, b = go(x[1])
            nfa.add_eps(s, a)
            nfa.add_eps(b, e)
            if k in ('opt', 'star'):
                nfa.add_eps(s, e)
            if k in ('star', 'plus'):
                nfa.add_eps(b, a)
        else:
            raise RxError('node ' + k)
        return s, e

    s, e = go(ast)
    nfa.start, nfa.accept = s, e
    return nfa


def closure(nfa, states):
    st = list(states)
    seen = set(states)
    while st:
        x = st.pop()
        for y in nfa.eps.get(x, ()):
            if y not in seen:
                seen.add(y)
                st.append(y)
    return frozenset(seen)


def step(nfa, S, c):
    out = set()
    for x in S:
        for chars, b in nfa.tr.get(x, ()):
            if c in chars:
                out.add(b)
    return closure(nfa, out)


def witness_not_subset(a_ast, b_ast, limit=200000):
    """a string in L(a) \\ L(b), or None if L(a) ⊆ L(b)"""
    A, B = build(a_ast), build(b_ast)
    start = (closure(A, {A.start}), closure(B, {B.start}))
    seen = {start: ''}
    queue = [start]
    while queue:
        sa, sb = queue.pop(0)
        w = seen[(sa, sb)]
        if A.accept in sa and B.accept not in sb:
            return w
        if len(seen) > limit:
            raise RxError('state limit')
        for c in ALPHABET:
            na = step(A, sa, c)
            if not na:
                continue
            nb = step(B, sb, c)
            key = (na, nb)
            if key not in seen:
                seen[key] = w + c
                queue.append(key)
    return None


def witness_intersection(a_ast, b_ast, limit=200000):
    """a string in L(a) ∩ L(b), or None if disjoint"""
    A, B = build(a_ast), build(b_ast)
    start = (closure(A, {A.start}), closure(B, {B.start}))
    seen = {start: ''}
    queue = [start]
    while queue:
        sa, sb = queue.pop(0)
        w = seen[(sa, sb)]
        if A.accept in sa and B.accept in sb:
            return w
        for c in ALPHABET:
            na, nb = step(A, sa, c), step(B, sb, c)
            if not na or not nb:
                continue
            key = (na, nb)
            if key not in seen:
                seen[key] = w + c
                queue.append(key)
    return None


def matches(ast, s):
    N = build(ast)
    S = closure(N, {N.start})
    for c in s:
        S = step(N, S, c)
        if not S:
            return False
    return N.accept in S
