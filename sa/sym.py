"""Path enumeration with term reconstruction over extracted MIR (analyses A3/A4/A5 of DESIGN.md).

This is *not* execution of the program and no solver is involved: MIR bodies are walked path by path,
locals are bound to terms, callees whose facts are available (and are loop free) are expanded in
place, everything else becomes an opaque call term / event.  Branch conditions on non-constant terms
fork the walk; infeasibility is only recognised for contradictory tests of the same atom.

Terms (hashable tuples):
  ('c', v)                      constant: int | bool | str | ('char', c) | None
  ('p', i)                      i-th parameter of the analysed function (MIR local i)
  ('der', t)                    memory behind pointer term t
  ('fld', t, name)              field of t   (name is 'Variant.field' under a downcast)
  ('idx', t, i)                 element
  ('ref', lv)                   pointer to lvalue lv;  lvalues: ('L', frame, local) | fld | idx | der
  ('call', name, args, uid)     result of an opaque call (uid None for functions modelled as pure)
  ('bin', op, a, b) ('un', op, a) ('cast', a, ty) ('discr', t)
  ('eqc', t, v)                 boolean: t == constant v
  ('agg', kind, path, variant, ((fname, term), ...))   kind: adt | tuple | array | closure
  ('lv', head, local)           loop-carried unknown at loop head `head`
  ('hv', uid)                   value havocked by opaque call uid
  ('unk', tag...)               anything else
"""
import itertools
import re

INT_BITS = {'u8': 8, 'u16': 16, 'u32': 32, 'u64': 64, 'u128': 128, 'usize': 64,
            'i8': 8, 'i16': 16, 'i32': 32, 'i64': 64, 'i128': 128, 'isize': 64}

CORE_VARIANT_DISCR = {'None': 0, 'Some': 1, 'Ok': 0, 'Err': 1, 'Continue': 0, 'Break': 1,
                      'Less': -1, 'Equal': 0, 'Greater': 1}


def C(v):
    return ('c', v)


TRUE = C(True)
FALSE = C(False)
UNIT = ('agg', 'tuple', None, None, ())


def is_const(t):
    return t[0] == 'c'


def mk_tuple(*ts):
    return ('agg', 'tuple', None, None, tuple((str(i), t) for i, t in enumerate(ts)))


def mk_adt(path, variant, fields):
    return ('agg', 'adt', path, variant, tuple(fields))


def value_to_term(v):
    """facts.norm_value constant -> term"""
    if isinstance(v, tuple):
        k = v[0]
        if k == 'adt':
            return ('agg', 'adt', v[1], v[2], tuple((n, value_to_term(x)) for n, x in v[3]))
        if k == 'tuple':
            return ('agg', 'tuple', None, None, tuple((str(i), value_to_term(x)) for i, x in enumerate(v[1])))
        if k == 'array':
            return ('agg', 'array', None, None, tuple((str(i), value_to_term(x)) for i, x in enumerate(v[1])))
        if k == 'char':
            return C(v)
        if k == 'fn':
            return ('fnitem', v[1])
        if k == 'bytes':
            return C(v)
        return ('unk', 'const', v)
    return C(v)


def wrap_int(v, ty):
    bits = INT_BITS.get(ty)
    if bits is None or not isinstance(v, int) or isinstance(v, bool):
        return v
    v &= (1 << bits) - 1
    if ty.startswith('i') and v >= 1 << (bits - 1):
        v -= 1 << bits
    return v


class State:
    __slots__ = ('frames', 'heap', 'known', 'conds', 'events', 'stack', 'visited', 'entered', 'notes', 'epoch', 'unrolled')

    def __init__(self):
        self.frames = {}
        self.heap = {}
        self.known = {}
        self.conds = []
        self.events = []
        self.stack = []
        self.visited = {}
        self.entered = {}
        self.notes = []
        self.epoch = 0
        self.unrolled = {}

    def copy(self):
        s = State()
        s.frames = {k: dict(v) for k, v in self.frames.items()}
        s.heap = dict(self.heap)
        s.known = dict(self.known)
        s.conds = list(self.conds)
        s.events = list(self.events)
        s.stack = list(self.stack)
        s.visited = {k: set(v) for k, v in self.visited.items()}
        s.entered = {k: set(v) for k, v in self.entered.items()}
        s.notes = list(self.notes)
        s.epoch = self.epoch
        s.unrolled = dict(self.unrolled)
        return s


class Outcome:
    def __init__(self, kind, value, state, where=None):
        self.kind = kind          # return | abort | backedge | limit
        self.value = value
        self.conds = state.conds
        self.events = state.events
        self.known = state.known
        self.heap = state.heap
        self.notes = state.notes
        self.where = where
        self.locals = None

    def calls(self, name=None, prefix=None):
        out = []
        for e in self.events:
            if e[0] == 'call' and (name is None or e[1] == name) and (prefix is None or e[1].startswith(prefix)):
                out.append(e)
        return out

    def __repr__(self):
        return 'Outcome(%s, %s, conds=%d, events=%d)' % (self.kind, show(self.value), len(self.conds), len(self.events))


class PathLimit(Exception):
    pass


def assertion_indices(outs, o):
    """Indices of the path conditions of outcome `o` that are ASSERTIONS: every path of `outs` that reaches the same decision (same
    conditions before it, same atom) and decides it the other way panics (`assert!` / `debug_assert!` / `unwrap` written as a branch).
    What the function does on the surviving side does not depend on such a condition - there is no other side."""
    if o.kind == 'abort':
        return set()
    idx = set()
    for i, (a, v) in enumerate(o.conds):
        pre = o.conds[:i]
        others = [o2 for o2 in outs if o2 is not o and len(o2.conds) > i and o2.conds[i][0] == a and o2.conds[i][1] != v and o2.conds[:i] == pre]
        if others and all(o2.kind == 'abort' for o2 in others):
            idx.add(i)
    return idx


def guards(outs, o):
    """the path conditions of `o` without its assertions"""
    skip = assertion_indices(outs, o)
    return [c for i, c in enumerate(o.conds) if i not in skip]


class Engine:
    def __init__(self, facts, opaque=(), inline_filter=None, max_paths=4096, max_depth=8, models=None,
                 log_enter=False, pure=(), fold_only=None, inline_loops=(), readonly=(), iter_adapters=True, unroll=False, concrete=False, call_alias=None):
        self.facts = facts
        self.iter_adapters = iter_adapters     # interpret closure-taking iterator adapters as one arbitrary loop iteration
        self.unroll = unroll                   # walk loops over literal arrays element by element instead of abstracting them
        self.concrete = concrete               # constant arguments: loops are walked iteration by iteration with their constant values (bounded)
        self.conts = {}
        self.cont_id = itertools.count(1)
        self.opaque = set(opaque)
        self.call_alias = dict(call_alias or {})     # opaque callee -> canonical name it is recorded under (receiver `&mut x.field` becomes `&mut x`)
        self.inline_filter = inline_filter
        self.max_paths = max_paths
        self.max_depth = max_depth
        self.uid = itertools.count(1)
        self.models = dict(DEFAULT_MODELS)
        if models:
            self.models.update(models)
        self.log_enter = log_enter
        self.pure = set(PURE_FNS) | set(pure)
        self.fid = itertools.count(1)
        self.inline_loops = set(inline_loops)
        self.readonly = set(READONLY_FNS) | set(readonly)
        self.fold_only = set(DEFAULT_FOLD_ONLY if fold_only is None else fold_only)

    # ---- public -------------------------------------------------------------------------------
    def run(self, fn_name, args=None, known=None):
        """Enumerate paths of function `fn_name`.  args: optional list of terms for the parameters
        (None entries = symbolic parameter).  Returns list of Outcome."""
        fn = self.facts.need_fn(fn_name)
        self.root_name = fn_name
        st = State()
        fid = 0
        st.frames[fid] = {}
        st.visited[fid] = set()
        st.entered[fid] = set()
        for i in range(1, fn.arg_count + 1):
            t = None
            if args is not None and i - 1 < len(args):
                t = args[i - 1]
            st.frames[fid][i] = t if t is not None else ('p', i)
        if known:
            st.known.update(known)
        return self._drive([(st, fn, fid, 0)])

    # ---- driver --------------------------------------------------------------------------------
    def _drive(self, work):
        outcomes = []
        steps = 0
        while work:
            st, fn, fid, bb = work.pop()
            steps += 1
            if len(outcomes) + len(work) > self.max_paths:
                raise PathLimit('more than %d paths' % self.max_paths)
            res = self._exec_block(st, fn, fid, bb)
            for r in res:
                if isinstance(r, Outcome):
                    outcomes.append(r)
                else:
                    work.append(r)
        return outcomes

    def _exec_block(self, st, fn, fid, bb):
        cfg = fn.cfg
        # loop handling: first arrival at a loop head havocs the loop-assigned locals, second arrival ends
        if bb in cfg.loops and self.unroll and self._concrete_loop(st, fn, fid, bb):
            # a loop over a literal array: walk it element by element (bounded by the array length)
            n = st.unrolled.get((fid, bb), 0)
            if n > 16:
                return [Outcome('limit', None, st, where=(fn.name, 'unroll bound'))]
            st.unrolled[(fid, bb)] = n + 1
            st.visited[fid] -= cfg.loops[bb]
        elif bb in cfg.loops and self.concrete:
            # partial evaluation on constant inputs: no abstraction of the loop, the walk simply goes round (bounded)
            n = st.unrolled.get((fid, bb), 0)
            if n > 600:
                return [Outcome('limit', None, st, where=(fn.name, 'iteration bound'))]
            st.unrolled[(fid, bb)] = n + 1
            st.visited[fid] -= cfg.loops[bb]
        elif bb in cfg.loops:
            if bb in st.entered[fid]:
                o = Outcome('backedge', None, st, where=(fn.name, bb))
                o.locals = dict(st.frames[fid])
                return [o]
            st.entered[fid].add(bb)
            assigned = loop_assigned_locals(fn, cfg.loops[bb])
            before = {}
            for l in assigned:
                if l in st.frames[fid]:
                    before[l] = st.frames[fid][l]
                st.frames[fid][l] = ('lv', bb, l)
            st.events.append(('loop_head', fn.name, bb, before, len(st.conds)))
            # forget visited marks inside the loop body so the iteration can be walked
            st.visited[fid] -= cfg.loops[bb]
        elif bb in st.visited[fid]:
            return [Outcome('backedge', None, st, where=(fn.name, bb))]
        st.visited[fid].add(bb)
        blk = fn.blocks[bb]
        for s in blk['stmts']:
            if s['k'] == 'assign':
                val = self._rvalue(st, fn, fid, s['rv'], s['place'])
                self._write_place(st, fn, fid, s['place'], val)
            elif s['k'] == 'set_discr':
                st.notes.append(('set_discr', fn.name, bb))
        t = blk['term']
        k = t['k']
        if k == 'goto':
            return [(st, fn, fid, t['target'])]
        if k == 'switch':
            return self._switch(st, fn, fid, t)
        if k == 'return':
            val = st.frames[fid].get(0, UNIT)
            if not st.stack:
                o = Outcome('return', val, st)
                o.locals = dict(st.frames[fid])
                return [o]
            cfn, cfid, dest, target, name = st.stack.pop()
            del st.frames[fid]
            if self.log_enter:
                st.events.append(('exit', name, val))
            if isinstance(dest, tuple) and dest and dest[0] == 'cont':
                return self.conts[dest[1]](st, val)
            self._write_place(st, cfn, cfid, dest, val)
            if target is None:
                return [Outcome('abort', None, st, where=(cfn.name, 'diverging call'))]
            return [(st, cfn, cfid, target)]
        if k == 'unreachable':
            return []
        if k == 'drop':
            if 'Guard' in t.get('place_ty', ''):
                st.events.append(('drop', t['place_ty'], self._lvalue(st, fn, fid, t['place']), self._read_place(st, fn, fid, t['place'])))
            return [(st, fn, fid, t['target'])]
        if k == 'assert':
            cond = self._operand(st, fn, fid, t['cond'])
            st.events.append(('assert', t['msg'], cond, t['expected'], fn.name, t['span']))
            return [(st, fn, fid, t['target'])]
        if k == 'call':
            return self._call(st, fn, fid, t)
        if k in ('resume', 'abort'):
            return []
        # other
        succ = t.get('succ', [])
        if len(succ) == 1:
            return [(st, fn, fid, succ[0])]
        return [Outcome('limit', None, st, where=(fn.name, 'terminator ' + t.get('text', '?')))]

    # ---- switch --------------------------------------------------------------------------------
    def _switch(self, st, fn, fid, t):
        d = self._operand(st, fn, fid, t['discr'])
        is_bool = t['discr_ty'] == 'bool'
        targets = [(wrap_switch(v, t['discr_ty']), b) for v, b in t['targets']]
        otherwise = t['otherwise']
        # normalise boolean structure
        neg = False
        while True:
            if d[0] == 'un' and d[1] == 'Not' and is_bool:
                d = d[2]
                neg = not neg
                continue
            break
        if is_bool and neg:
            # swap meaning: targets are for value of Not(x); x = !value
            targets = [((0 if v else 1), b) for v, b in targets]
        atom = d
        want_of = None  # maps atom value -> switch value
        if d[0] == 'eqc' and is_bool:
            atom = d[1]
            cv = d[2]
            # d true <=> atom == cv
            kn = st.known.get(atom)
            val = None
            if is_const(atom):
                val = (atom[1] == cv)
            elif kn is not None:
                if kn[0] == 'eq':
                    val = (kn[1] == cv)
                elif kn[0] == 'ne' and cv in kn[1]:
                    val = False
            if val is not None:
                return [(st, fn, fid, self._pick(targets, otherwise, 1 if val else 0))]
            out = []
            tb = self._pick(targets, otherwise, 1)
            fb = self._pick(targets, otherwise, 0)
            s1 = st.copy()
            s1.known[atom] = ('eq', cv)
            s1.conds.append((atom, cv))
            out.append((s1, fn, fid, tb))
            s0 = st
            old = st.known.get(atom)
            ex = set(old[1]) if old and old[0] == 'ne' else set()
            ex.add(cv)
            s0.known[atom] = ('ne', frozenset(ex))
            s0.conds.append((atom, ('not', (cv,))))
            out.append((s0, fn, fid, fb))
            return self._prune_unreachable(fn, out)
        if is_const(d):
            v = d[1]
            if isinstance(v, bool):
                v = 1 if v else 0
            return [(st, fn, fid, self._pick(targets, otherwise, v))]
        kn = st.known.get(d)
        if kn is not None and kn[0] == 'eq':
            v = kn[1]
            if isinstance(v, bool):
                v = 1 if v else 0
            return [(st, fn, fid, self._pick(targets, otherwise, v))]
        excluded = kn[1] if kn is not None and kn[0] == 'ne' else frozenset()
        out = []
        vals = []
        for v, b in targets:
            vals.append(v)
            if v in excluded:
                continue
            s1 = st.copy()
            s1.known[d] = ('eq', v)
            s1.conds.append((d, v))
            self._learn_eq(s1, d, v)
            out.append((s1, fn, fid, b))
        if is_bool:
            # otherwise == the remaining boolean value
            rest = [x for x in (0, 1) if x not in vals]
            if rest and rest[0] not in excluded:
                s1 = st.copy()
                s1.known[d] = ('eq', rest[0])
                s1.conds.append((d, rest[0]))
                self._learn_eq(s1, d, rest[0])
                out.append((s1, fn, fid, otherwise))
        else:
            if fn.blocks[otherwise]['term']['k'] != 'unreachable' or fn.blocks[otherwise]['stmts']:
                s1 = st.copy()
                s1.known[d] = ('ne', frozenset(set(vals) | set(excluded)))
                s1.conds.append((d, ('not', tuple(vals))))
                out.append((s1, fn, fid, otherwise))
        return self._prune_unreachable(fn, out)

    def _learn_eq(self, st, atom, value):
        """an equality atom established as true between an unknown value and a value of known variant also fixes the unknown's
        discriminant (x == Some(..) makes a later `match x` take the Some arm): keeps paths with contradictory tests of one value out"""
        if atom[0] != 'eq' or value not in (1, True):
            return
        for x, y in ((atom[1], atom[2]), (atom[2], atom[1])):
            if y[0] == 'agg' and y[1] == 'adt' and y[3] is not None and x[0] != 'agg':
                d = CORE_VARIANT_DISCR.get(y[3])
                if d is None:
                    try:
                        d = self.facts.variant_discr(y[2], y[3])
                    except Exception:
                        d = None
                if d is not None and ('discr', x) not in st.known:
                    st.known[('discr', x)] = ('eq', d)
                    st.conds.append((('discr', x), d))        # a derived condition of the path, visible to the rules like a tested one

    def _prune_unreachable(self, fn, out):
        res = []
        for item in out:
            b = item[3]
            blk = fn.blocks[b]
            if blk['term']['k'] == 'unreachable' and not blk['stmts']:
                continue
            res.append(item)
        return res

    @staticmethod
    def _pick(targets, otherwise, v):
        for tv, b in targets:
            if tv == v:
                return b
        return otherwise

    # ---- operands / places ------------------------------------------------------------------------
    def _operand(self, st, fn, fid, op):
        k = op['k']
        if k in ('copy', 'move'):
            return self._read_place(st, fn, fid, op['place'])
        if k == 'const':
            if 'fn' in op:
                return ('fnitem', op['fn'])
            v = op.get('value')
            from .facts import norm_value
            if isinstance(v, dict) and v.get('static') and v['static'] in self.facts.consts and self.facts.consts[v['static']] is not None \
                    and not (isinstance(self.facts.consts[v['static']], tuple) and self.facts.consts[v['static']][:1] == ('novaltree',)):
                # `&STATIC` of an immutable static whose initializer was evaluated: a pointer to that constant table
                tv = value_to_term(self.facts.consts[v['static']])
                if tv[0] in ('agg', 'c'):
                    if tv[0] == 'agg' and tv[1] == 'array' and len(tv[4]) >= 4:
                        NAMED_CONSTS[v['static']] = tv
                        tv = ('named', v['static'])
                    return ('ref', ('K', tv))
            t = value_to_term(norm_value(v))
            if t[0] == 'unk' and op.get('path'):
                return ('unk', 'const', op['path'])
            if op.get('path') and 'promoted' not in op and t[0] == 'agg' and t[1] == 'array' and len(t[4]) >= 4:
                NAMED_CONSTS[op['path']] = t
                t = ('named', op['path'])
            if op.get('ty', '').startswith('&') and t[0] in ('agg', 'c') and not op['ty'].startswith("&'static str") \
                    and not op['ty'].startswith('&str'):
                # constant behind a reference (promoted `&Piece::Pawn`, `&[..]`): pointer to constant memory
                return ('ref', ('K', t))
            if op.get('path') and t[0] in ('c', 'agg'):
                # remember the name of named constants for reporting only (not part of identity)
                pass
            return t
        return ('unk', 'operand', op.get('text', ''))

    def _lvalue(self, st, fn, fid, place):
        lv = ('L', fid, place['local'])
        dc = None
        for p in place['proj']:
            if p == 'deref':
                ptr = self._read_lv(st, lv)
                if ptr[0] == 'ref':
                    lv = ptr[1]
                elif is_const(ptr) and isinstance(ptr[1], str):
                    lv = ('K', ptr)        # a &str constant stands for its own pointee
                else:
                    lv = ('der', ptr)
                dc = None
            elif isinstance(p, dict) and 'field' in p:
                name = p['field']
                lv = ('fld', lv, (dc + '.' + name) if dc else name)
                dc = None
            elif isinstance(p, dict) and 'downcast' in p:
                dc = p['downcast'] or ('v%d' % p['variant_idx'])
            elif isinstance(p, dict) and 'index' in p:
                i = st.frames[fid].get(p['index'], ('unk', 'uninit'))
                lv = ('idx', lv, i)
            elif isinstance(p, dict) and 'const_index' in p:
                lv = ('idx', lv, C(p['const_index']))
            else:
                lv = ('fld', lv, 'proj:' + str(p))
        return lv

    def _read_place(self, st, fn, fid, place):
        return self._read_lv(st, self._lvalue(st, fn, fid, place))

    def _read_lv(self, st, lv):
        if lv in st.heap:
            return st.heap[lv]
        k = lv[0]
        if k == 'K':
            return lv[1]
        if k == 'L':
            fr = st.frames.get(lv[1])
            if fr is None:
                return ('unk', 'dead-frame')
            return fr.get(lv[2], ('unk', 'uninit', lv[2]))
        if k == 'der':
            return lv
        if k == 'fld':
            return field(self._read_lv(st, lv[1]), lv[2])
        if k == 'idx':
            return index(self._read_lv(st, lv[1]), lv[2])
        return ('unk', 'lv', lv)

    def _write_place(self, st, fn, fid, place, val):
        self._write_lv(st, self._lvalue(st, fn, fid, place), val, fn)

    def _write_lv(self, st, lv, val, fn=None, event=True):
        k = lv[0]
        if k == 'L':
            fr = st.frames.get(lv[1])
            if fr is not None:
                fr[lv[2]] = val
            return
        if k == 'der':
            st.heap[lv] = val
            if event:
                st.epoch += 1
                st.events.append(('write', lv, val, fn.name if fn else None))
            return
        if k in ('fld', 'idx'):
            root = lv
            while root[0] in ('fld', 'idx'):
                root = root[1]
            if root[0] == 'L':
                cur = self._read_lv(st, lv[1])
                new = update(cur, k, lv[2], val)
                self._write_lv(st, lv[1], new, fn, event=False)
                return
            # symbolic memory
            # drop stale children
            for key in [x for x in st.heap if is_prefix(lv, x) and x != lv]:
                del st.heap[key]
            st.heap[lv] = val
            if event:
                st.epoch += 1
                st.events.append(('write', lv, val, fn.name if fn else None))
            return

    # ---- rvalues -----------------------------------------------------------------------------------
    def _place_ty(self, fn, place):
        if not place['proj']:
            return fn.local_ty(place['local'])
        last = place['proj'][-1]
        if isinstance(last, dict) and 'ty' in last:
            return last['ty']
        return None

    def _rvalue(self, st, fn, fid, rv, dest):
        k = rv['k']
        if k == 'use':
            return self._operand(st, fn, fid, rv['op'])
        if k == 'ref' or k == 'rawptr':
            return ('ref', self._lvalue(st, fn, fid, rv['place']))
        if k == 'binop':
            a = self._operand(st, fn, fid, rv['a'])
            b = self._operand(st, fn, fid, rv['b'])
            ty = self._place_ty(fn, dest)
            return binop(rv['op'], a, b, ty)
        if k == 'unop':
            a = self._operand(st, fn, fid, rv['a'])
            return unop(rv['op'], a, self._place_ty(fn, dest))
        if k == 'cast':
            a = self._operand(st, fn, fid, rv['op'])
            return cast(a, rv['ty'], rv['kind'], self.facts)
        if k == 'discr':
            return discr(self._read_place(st, fn, fid, rv['place']), self.facts)
        if k == 'aggregate':
            ops = [self._operand(st, fn, fid, o) for o in rv['ops']]
            agg = rv['agg']
            if agg == 'tuple':
                return mk_tuple(*ops)
            if agg == 'array':
                return ('agg', 'array', None, None, tuple((str(i), o) for i, o in enumerate(ops)))
            if agg == 'adt':
                return ('agg', 'adt', rv['adt'], rv['variant'], tuple(zip(rv['field_names'], ops)))
            if agg == 'closure':
                snaps = []
                for o in ops:
                    if o[0] == 'ref':
                        root = o[1]
                        while root[0] in ('fld', 'idx'):
                            root = root[1]
                        snaps.append(self._read_lv(st, o[1]) if root[0] == 'L' else o)
                    else:
                        snaps.append(o)
                st.events.append(('closure', rv['closure'], tuple(snaps), len(st.conds)))
                return ('agg', 'closure', rv['closure'], None, tuple(('upvar%d' % i, o) for i, o in enumerate(ops)))
            return ('unk', 'aggregate', rv.get('text', ''))
        if k == 'repeat':
            a = self._operand(st, fn, fid, rv['op'])
            return ('repeat', a, rv['count'])
        if k == 'tls':
            return ('unk', 'tls', rv['path'])
        return ('unk', 'rvalue', rv.get('text', ''))

    # ---- calls -------------------------------------------------------------------------------------
    def _call(self, st, fn, fid, t):
        ce = t['callee']
        name = ce.get('pretty') or ce.get('declared')
        args = [self._operand(st, fn, fid, a) for a in t['args']]
        if name is None:
            # indirect call through a function value
            fv = self._operand(st, fn, fid, ce['indirect']) if 'indirect' in ce else ('unk', 'fnptr')
            name = 'indirect:' + show(fv)
        info = {'callee': ce, 'term': t, 'fn': fn, 'fid': fid, 'name': name}
        if self.unroll:
            r = self._unroll_models(st, fn, fid, t, name, args)
            if r is not None:
                return r
        if self.iter_adapters and name not in self.opaque:
            r = self._adapter_call(st, fn, fid, t, name, args)
            if r is not None:
                return r
        if name in self.readonly:
            return self._opaque_call(st, fn, fid, t, name, args)
        if name not in self.opaque:
            m = self._find_model(name, ce)
            if m is not None:
                res = m(self, st, args, info)
                if isinstance(res, Work):
                    return list(res)
                if res is not None:
                    out = []
                    for (s2, val) in res:
                        if val is ABORT:
                            out.append(Outcome('abort', None, s2, where=(fn.name, name)))
                            continue
                        self._write_place(s2, fn, fid, t['dest'], val)
                        if t['target'] is None:
                            out.append(Outcome('abort', None, s2, where=(fn.name, name)))
                        else:
                            out.append((s2, fn, fid, t['target']))
                    return out
            callee = self.facts.fns.get(name)
            if callee is not None and callee.derived and name.endswith(' as std::clone::Clone>::clone'):
                # #[derive(Clone)]: a field-wise copy
                self._write_place(st, fn, fid, t['dest'], _deref_arg(self, st, args[0]))
                return [(st, fn, fid, t['target'])]
            if callee is not None and name in self.fold_only:
                vals = [(_deref_arg(self, st, a) if a[0] == 'ref' else a) for a in args]
                if not all(fully_const(v) for v in vals):
                    val = ('call', name, tuple(vals), None)
                    self._write_place(st, fn, fid, t['dest'], val)
                    return [(st, fn, fid, t['target'])]
            if callee is not None and self._inlinable(st, callee, name):
                return self._inline(st, fn, fid, t, callee, args, name)
        return self._opaque_call(st, fn, fid, t, name, args)

    def _concrete_loop(self, st, fn, fid, bb):
        """the loop at bb is driven by an iterator over a literal array whose state is known on this path"""
        loops = fn.cfg.loops
        body = loops[bb]
        # a `for` loop: the head block calls next(&mut it); the loop is concrete iff THAT iterator walks a literal array
        hb = fn.blocks[bb] if bb < len(fn.blocks) and fn.blocks[bb]['id'] == bb else next((b_ for b_ in fn.blocks if b_['id'] == bb), None)
        if hb is not None and hb['term']['k'] == 'call' and ((hb['term']['callee'].get('pretty') or '').endswith('::next')):
            its = [s_['rv']['place']['local'] for s_ in hb['stmts'] if s_['k'] == 'assign' and s_['rv']['k'] == 'ref' and s_['rv'].get('mut')
                   and not s_['rv']['place'].get('proj')]
            if its:
                v = st.frames[fid].get(its[-1])
                return isinstance(v, tuple) and bool(v) and v[0] == 'iterstate'

        # locals driven by a loop nested inside this one (an inner `for x in CONST_ARRAY`) say nothing about this loop
        nested = set()
        for h2, b2 in loops.items():
            if h2 != bb and h2 in body and b2 < body:
                nested |= set(loop_assigned_locals(fn, b2))
        for l in loop_assigned_locals(fn, body):
            if l in nested:
                continue
            v = st.frames[fid].get(l)
            if isinstance(v, tuple) and v and v[0] == 'iterstate':
                return True
        return False

    def _unroll_models(self, st, fn, fid, t, name, args):
        """into_iter / next on literal arrays, only with unroll=True; returns work list or None"""
        base = name.rsplit('::', 1)[-1]
        if base == 'into_iter' and len(args) == 1:
            a = args[0]
            by_ref = False
            while a[0] in ('ref', 'K', 'der', 'named') or (a[0] == 'call' and a[1].endswith(']>::iter') and len(a[2]) == 1):
                if a[0] == 'named':
                    a = NAMED_CONSTS.get(a[1], ('unk',))
                    continue
                if a[0] == 'call':                       # `for x in arr.iter()`: the elements are visited by reference
                    by_ref = True
                    a = a[2][0]
                    continue
                by_ref = by_ref or a[0] == 'ref'
                a = self._read_lv(st, a[1]) if (a[0] == 'ref' and a[1][0] == 'L') else a[1]
            if a[0] == 'agg' and a[1] == 'array' and 0 < len(a[4]) <= 8:
                elems = tuple((('ref', ('K', x)) if by_ref else x) for _, x in a[4])
                self._write_place(st, fn, fid, t['dest'], ('iterstate', elems, 0))
                return [(st, fn, fid, t['target'])]
            if a[0] == 'iterstate':
                self._write_place(st, fn, fid, t['dest'], a)
                return [(st, fn, fid, t['target'])]
        if base == 'next' and len(args) == 1 and args[0][0] == 'ref':
            cur = self._read_lv(st, args[0][1])
            if isinstance(cur, tuple) and cur and cur[0] == 'iterstate':
                elems, i = cur[1], cur[2]
                if i < len(elems):
                    self._write_lv(st, args[0][1], ('iterstate', elems, i + 1), fn, event=False)
                    val = mk_adt(OPTION, 'Some', [('0', elems[i])])
                else:
                    val = mk_adt(OPTION, 'None', [])
                self._write_place(st, fn, fid, t['dest'], val)
                return [(st, fn, fid, t['target'])]
        return None

    def call_value_k(self, st, fn, fid, f, cargs, k, inline_fnitems=False):
        """call function value f (closure aggregate or fn item) with cargs, then continue with k(state, result) -> work list"""
        cf = self._closure_fn(f)
        if cf is None:
            if isinstance(f, tuple) and f and f[0] == 'fnitem':
                gf = self.facts.fns.get(f[1])
                if inline_fnitems and gf is not None and gf.kind != 'Closure' and self._inlinable(st, gf, f[1]) and f[1] not in self.opaque and f[1] not in self.readonly \
                        and gf.arg_count == len(cargs):
                    # a named function handed to an adapter (`flat_map(expand)`): walked like a closure without environment
                    nfid = next(self.fid)
                    fr = {}
                    st.frames[nfid] = fr
                    st.visited[nfid] = set()
                    st.entered[nfid] = set()
                    for i_, x in enumerate(cargs):
                        fr[1 + i_] = x
                    cid = next(self.cont_id)
                    self.conts[cid] = k
                    st.stack.append((fn, fid, ('cont', cid), None, gf.name))
                    return [(st, gf, nfid, 0)]
                return k(st, apply_fnitem(self, f[1], list(cargs)))
            return k(st, ('apply', f, tuple(cargs)))
        nfid = next(self.fid)
        fr = {}
        st.frames[nfid] = fr
        st.visited[nfid] = set()
        st.entered[nfid] = set()
        ety = cf.local_ty(1)
        if ety.startswith('&'):
            fr[-1] = f
            fr[1] = ('ref', ('L', nfid, -1))
        else:
            fr[1] = f
        for i_, x in enumerate(cargs):
            fr[2 + i_] = x
        cid = next(self.cont_id)
        self.conts[cid] = k
        st.stack.append((fn, fid, ('cont', cid), None, cf.name))
        return [(st, cf, nfid, 0)]

    # ---- iterator adapters as loops ------------------------------------------------------------------
    def _fork_bool(self, st, v):
        """[(state, truth)] for a boolean term, recording the condition like a branch would"""
        neg = False
        while v[0] == 'un' and v[1] == 'Not':
            v = v[2]
            neg = not neg
        if is_const(v):
            return [(st, bool(v[1]) != neg)]
        if v[0] == 'eqc':
            atom, cv = v[1], v[2]
            kn = st.known.get(atom)
            if is_const(atom):
                return [(st, (atom[1] == cv) != neg)]
            if kn is not None and kn[0] == 'eq':
                return [(st, (kn[1] == cv) != neg)]
            if kn is not None and kn[0] == 'ne' and cv in kn[1]:
                return [(st, neg)]
            s1 = st.copy()
            s1.known[atom] = ('eq', cv)
            s1.conds.append((atom, cv))
            ex = set(kn[1]) if kn is not None and kn[0] == 'ne' else set()
            ex.add(cv)
            st.known[atom] = ('ne', frozenset(ex))
            st.conds.append((atom, ('not', (cv,))))
            return [(s1, not neg), (st, neg)]
        kn = st.known.get(v)
        if kn is not None and kn[0] == 'eq':
            return [(st, bool(kn[1]) != neg)]
        s1 = st.copy()
        s1.known[v] = ('eq', 1)
        s1.conds.append((v, 1))
        self._learn_eq(s1, v, 1)
        st.known[v] = ('eq', 0)
        st.conds.append((v, 0))
        return [(s1, not neg), (st, neg)]

    ADAPTER_CONSUMERS = ('for_each', 'any', 'all', 'find', 'position', 'fold', 'try_fold', 'retain', 'retain_mut', 'extend', 'count', 'collect')
    ADAPTER_LAZY_CLOSURE = ('filter', 'map', 'flat_map', 'take_while')
    ADAPTER_LAZY_PLAIN = ('cloned', 'copied', 'enumerate', 'rev', 'by_ref')
    ADAPTER_SOURCES = ('iter', 'into_iter', 'iter_mut')

    def _closure_fn(self, clo):
        if isinstance(clo, tuple) and clo and clo[0] == 'agg' and clo[1] == 'closure':
            return self.facts.fns.get(clo[2])
        return None

    def _parse_chain(self, st, t):
        """(source term, [stages from the source outwards]) or None"""
        stages = []
        guard = 0
        while guard < 16:
            guard += 1
            while t[0] in ('ref', 'der', 'K'):
                if t[0] == 'ref' and t[1][0] == 'L':
                    t = self._read_lv(st, t[1])
                else:
                    t = t[1]
            if t[0] == 'call':
                base = t[1].rsplit('::', 1)[-1]
                if base in self.ADAPTER_LAZY_CLOSURE and len(t[2]) == 2:
                    if self._closure_fn(t[2][1]) is None and not (isinstance(t[2][1], tuple) and t[2][1] and t[2][1][0] == 'fnitem'
                                                                  and t[2][1][1] in self.facts.fns):
                        return None
                    stages.append((base, t[2][1]))
                    t = t[2][0]
                    continue
                if base in self.ADAPTER_LAZY_PLAIN and len(t[2]) == 1:
                    stages.append((base,))
                    t = t[2][0]
                    continue
            break
        stages.reverse()
        return t, stages

    def _mut_captures(self, clo):
        """lvalues of the parent that the closure captures by unique borrow (it may assign them)"""
        cf = self._closure_fn(clo)
        out = []
        if cf is None:
            return out
        muts = set()
        for _, proj in cf.raw.get('debug_proj', []):
            m = re.match(r'\(\*\(\(?\*?_1\)?\.(\d+): (&mut )', proj) or re.match(r'\(\*\(\*_1\)\.(\d+): (&mut )', proj)
            if m:
                muts.add(int(m.group(1)))
        for fname, op in clo[4]:
            k = int(fname[5:])
            if k in muts and op[0] == 'ref':
                out.append(op[1])
        return out

    def _literal_elements(self, st, source):
        """elements of an iteration source that is a literal / constant array of at most 8 items, else None"""
        if self.concrete and source[0] == 'agg' and source[1] == 'adt' and str(source[2]).endswith('::Range'):
            f_ = dict(source[4])
            lo, hi = f_.get('start'), f_.get('end')
            if lo and hi and is_const(lo) and is_const(hi) and isinstance(lo[1], int) and isinstance(hi[1], int) and 0 <= hi[1] - lo[1] <= 256:
                return [C(i_) for i_ in range(lo[1], hi[1])]
            return None
        if source[0] != 'call' or len(source[2]) != 1:
            return None
        sb = source[1].rsplit('::', 1)[-1]
        if sb not in self.ADAPTER_SOURCES:
            return None
        a = source[2][0]
        by_ref = sb in ('iter', 'iter_mut')
        guard = 0
        while a[0] in ('ref', 'K', 'der', 'named', 'call') and guard < 8:
            guard += 1
            if a[0] == 'named':
                a = NAMED_CONSTS.get(a[1], ('unk',))
            elif a[0] == 'call':
                if a[1].endswith('Deref>::deref') or a[1].endswith('as_slice') or a[1].endswith('::iter'):
                    a = a[2][0]
                else:
                    return None
            elif a[0] == 'ref' and a[1][0] == 'L':
                by_ref = True
                a = self._read_lv(st, a[1])
            else:
                by_ref = by_ref or a[0] == 'ref'
                a = a[1]
        if a[0] == 'agg' and a[1] == 'array' and 0 < len(a[4]) <= (64 if self.concrete else 8):
            return [(('ref', ('K', x)) if by_ref else x) for _, x in a[4]]
        return None

    def _adapter_call(self, st, fn, fid, t, name, args):
        base = name.rsplit('::', 1)[-1]
        if base not in self.ADAPTER_CONSUMERS or not args:
            return None
        in_place = base in ('retain', 'retain_mut')
        extend = base == 'extend'
        if extend:
            # `list.extend(<adapter chain>)`: every element the chain yields is pushed onto the receiver (shown as a push event);
            # only chains with at least one closure stage are interpreted, a plain `extend(other)` stays an opaque call
            if 'Extend' not in name or len(args) != 2 or not re.search(r'(Vec|SmallVec|VecDeque)<', name):
                return None
            parsed = self._parse_chain(st, args[1])
            if parsed is None or not any(len(s_) == 2 for s_ in parsed[1]):
                return None
            clo = None
        elif base == 'collect':
            # `<chain with closure stages>.collect::<Vec<_> / SmallVec<_>>()`: a fresh list onto which every element the chain yields is pushed
            dty = fn.local_ty(t['dest']['local']) if not t['dest'].get('proj') else ''
            if name != 'std::iter::Iterator::collect' or len(args) != 1 or not (dty.startswith('std::vec::Vec<') or dty.startswith('smallvec::SmallVec<')):
                return None
            parsed = self._parse_chain(st, args[0])
            if parsed is None or not any(len(s_) == 2 for s_ in parsed[1]):
                return None
            clo = None
        elif base == 'count':
            # only interpreted on constant inputs (partial evaluation): the number of elements the chain yields
            if not self.concrete or 'Iterator' not in name or len(args) != 1:
                return None
            parsed = self._parse_chain(st, args[0])
            if parsed is None:
                return None
            clo = None
        else:
            if in_place != ('Iterator' not in name):
                return None
            if in_place and not re.search(r'(Vec|SmallVec|VecDeque)::<', name):
                return None
            n_clo = 2 if base in ('fold', 'try_fold') else 1
            if len(args) != 1 + n_clo:
                return None
            clo = args[-1]
            if self._closure_fn(clo) is None:
                return None
            parsed = (args[0], []) if in_place else self._parse_chain(st, args[0])
            if parsed is None:
                return None
        source, stages = parsed
        uid = next(self.uid)
        marker = ('adapter', uid)
        collected = ('collected', uid) if base == 'collect' else None
        closures = [s_[1] for s_ in stages if len(s_) == 2] + ([clo] if clo is not None else [])
        elems = self._literal_elements(st, source) if (self.unroll or self.concrete) else None
        if base == 'count' and elems is None:
            return None
        acc_key = 'acc%d' % uid if base in ('fold', 'try_fold', 'count') else None
        wrap = None
        if base == 'try_fold':
            rty = self._closure_fn(clo).local_ty(0)
            wrap = ((RESULT, 'Ok') if rty.startswith('std::result::Result<') else (OPTION, 'Some') if rty.startswith('std::option::Option<')
                    else None)
            if wrap is None:
                return None
        if elems is None:
            # abstract mode: loop variables are everything the closures may assign
            before = {}
            lvs = []
            for c in closures:
                for lv in self._mut_captures(c):
                    root = lv
                    while root[0] in ('fld', 'idx'):
                        root = root[1]
                    if root[0] == 'L' and root[1] == fid and lv == root and lv[2] not in before and not fn.local_ty(lv[2]).startswith('&'):
                        before[lv[2]] = st.frames[fid].get(lv[2])
                        lvs.append(lv[2])
            for l in lvs:
                st.frames[fid][l] = ('lv', marker, l)
            if acc_key:
                before[acc_key] = args[1]
                st.frames[fid][acc_key] = ('lv', marker, acc_key)
            st.epoch += 1
            st.events.append(('loop_head', fn.name, marker, before, len(st.conds)))
            st.events.append(('adapter', base, marker, source, tuple(s_[0] for s_ in stages)))
        elif acc_key:
            st.frames[fid][acc_key] = args[1] if base != 'count' else C(0)

        def finish_exit(s_, value):
            self._write_place(s_, fn, fid, t['dest'], value)
            if t['target'] is None:
                return [Outcome('abort', None, s_, where=(fn.name, name))]
            return [(s_, fn, fid, t['target'])]

        def backedge(s_, value=None):
            o = Outcome('backedge', value, s_, where=(fn.name, marker))
            o.locals = dict(s_.frames[fid])
            return [o]

        def call_closure(s_, c, cargs, k):
            # a named function handed to an iterator adapter is walked like a closure; elsewhere (Option::map(Piece::from_usize)) it stays a call term
            return self.call_value_k(s_, fn, fid, c, cargs, k, inline_fnitems=True)

        def consume(s_, elem, pos, cont):
            if base == 'for_each':
                return call_closure(s_, clo, [elem], lambda s2, v: cont(s2))
            if base in ('any', 'all', 'position'):
                def k(s2, v):
                    out = []
                    for s3, truth in self._fork_bool(s2, v):
                        stop = truth if base in ('any', 'position') else (not truth)
                        if stop:
                            res = C(base == 'any') if base != 'position' else mk_adt(OPTION, 'Some', [('0', pos)])
                            out.extend(finish_exit(s3, res))
                        else:
                            out.extend(cont(s3))
                    return out
                return call_closure(s_, clo, [elem], k)
            if base == 'find':
                def k(s2, v):
                    out = []
                    for s3, truth in self._fork_bool(s2, v):
                        if truth:
                            out.extend(finish_exit(s3, mk_adt(OPTION, 'Some', [('0', elem)])))
                        else:
                            out.extend(cont(s3))
                    return out
                return call_closure(s_, clo, [('ref', ('K', elem))], k)
            if base == 'count':
                s_.frames[fid][acc_key] = C(s_.frames[fid][acc_key][1] + 1)
                return cont(s_)
            if extend or collected:
                sv = ('SmallVec' in name) if extend else dty.startswith('smallvec')
                push = 'smallvec::SmallVec::<A>::push' if sv else 'std::vec::Vec::<T, A>::push'
                s_.epoch += 1
                s_.events.append(('call', push, (args[0] if extend else ('ref', collected), elem), next(self.uid), fn.name, t['span'], (), s_.epoch))
                return cont(s_)
            if in_place:
                # Vec::retain: one arbitrary element, kept in place (same relative order) iff the predicate holds
                def k(s2, v):
                    out = []
                    for s3, truth in self._fork_bool(s2, v):
                        s3.events.append(('retain', marker, truth, elem, source))
                        out.extend(cont(s3))
                    return out
                return call_closure(s_, clo, [('ref', ('K', elem))], k)
            if base == 'try_fold':
                # the closure yields Ok(acc') / Some(acc') to go on, anything else ends the fold with that value
                def k(s2, v):
                    if v[0] == 'agg' and v[1] == 'adt' and v[3] in ('Ok', 'Some'):
                        nv = dict(v[4]).get('0', UNIT)
                        s2.frames[fid][acc_key] = nv
                        return cont(s2) if elems is not None else backedge(s2, nv)
                    if v[0] == 'agg' and v[1] == 'adt' and v[3] in ('Err', 'None'):
                        return finish_exit(s2, v)
                    return [Outcome('limit', None, s2, where=(fn.name, 'try_fold closure result of unknown variant'))]
                return call_closure(s_, clo, [s_.frames[fid][acc_key], elem], k)
            if base == 'fold':
                def k(s2, v):
                    s2.frames[fid][acc_key] = v
                    return cont(s2) if elems is not None else backedge(s2, v)
                return call_closure(s_, clo, [s_.frames[fid][acc_key], elem], k)
            return None

        def stage(s_, i, elem, pos, cont, sl=None, sink=None):
            sl = stages if sl is None else sl
            sink = consume if sink is None else sink
            if i == len(sl):
                return sink(s_, elem, pos, cont)
            sg = sl[i]
            if sg[0] in ('cloned', 'copied'):
                return stage(s_, i + 1, ('der', elem) if not (elem[0] == 'ref' and elem[1][0] == 'K') else elem[1][1], pos, cont, sl, sink)
            if sg[0] == 'enumerate':
                return stage(s_, i + 1, mk_tuple(pos, elem), pos, cont, sl, sink)
            if sg[0] in ('rev', 'by_ref'):
                return stage(s_, i + 1, elem, pos, cont, sl, sink)
            if sg[0] == 'map':
                return call_closure(s_, sg[1], [elem], lambda s2, v: stage(s2, i + 1, v, pos, cont, sl, sink))
            if sg[0] == 'filter':
                def k(s2, v):
                    out = []
                    for s3, truth in self._fork_bool(s2, v):
                        out.extend(stage(s3, i + 1, elem, pos, cont, sl, sink) if truth else cont(s3))
                    return out
                return call_closure(s_, sg[1], [('ref', ('K', elem))], k)
            if sg[0] == 'take_while':
                # the first element that fails the predicate ends the whole iteration
                def k(s2, v):
                    out = []
                    for s3, truth in self._fork_bool(s2, v):
                        out.extend(stage(s3, i + 1, elem, pos, cont, sl, sink) if truth else finish_exit(s3, exit_value(s3)))
                    return out
                return call_closure(s_, sg[1], [('ref', ('K', elem))], k)
            if sg[0] == 'flat_map':
                # the closure yields an inner iterator: its elements flow on through the remaining outer stages
                def k(s2, v):
                    inner = self._parse_chain(s2, v)
                    if inner is None:
                        return [Outcome('limit', None, s2, where=(fn.name, 'flat_map over an unrecognised inner iterator'))]
                    src2, st2 = inner
                    uid2 = next(self.uid)
                    s2.events.append(('adapter', 'flat_map', ('adapter', uid2), src2, tuple(x[0] for x in st2)))

                    def after(s3, e3, p3, c3):
                        return stage(s3, i + 1, e3, pos, c3, sl, sink)
                    el2 = self._literal_elements(s2, src2) if self.unroll else None
                    if el2 is None:
                        by_ref = src2[0] == 'call' and src2[1].rsplit('::', 1)[-1] in ('iter', 'iter_mut')
                        e0 = ('elem', uid2)
                        return stage(s2, 0, ('ref', ('K', e0)) if by_ref else e0, ('pos', uid2), cont, st2, after)
                    if any(x[0] == 'rev' for x in st2):
                        el2 = list(reversed(el2))

                    def run2(s3, j):
                        if j == len(el2):
                            return cont(s3)
                        return stage(s3, 0, el2[j], C(j), lambda s4: run2(s4, j + 1), st2, after)
                    return run2(s2, 0)
                return call_closure(s_, sg[1], [elem], k)
            return cont(s_)

        def exit_value(s_):
            if base == 'for_each' or in_place:
                return UNIT
            if base in ('any', 'all'):
                return C(base == 'all')
            if base in ('find', 'position'):
                return mk_adt(OPTION, 'None', [])
            if collected:
                return collected
            if base in ('for_each',) or in_place or extend:
                return UNIT
            acc = s_.frames[fid][acc_key] if elems is not None else ('lv', marker, acc_key)
            return mk_adt(wrap[0], wrap[1], [('0', acc)]) if wrap else acc

        if elems is not None:
            if any(s_[0] == 'rev' for s_ in stages):
                elems = list(reversed(elems))

            def run_from(s_, i):
                if i == len(elems):
                    return finish_exit(s_, exit_value(s_))
                return stage(s_, 0, elems[i], C(i), lambda s2: run_from(s2, i + 1))
            return run_from(st, 0)
        body = st.copy()
        work = stage(body, 0, ('elem', uid), ('pos', uid), backedge) or []
        # the adapter is over: loop variables keep their arbitrary values
        return list(work) + finish_exit(st, exit_value(st))

    def _find_model(self, name, ce):
        m = self.models.get(name)
        if m is not None:
            return m
        for pat, mm in PATTERN_MODELS:
            if pat.search(name):
                return mm
        return None

    def _inlinable(self, st, callee, name):
        if len(st.stack) >= self.max_depth:
            return False
        if any(f[4] == name for f in st.stack) or name == getattr(self, 'root_name', None):
            return False      # recursion (also through a closure of the analysed function) is never unfolded
        if self.inline_filter is not None and not self.inline_filter(name, callee):
            return False
        if callee.cfg.has_loops() and name not in self.inline_loops and not self.concrete:
            return False
        return True

    def _inline(self, st, fn, fid, t, callee, args, name):
        nfid = next(self.fid)
        fr = {}
        st.frames[nfid] = fr
        st.visited[nfid] = set()
        st.entered[nfid] = set()
        call_args = list(args)
        if callee.kind == 'Closure' and len(call_args) == 2 and callee.arg_count != 2 or \
                (callee.kind == 'Closure' and len(call_args) == 2 and call_args[1][0] == 'agg' and call_args[1][1] == 'tuple'
                 and callee.arg_count == 1 + len(call_args[1][4])):
            env, packed = call_args
            if packed[0] == 'agg' and packed[1] == 'tuple':
                spread = [x for _, x in packed[4]]
            else:
                spread = [field(packed, str(i)) for i in range(callee.arg_count - 1)]
            call_args = [env] + spread
        if callee.kind == 'Closure' and callee.arg_count >= 1:
            ety = callee.local_ty(1)
            if ety.startswith('&') and call_args and call_args[0][0] != 'ref':
                fr[-1] = call_args[0]
                call_args[0] = ('ref', ('L', nfid, -1))
        for i in range(1, callee.arg_count + 1):
            fr[i] = call_args[i - 1] if i - 1 < len(call_args) else ('unk', 'missing-arg')
        st.stack.append((fn, fid, t['dest'], t['target'], name))
        if self.log_enter:
            st.events.append(('enter', name, tuple(args), t['span']))
        return [(st, callee, nfid, 0)]

    def _opaque_call(self, st, fn, fid, t, name, args):
        if name in self.call_alias and args and args[0][0] == 'ref' and args[0][1][0] == 'fld':
            # a lower-level primitive reached inside an inlined wrapper: recorded as the API call it stands for
            name = self.call_alias[name]
            args = [('ref', args[0][1][1])] + list(args[1:])
        # shared references to frame locals are snapshotted so that call terms are self-contained
        snapped = []
        for a, aty in zip(args, t.get('arg_tys', [''] * len(args))):
            if a[0] == 'ref' and not aty.startswith('&mut') and aty.startswith('&'):
                root = a[1]
                while root[0] in ('fld', 'idx'):
                    root = root[1]
                if root[0] == 'L':
                    a = ('ref', ('K', self._read_lv(st, a[1])))
            snapped.append(a)
        args = snapped
        pure = name in self.pure or any(p.search(name) for p in PURE_PATTERNS)
        if name in self.readonly:
            # reads mutable state but changes nothing: equal within one epoch of the path
            val = ('call', name, tuple(args), ('e', st.epoch))
            self._write_place(st, fn, fid, t['dest'], val)
            if t['target'] is None:
                return [Outcome('abort', None, st, where=(fn.name, name))]
            return [(st, fn, fid, t['target'])]
        uid = None if pure else next(self.uid)
        val = ('call', name, tuple(args), uid)
        if not pure:
            st.epoch += 1
            # values that `&mut local` arguments pointed to just before the call (position -> value), for rules that need the receiver
            pre = {}
            for i_, (a, aty) in enumerate(zip(args, t.get('arg_tys', []))):
                if aty.startswith('&mut') and a[0] == 'ref':
                    root = a[1]
                    while root[0] in ('fld', 'idx'):
                        root = root[1]
                    if root[0] == 'L':
                        pre[i_] = self._read_lv(st, a[1])
            st.events.append(('call', name, tuple(args), uid, fn.name, t['span'], tuple(sorted(pre.items())), st.epoch))
            # havoc everything reachable through &mut arguments
            for a, aty in zip(args, t.get('arg_tys', [])):
                if aty.startswith('&mut') and a[0] == 'ref':
                    self._havoc(st, a[1], uid)
        self._write_place(st, fn, fid, t['dest'], val)
        if t['target'] is None:
            return [Outcome('abort', None, st, where=(fn.name, name))]
        return [(st, fn, fid, t['target'])]

    def _havoc(self, st, lv, uid):
        root = lv
        while root[0] in ('fld', 'idx'):
            root = root[1]
        if root[0] == 'L':
            self._write_lv(st, lv, ('hv', uid), None, event=False)
        else:
            for key in [x for x in st.heap if is_prefix(lv, x)]:
                del st.heap[key]
            st.heap[lv] = ('hv', uid)


def wrap_switch(v, ty):
    if ty in INT_BITS and ty.startswith('i'):
        return wrap_int(v, ty)
    return v


def is_prefix(lv, other):
    x = other
    while True:
        if x == lv:
            return True
        if x[0] in ('fld', 'idx'):
            x = x[1]
        else:
            return False


def loop_assigned_locals(fn, body):
    out = set()
    for b in body:
        blk = fn.blocks[b]
        for s in blk['stmts']:
            if s['k'] == 'assign' and not s['place']['proj']:
                out.add(s['place']['local'])
            elif s['k'] == 'assign':
                out.add(s['place']['local']) if s['place']['proj'][0] != 'deref' else None
            if s['k'] == 'assign' and s['rv']['k'] in ('ref', 'rawptr') and s['rv'].get('mut'):
                pl = s['rv']['place']
                if not pl['proj'] or pl['proj'][0] != 'deref':
                    out.add(pl['local'])      # mutably borrowed inside the loop: may be updated through the borrow
        t = blk['term']
        if t['k'] == 'call' and not t['dest']['proj']:
            out.add(t['dest']['local'])
    return out


# ---- term algebra ----------------------------------------------------------------------------------
def field(base, name):
    if base[0] == 'agg':
        # name may be 'Variant.field'
        if '.' in name and not name.startswith('proj:'):
            var, fname = name.split('.', 1)
            if base[3] is not None and base[3] != var:
                return ('unk', 'wrong-variant', base[3], name)
        else:
            fname = name
        for n, t in base[4]:
            if n == fname:
                return t
        return ('unk', 'nofield', name)
    if base[0] == 'upd' and base[1] == 'fld':
        if base[3] == name:
            return base[4]
        return field(base[2], name)
    return ('fld', base, name)


NAMED_CONSTS = {}


def index(base, i):
    if base[0] == 'named' and is_const(i):
        base = NAMED_CONSTS[base[1]]
    if base[0] == 'agg' and is_const(i):
        for n, t in base[4]:
            if n == str(i[1]):
                return t
    if base[0] == 'repeat':
        return base[1]
    if base[0] == 'upd' and base[1] == 'idx':
        if base[3] == i:
            return base[4]
        if is_const(i) and is_const(base[3]):
            return index(base[2], i)
    return ('idx', base, i)


def update(cur, kind, key, val):
    if cur[0] == 'agg':
        if kind == 'fld':
            fname = key.split('.', 1)[1] if ('.' in key and not key.startswith('proj:')) else key
            if any(n == fname for n, _ in cur[4]):
                return cur[:4] + (tuple((n, (val if n == fname else t)) for n, t in cur[4]),)
        elif kind == 'idx' and is_const(key):
            if any(n == str(key[1]) for n, _ in cur[4]):
                return cur[:4] + (tuple((n, (val if n == str(key[1]) else t)) for n, t in cur[4]),)
    return ('upd', kind, cur, key, val)


def discr(t, facts=None):
    if t[0] == 'agg' and t[1] == 'adt':
        d = facts.variant_discr(t[2], t[3]) if facts else None
        if d is None:
            d = CORE_VARIANT_DISCR.get(t[3])
        if d is not None:
            return C(d)
    return ('discr', t)


CMP = {'Eq': lambda a, b: a == b, 'Ne': lambda a, b: a != b, 'Lt': lambda a, b: a < b,
       'Le': lambda a, b: a <= b, 'Gt': lambda a, b: a > b, 'Ge': lambda a, b: a >= b}


def binop(op, a, b, ty=None):
    base = op.replace('WithOverflow', '').replace('Unchecked', '')
    with_ovf = op.endswith('WithOverflow')
    if with_ovf and ty and ty.startswith('('):
        ty = ty[1:].split(',')[0].strip()
    if base in CMP:
        # character constants compare by code point (switches on chars carry the code point as an integer)
        def _ordc(t):
            if is_const(t) and isinstance(t[1], tuple) and t[1] and t[1][0] == 'char' and isinstance(t[1][1], str) and len(t[1][1]) == 1:
                return C(ord(t[1][1]))
            return t
        a, b = _ordc(a), _ordc(b)
    if is_const(a) and is_const(b) and isinstance(a[1], (int, bool)) and isinstance(b[1], (int, bool)):
        x, y = a[1], b[1]
        r = None
        if base in CMP:
            r = CMP[base](x, y)
        elif base == 'Cmp':
            r = None
        else:
            xi, yi = int(x), int(y)
            if base == 'Add':
                r = xi + yi
            elif base == 'Sub':
                r = xi - yi
            elif base == 'Mul':
                r = xi * yi
            elif base == 'BitAnd':
                r = (x and y) if isinstance(x, bool) and isinstance(y, bool) else xi & yi
            elif base == 'BitOr':
                r = (x or y) if isinstance(x, bool) and isinstance(y, bool) else xi | yi
            elif base == 'BitXor':
                r = (x != y) if isinstance(x, bool) and isinstance(y, bool) else xi ^ yi
            elif base == 'Shl':
                r = xi << yi if 0 <= yi < 256 else None
            elif base == 'Shr':
                r = xi >> yi if 0 <= yi < 256 else None
            elif base == 'Div' and yi != 0:
                r = int(xi / yi) if (xi < 0) != (yi < 0) else xi // yi
            elif base == 'Rem' and yi != 0:
                r = xi - yi * (int(xi / yi) if (xi < 0) != (yi < 0) else xi // yi)
        if r is not None:
            if isinstance(r, bool):
                res = C(r)
                wrapped = False
            else:
                w = wrap_int(r, ty) if ty in INT_BITS else r
                wrapped = (w != r)
                res = C(w)
            if with_ovf:
                return mk_tuple(res, C(wrapped))
            return res
    # identities with the constant 0 (integers only): x & 0 = 0, x | 0 = x ^ 0 = x + 0 = x - 0 = x << 0 = x >> 0 = x
    if not with_ovf and base in ('BitAnd', 'BitOr', 'BitXor', 'Shl', 'Shr'):
        za = is_const(a) and a[1] == 0 and not isinstance(a[1], bool)
        zb = is_const(b) and b[1] == 0 and not isinstance(b[1], bool)
        if base == 'BitAnd' and (za or zb):
            return C(0)
        if base in ('BitOr', 'BitXor'):
            if zb:
                return a
            if za:
                return b
        if base in ('Shl', 'Shr') and zb:
            return a
    if base == 'Eq' or base == 'Ne':
        t = None
        if is_const(b) and not is_const(a):
            t = ('eqc', a, int(b[1]) if isinstance(b[1], bool) else b[1])
        elif is_const(a) and not is_const(b):
            t = ('eqc', b, int(a[1]) if isinstance(a[1], bool) else a[1])
        elif a == b and a[0] not in ('call', 'hv', 'unk'):
            t = TRUE
        if t is not None:
            return t if base == 'Eq' else unop('Not', t, 'bool')
    res = ('bin', base, a, b)
    if with_ovf:
        return mk_tuple(res, ('ovf', base, a, b))
    return res


def unop(op, a, ty=None):
    if op == 'Not':
        if is_const(a):
            if isinstance(a[1], bool):
                return C(not a[1])
            if isinstance(a[1], int) and ty in INT_BITS:
                return C(wrap_int(~a[1], ty))
        if a[0] == 'un' and a[1] == 'Not':
            return a[2]
    if op == 'Neg' and is_const(a) and isinstance(a[1], int):
        return C(wrap_int(-a[1], ty) if ty in INT_BITS else -a[1])
    return ('un', op, a)


def cast(a, ty, kind, facts=None):
    if is_const(a) and isinstance(a[1], (int, bool)) and ty in INT_BITS:
        return C(wrap_int(int(a[1]), ty))
    if a[0] == 'agg' and a[1] == 'adt' and ty in INT_BITS and not a[4]:
        d = facts.variant_discr(a[2], a[3]) if facts else None
        if d is None:
            d = CORE_VARIANT_DISCR.get(a[3])
        if d is not None:
            return C(wrap_int(d, ty))
    if kind.startswith('PointerCoercion') or kind in ('PtrToPtr', 'Subtype', 'Transmute'):
        return a
    return ('cast', a, ty)


# ---- models of std functions ------------------------------------------------------------------------
ABORT = object()


def _deref_arg(eng, st, a):
    """value behind a reference argument"""
    if a[0] == 'ref':
        return eng._read_lv(st, a[1])
    if a[0] in ('agg', 'c'):
        # promoted constants (`&Piece::Pawn`) are evaluated through the reference already
        return a
    return ('der', a)


def _fork_on_discr(eng, st, x, variants):
    """fork state on the discriminant of enum term x.  variants: list of (name, discr).
    returns list of (state, variant name)"""
    d = discr(x, eng.facts)
    if is_const(d):
        for n, v in variants:
            if v == d[1]:
                return [(st, n)]
        return []
    kn = st.known.get(d)
    if kn is not None and kn[0] == 'eq':
        for n, v in variants:
            if v == kn[1]:
                return [(st, n)]
        return []
    out = []
    excluded = kn[1] if kn is not None and kn[0] == 'ne' else ()
    live = [(n, v) for n, v in variants if v not in excluded]
    for i, (n, v) in enumerate(live):
        s2 = st.copy() if i < len(live) - 1 else st
        s2.known[d] = ('eq', v)
        s2.conds.append((d, v))
        out.append((s2, n))
    return out


def variant_payload(x, variant, fname='0'):
    return field(x, variant + '.' + fname)


OPTION = 'std::option::Option'
RESULT = 'std::result::Result'
CFLOW = 'std::ops::ControlFlow'


def m_identity(eng, st, args, info):
    return [(st, args[0])]


def m_clone(eng, st, args, info):
    return [(st, _deref_arg(eng, st, args[0]))]


def m_is_variant(variant_val):
    def m(eng, st, args, info):
        x = _deref_arg(eng, st, args[0])
        d = discr(x, eng.facts)
        if is_const(d):
            return [(st, C(d[1] == variant_val))]
        return [(st, ('eqc', d, variant_val))]
    return m


def m_unwrap(ok_variant, ok_val):
    def m(eng, st, args, info):
        x = args[0]
        out = []
        for s2, v in _fork_on_discr(eng, st, x, [(ok_variant, ok_val), ('other', 1 - ok_val)]):
            if v == ok_variant:
                out.append((s2, variant_payload(x, ok_variant)))
            else:
                s2.events.append(('panic', info['name'], x, info['fn'].name, info['term']['span']))
                out.append((s2, ABORT))
        return out
    return m


def m_try_branch_result(eng, st, args, info):
    x = args[0]
    out = []
    for s2, v in _fork_on_discr(eng, st, x, [('Ok', 0), ('Err', 1)]):
        if v == 'Ok':
            out.append((s2, mk_adt(CFLOW, 'Continue', [('0', variant_payload(x, 'Ok'))])))
        else:
            out.append((s2, mk_adt(CFLOW, 'Break', [('0', mk_adt(RESULT, 'Err', [('0', variant_payload(x, 'Err'))]))])))
    return out


def m_try_branch_option(eng, st, args, info):
    x = args[0]
    out = []
    for s2, v in _fork_on_discr(eng, st, x, [('None', 0), ('Some', 1)]):
        if v == 'Some':
            out.append((s2, mk_adt(CFLOW, 'Continue', [('0', variant_payload(x, 'Some'))])))
        else:
            out.append((s2, mk_adt(CFLOW, 'Break', [('0', mk_adt(OPTION, 'None', []))])))
    return out


def m_from_residual_result(eng, st, args, info):
    r = args[0]
    return [(st, mk_adt(RESULT, 'Err', [('0', variant_payload(r, 'Err'))]))]


def m_from_residual_option(eng, st, args, info):
    return [(st, mk_adt(OPTION, 'None', []))]


def m_ok_or(eng, st, args, info):
    x, e = args
    out = []
    for s2, v in _fork_on_discr(eng, st, x, [('None', 0), ('Some', 1)]):
        if v == 'Some':
            out.append((s2, mk_adt(RESULT, 'Ok', [('0', variant_payload(x, 'Some'))])))
        else:
            out.append((s2, mk_adt(RESULT, 'Err', [('0', e)])))
    return out


def _call_closure(eng, st, clo, cargs, info):
    """symbolic application of a closure value; returns term (pure opaque application if not expandable)"""
    return ('apply', clo, tuple(cargs))


def m_option_map(eng, st, args, info):
    x, f = args
    out = []
    for s2, v in _fork_on_discr(eng, st, x, [('None', 0), ('Some', 1)]):
        if v == 'Some':
            payload = variant_payload(x, 'Some')
            if f[0] == 'fnitem':
                # tuple-struct / enum-variant constructor or plain function used as mapper
                out.append((s2, mk_adt(OPTION, 'Some', [('0', apply_fnitem(eng, f[1], [payload]))])))
            else:
                out.append((s2, mk_adt(OPTION, 'Some', [('0', expand_closure(eng, s2, f, [payload]))])))
        else:
            out.append((s2, mk_adt(OPTION, 'None', [])))
    return out


def m_result_map(eng, st, args, info):
    x, f = args
    out = []
    for s2, v in _fork_on_discr(eng, st, x, [('Ok', 0), ('Err', 1)]):
        if v == 'Ok':
            payload = variant_payload(x, 'Ok')
            out.append((s2, mk_adt(RESULT, 'Ok', [('0', expand_closure(eng, s2, f, [payload]))])))
        else:
            out.append((s2, mk_adt(RESULT, 'Err', [('0', variant_payload(x, 'Err'))])))
    return out


def m_result_map_err(eng, st, args, info):
    x, f = args
    out = []
    for s2, v in _fork_on_discr(eng, st, x, [('Ok', 0), ('Err', 1)]):
        if v == 'Ok':
            out.append((s2, mk_adt(RESULT, 'Ok', [('0', variant_payload(x, 'Ok'))])))
        else:
            out.append((s2, mk_adt(RESULT, 'Err', [('0', expand_closure(eng, s2, f, [variant_payload(x, 'Err')]))])))
    return out


def apply_fnitem(eng, name, args):
    # constructor of a tuple struct, e.g. chess_move::capture::Capture
    adt = eng.facts.adts.get(name)
    if adt is not None and adt['kind'] == 'struct':
        v = adt['variants'][0]
        return mk_adt(name, v['name'], [(f['name'], a) for f, a in zip(v['fields'], args)])
    return ('call', name, tuple(args), None)


def expand_closure(eng, st, clo, cargs):
    """Expand a single-path, effect-free closure body in place; otherwise an 'apply' term."""
    if clo[0] == 'agg' and clo[1] == 'closure':
        callee = eng.facts.fns.get(clo[2])
        if callee is not None and not callee.cfg.has_loops():
            sub = Engine(eng.facts, opaque=eng.opaque, max_paths=64, max_depth=4, fold_only=eng.fold_only)
            sub.uid = eng.uid
            sub.fid = eng.fid
            st2 = st.copy()
            st2.stack = []
            st2.events = []
            st2.conds = []
            nfid = next(eng.fid)
            fr = {}
            st2.frames[nfid] = fr
            st2.visited[nfid] = set()
            st2.entered[nfid] = set()
            ety = callee.local_ty(1)
            if ety.startswith('&'):
                fr[-1] = clo
                fr[1] = ('ref', ('L', nfid, -1))
            else:
                fr[1] = clo
            for i, x in enumerate(cargs):
                fr[2 + i] = x
            try:
                outs = sub._drive([(st2, callee, nfid, 0)])
            except PathLimit:
                outs = []
            rets = [o for o in outs if o.kind == 'return']
            if len(rets) == 1 and len(outs) == 1 and not [e for e in rets[0].events if e[0] in ('call', 'write', 'panic')]:
                return rets[0].value
    return ('apply', clo, tuple(cargs))


class Work(list):
    """returned by a model that schedules further execution (closure calls with effects) instead of (state, value) pairs"""


def _finish_call(eng, s_, info, val):
    fn, fid, t = info['fn'], info['fid'], info['term']
    if val is ABORT:
        return [Outcome('abort', None, s_, where=(fn.name, info['name']))]
    eng._write_place(s_, fn, fid, t['dest'], val)
    if t['target'] is None:
        return [Outcome('abort', None, s_, where=(fn.name, info['name']))]
    return [(s_, fn, fid, t['target'])]


def m_combinator(kind, which):
    """Option / Result / bool combinators taking a function value; the callee runs with its effects (events) on the path.

    kind: 'option' | 'result' | 'bool'.  which: method name."""
    def m(eng, st, args, info):
        fn, fid = info['fn'], info['fid']
        out = Work()
        x = args[0]
        some = lambda v: mk_adt(OPTION, 'Some', [('0', v)])
        none = mk_adt(OPTION, 'None', [])
        ok = lambda v: mk_adt(RESULT, 'Ok', [('0', v)])
        err = lambda v: mk_adt(RESULT, 'Err', [('0', v)])
        if kind == 'bool':
            for s2, truth in eng._fork_bool(st, x):
                if which == 'then':
                    if truth:
                        out.extend(eng.call_value_k(s2, fn, fid, args[1], [], lambda s3, r: _finish_call(eng, s3, info, some(r))))
                    else:
                        out.extend(_finish_call(eng, s2, info, none))
                else:   # then_some
                    out.extend(_finish_call(eng, s2, info, some(args[1]) if truth else none))
            return out
        variants = [('None', 0), ('Some', 1)] if kind == 'option' else [('Ok', 0), ('Err', 1)]
        for s2, v in _fork_on_discr(eng, st, x, variants):
            p = variant_payload(x, v) if v != 'None' else None
            fin = lambda val, s_=s2: _finish_call(eng, s_, info, val)
            call = lambda f, cargs, wrap, s_=s2: eng.call_value_k(s_, fn, fid, f, cargs, lambda s3, r: _finish_call(eng, s3, info, wrap(r)))
            ident = lambda r: r
            if kind == 'option':
                if which == 'map':
                    out.extend(call(args[1], [p], some) if v == 'Some' else fin(none))
                elif which == 'map_or':
                    out.extend(call(args[2], [p], ident) if v == 'Some' else fin(args[1]))
                elif which == 'map_or_else':
                    out.extend(call(args[2], [p], ident) if v == 'Some' else call(args[1], [], ident))
                elif which == 'and_then':
                    out.extend(call(args[1], [p], ident) if v == 'Some' else fin(none))
                elif which == 'unwrap_or_else':
                    out.extend(fin(p) if v == 'Some' else call(args[1], [], ident))
                elif which == 'unwrap_or':
                    out.extend(fin(p) if v == 'Some' else fin(args[1]))
                elif which == 'is_some_and':
                    out.extend(call(args[1], [p], ident) if v == 'Some' else fin(FALSE))
                elif which == 'ok_or_else':
                    out.extend(fin(ok(p)) if v == 'Some' else call(args[1], [], err))
                elif which == 'or_else':
                    out.extend(fin(some(p)) if v == 'Some' else call(args[1], [], ident))
                elif which == 'or':
                    out.extend(fin(some(p)) if v == 'Some' else fin(args[1]))
                elif which == 'and':
                    out.extend(fin(args[1]) if v == 'Some' else fin(none))
                elif which == 'is_none_or':
                    out.extend(call(args[1], [p], ident) if v == 'Some' else fin(TRUE))
                elif which == 'filter':
                    if v == 'Some':
                        def k(s3, r, p_=p):
                            res = []
                            for s4, truth in eng._fork_bool(s3, r):
                                res.extend(_finish_call(eng, s4, info, some(p_) if truth else none))
                            return res
                        out.extend(eng.call_value_k(s2, fn, fid, args[1], [('ref', ('K', p))], k))
                    else:
                        out.extend(fin(none))
            else:
                if which == 'map':
                    out.extend(call(args[1], [p], ok) if v == 'Ok' else fin(err(p)))
                elif which == 'map_err':
                    out.extend(fin(ok(p)) if v == 'Ok' else call(args[1], [p], err))
                elif which == 'and_then':
                    out.extend(call(args[1], [p], ident) if v == 'Ok' else fin(err(p)))
                elif which == 'unwrap_or_else':
                    out.extend(fin(p) if v == 'Ok' else call(args[1], [p], ident))
                elif which == 'unwrap_or':
                    out.extend(fin(p) if v == 'Ok' else fin(args[1]))
                elif which == 'ok':
                    out.extend(fin(some(p)) if v == 'Ok' else fin(none))
                elif which == 'map_or':
                    out.extend(call(args[2], [p], ident) if v == 'Ok' else fin(args[1]))
                elif which == 'is_ok_and':
                    out.extend(call(args[1], [p], ident) if v == 'Ok' else fin(FALSE))
                elif which == 'is_err_and':
                    out.extend(call(args[1], [p], ident) if v == 'Err' else fin(FALSE))
                elif which == 'or_else':
                    out.extend(fin(ok(p)) if v == 'Ok' else call(args[1], [p], ident))
                elif which == 'map_or_else':
                    out.extend(call(args[2], [p], ident) if v == 'Ok' else call(args[1], [p], ident))
                elif which == 'err':
                    out.extend(fin(some(p)) if v == 'Err' else fin(none))
        return out
    return m


def m_range_contains(eng, st, args, info):
    """Range / RangeInclusive::contains with constant bounds and a constant item"""
    def val(t):
        while t[0] in ('ref', 'K', 'der'):
            t = eng._read_lv(st, t[1]) if (t[0] == 'ref' and t[1][0] == 'L') else t[1]
        return t
    r, x = val(args[0]), val(args[1])
    if r[0] == 'agg' and r[1] == 'adt' and str(r[2]).startswith('std::ops::Range') and is_const(x) and isinstance(x[1], int):
        f = dict(r[4])
        lo, hi = f.get('start'), f.get('end')
        if lo is not None and hi is not None and is_const(lo) and is_const(hi):
            if str(r[2]).endswith('RangeInclusive'):
                return [(st, C(lo[1] <= x[1] <= hi[1]))]
            return [(st, C(lo[1] <= x[1] < hi[1]))]
    return None


def m_option_cloned(eng, st, args, info):
    """Option<&T>::cloned / copied: Some(&x) -> Some(x)"""
    x = args[0]
    out = []
    for s2, v in _fork_on_discr(eng, st, x, [('None', 0), ('Some', 1)]):
        if v == 'Some':
            p = variant_payload(x, 'Some')
            p = p[1][1] if (p[0] == 'ref' and p[1][0] == 'K') else ('der', p)
            out.append((s2, mk_adt(OPTION, 'Some', [('0', p)])))
        else:
            out.append((s2, mk_adt(OPTION, 'None', [])))
    return out


def m_eq(eng, st, args, info):
    a = _deref_arg(eng, st, args[0])
    b = _deref_arg(eng, st, args[1])
    return [(st, struct_eq(a, b, eng.facts))]


def m_ne(eng, st, args, info):
    a = _deref_arg(eng, st, args[0])
    b = _deref_arg(eng, st, args[1])
    return [(st, unop('Not', struct_eq(a, b, eng.facts), 'bool'))]


def fully_const(t):
    if t[0] == 'c':
        return True
    if t[0] == 'agg':
        return all(fully_const(x) for _, x in t[4])
    return False


def struct_eq(a, b, facts=None):
    if a == b and fully_const(a):
        return TRUE
    if fully_const(a) and fully_const(b):
        return C(a == b)
    for x, y in ((a, b), (b, a)):
        # comparison with a field-less enum constant is a discriminant test
        if x[0] == 'agg' and x[1] == 'adt' and not x[4] and y[0] != 'agg':
            d = discr(x, facts)
            if is_const(d):
                return ('eqc', ('discr', y), d[1])
    if a[0] == 'agg' and b[0] == 'agg' and a[1] == b[1]:
        if a[3] != b[3]:
            return FALSE
        parts = [struct_eq(x, y, facts) for (_, x), (_, y) in zip(a[4], b[4])]
        if any(p == FALSE for p in parts):
            return FALSE
        parts = [p for p in parts if p != TRUE]
        if not parts:
            return TRUE
        if len(parts) == 1:
            return parts[0]
        return ('and',) + tuple(parts)
    if is_const(b) and not is_const(a):
        return ('eqc', a, int(b[1]) if isinstance(b[1], bool) else b[1])
    if is_const(a) and not is_const(b):
        return ('eqc', b, int(a[1]) if isinstance(a[1], bool) else a[1])
    if a == b and a[0] not in ('call', 'hv', 'unk'):
        return TRUE
    x, y = sorted([a, b], key=repr)
    return ('eq', x, y)


def m_int_method(opname):
    def m(eng, st, args, info):
        a = args[0]
        ce = info['callee']
        m_ty = re.search(r'impl (\w+)>', ce.get('pretty', '') or '')
        ty = m_ty.group(1) if m_ty else None
        if opname == 'trailing_zeros' and is_const(a) and isinstance(a[1], int):
            v = a[1]
            if v == 0:
                return [(st, C(INT_BITS.get(ty, 64)))]
            return [(st, C((v & -v).bit_length() - 1))]
        if opname == 'leading_zeros' and is_const(a) and isinstance(a[1], int):
            w = INT_BITS.get(ty, 64)
            return [(st, C(w - (a[1] & ((1 << w) - 1)).bit_length()))]
        if opname == 'count_ones' and is_const(a) and isinstance(a[1], int):
            return [(st, C(bin(a[1] & ((1 << INT_BITS.get(ty, 64)) - 1)).count('1')))]
        if opname.startswith('wrapping_') and len(args) == 2:
            return [(st, binop({'wrapping_add': 'Add', 'wrapping_sub': 'Sub', 'wrapping_mul': 'Mul'}[opname],
                                args[0], args[1], ty) if all(is_const(x) for x in args) else
                     ('bin', 'W' + opname[9:].capitalize(), args[0], args[1]))]
        if opname == 'div_ceil' and len(args) == 2 and ty is not None and ty.startswith('u'):
            # unsigned: ceil(a / b) = (a + b - 1) / b  (no overflow for the small counters this is used on; a constant divisor is required)
            a_, b_ = args
            if is_const(b_) and isinstance(b_[1], int) and b_[1] > 0:
                if is_const(a_) and isinstance(a_[1], int):
                    return [(st, C(-(-a_[1] // b_[1])))]
                return [(st, ('bin', 'Div', ('bin', 'Add', a_, C(b_[1] - 1)), b_))]
        if opname in ('checked_sub', 'saturating_sub') and len(args) == 2 and ty is not None and ty.startswith('u'):
            # unsigned: underflow exactly when a < b; both outcomes are ordinary branches on that comparison
            a_, b_ = args
            if all(is_const(x) and isinstance(x[1], int) for x in args):
                lt = [(st, a_[1] < b_[1])]
            else:
                lt = eng._fork_bool(st, ('bin', 'Lt', a_, b_))
            out = []
            for s2, under in lt:
                if opname == 'checked_sub':
                    out.append((s2, mk_adt(OPTION, 'None', []) if under else mk_adt(OPTION, 'Some', [('0', binop('Sub', a_, b_, ty))])))
                else:
                    out.append((s2, C(0) if under else binop('Sub', a_, b_, ty)))
            return out
        return [(st, ('call', opname, tuple(args), None))]
    return m


def m_ascii_case(lower):
    """u8 / char to_ascii_lowercase / to_ascii_uppercase on a constant"""
    def m(eng, st, args, info):
        a = args[0]
        guard = 0
        while a[0] in ('ref', 'K', 'der') and guard < 6:
            guard += 1
            a = eng._read_lv(st, a[1]) if a[0] == 'ref' else a[1]
        if is_const(a) and isinstance(a[1], int) and not isinstance(a[1], bool):
            v = a[1]
            if lower and 65 <= v <= 90:
                v += 32
            if not lower and 97 <= v <= 122:
                v -= 32
            return [(st, C(v))]
        return None
    return m


def m_from_into(eng, st, args, info):
    # numeric widening only (From<u8> for usize etc.); anything else stays an opaque pure call
    ce = info['callee']
    tys = ce.get('args', [])
    a = args[0]
    if len(tys) >= 2 and all(t in INT_BITS for t in tys[:2]):
        tgt = tys[0] if 'From' in (ce.get('declared') or '') else tys[1]
        if is_const(a):
            return [(st, C(wrap_int(a[1], tgt)))]
        return [(st, ('cast', a, tgt))]
    if len(tys) >= 2 and tys[0] == tys[1]:
        return [(st, a)]
    return None


def m_max_min(which):
    def m(eng, st, args, info):
        a, b = args
        if is_const(a) and is_const(b):
            return [(st, C(max(a[1], b[1]) if which == 'max' else min(a[1], b[1])))]
        return [(st, ('call', 'std::cmp::' + which, (a, b), None))]
    return m


def m_once_init(eng, st, args, info):
    """OnceLock::get_or_init(&cell, f) / get_or_try_init: the value is what `f` computes (whenever that happens to run first - the cell
    only caches it); the closure is walked so that what it builds (a compiled pattern) is seen"""
    if len(args) != 2:
        return None
    fn, fid = info['fn'], info['fid']
    return Work(eng.call_value_k(st, fn, fid, args[1], [], lambda s3, r: _finish_call(eng, s3, info, ('ref', ('K', r)))))


def m_partial_ord(op):
    """`a < b` etc. on a newtype struct that DERIVES PartialOrd (one field): the comparison of the fields"""
    def m(eng, st, args, info):
        tys = info['term'].get('arg_tys', [])
        if len(args) != 2 or not tys:
            return None
        ty = tys[0].lstrip('&').strip()
        adt = eng.facts.adts.get(ty)
        impl = eng.facts.fns.get('<%s as std::cmp::PartialOrd>::partial_cmp' % ty)
        if adt is None or impl is None or not impl.derived or len(adt['variants']) != 1 or len(adt['variants'][0]['fields']) != 1:
            return None
        fname = adt['variants'][0]['fields'][0]['name']

        def val(t_):
            while t_[0] == 'ref':
                t_ = eng._read_lv(st, t_[1]) if t_[1][0] == 'L' else t_[1]
                if t_[0] == 'K':
                    t_ = t_[1]
            return field(t_, fname)
        return [(st, binop(op, val(args[0]), val(args[1]), 'bool'))]
    return m


def m_log_le(eng, st, args, info):
    tys = info['term'].get('arg_tys', [])
    if tys and 'log::Level' in tys[0]:
        # `log` macros: the enabled-test is resolved to "disabled"; log statements only format values
        st.notes.append(('log-skip', info['fn'].name))
        return [(st, FALSE)]
    return None


def concat(*parts):
    flat = []
    for p in parts:
        if p[0] == 'concat':
            flat.extend(p[1])
        else:
            flat.append(p)
    merged = []
    for p in flat:
        if is_const(p) and isinstance(p[1], str):
            if p[1] == '':
                continue
            if merged and is_const(merged[-1]) and isinstance(merged[-1][1], str):
                merged[-1] = C(merged[-1][1] + p[1])
                continue
        merged.append(p)
    if not merged:
        return C('')
    if len(merged) == 1:
        return merged[0]
    return ('concat', tuple(merged))


def disp(x):
    while x[0] == 'ref' and x[1][0] == 'K':
        x = x[1][1]
    if is_const(x) and isinstance(x[1], str):
        return x
    if is_const(x) and isinstance(x[1], tuple) and x[1][0] == 'char':
        return C(x[1][1])
    if x[0] in ('concat', 'disp'):
        return x
    return ('disp', x)


def m_new_display(eng, st, args, info):
    return [(st, disp(_deref_arg(eng, st, args[0])))]


def m_new_debug(eng, st, args, info):
    return [(st, ('dbg', _deref_arg(eng, st, args[0])))]


def m_arguments_new(eng, st, args, info):
    from .fmt import decode_template, TemplateError
    tpl = _deref_arg(eng, st, args[0])
    arr = _deref_arg(eng, st, args[1])
    if not (is_const(tpl) and isinstance(tpl[1], tuple) and tpl[1][0] == 'bytes') or arr[0] != 'agg':
        return [(st, ('unk', 'fmt-template'))]
    try:
        pieces = decode_template(tpl[1][1])
    except TemplateError:
        return [(st, ('unk', 'fmt-template'))]
    items = [x for _, x in arr[4]]
    parts = []
    for p in pieces:
        if p[0] == 'lit':
            parts.append(C(p[1]))
        else:
            parts.append(items[p[1]] if p[1] < len(items) else ('unk', 'fmt-arg'))
    return [(st, ('fmtargs', concat(*parts)))]


def m_arguments_from_str(eng, st, args, info):
    return [(st, ('fmtargs', args[0]))]


def m_format(eng, st, args, info):
    a = args[0]
    if a[0] == 'fmtargs':
        return [(st, a[1])]
    return None


def m_to_string(eng, st, args, info):
    return [(st, disp(_deref_arg(eng, st, args[0])))]


def m_string_from(eng, st, args, info):
    return [(st, args[0])]


def m_string_new(eng, st, args, info):
    return [(st, C(''))]


def m_push_str(eng, st, args, info):
    tgt = args[0]
    if tgt[0] != 'ref':
        return None
    cur = eng._read_lv(st, tgt[1])
    piece = args[1]
    while piece[0] in ('ref', 'K') or (piece[0] == 'der' and piece[1][0] in ('ref', 'K', 'call')):
        if piece[0] == 'ref' and piece[1][0] == 'L':
            piece = eng._read_lv(st, piece[1])          # `&temp` holding a String computed just before
            continue
        piece = piece[1]          # the text pushed, not the reference to it
    eng._write_lv(st, tgt[1], concat(cur, piece), info['fn'], event=False)
    return [(st, UNIT)]


def m_deref_identity(eng, st, args, info):
    return [(st, args[0])]


DEFAULT_FOLD_ONLY = {
    'chess::board::color::Color::opposite',
    'chess::board::color::Color::maximize_score',
    'chess::board::piece::Piece::from_usize',
}

DEFAULT_MODELS = {
    'std::cmp::PartialOrd::le': lambda eng, st, args, info: (m_log_le(eng, st, args, info) or m_partial_ord('Le')(eng, st, args, info)),
    'std::sync::OnceLock::<T>::get_or_init': m_once_init,
    'std::cell::OnceCell::<T>::get_or_init': m_once_init,
    'std::cmp::PartialOrd::lt': m_partial_ord('Lt'),
    'std::cmp::PartialOrd::gt': m_partial_ord('Gt'),
    'std::cmp::PartialOrd::ge': m_partial_ord('Ge'),
    "core::fmt::rt::Argument::<'_>::new_display": m_new_display,
    "core::fmt::rt::Argument::<'_>::new_debug": m_new_debug,
    "std::fmt::Arguments::<'a>::new": m_arguments_new,
    "std::fmt::Arguments::<'a>::from_str": m_arguments_from_str,
    'std::fmt::format': m_format,
    '<T as std::string::ToString>::to_string': m_to_string,
    '<std::string::String as std::convert::From<&str>>::from': m_string_from,
    'std::string::String::new': m_string_new,
    'std::string::String::push_str': m_push_str,
    '<std::string::String as std::ops::Deref>::deref': m_deref_identity,
    'std::hint::must_use': m_identity,
    'std::option::Option::<T>::is_some': m_is_variant(1),
    'std::option::Option::<T>::is_none': m_is_variant(0),
    'std::result::Result::<T, E>::is_ok': m_is_variant(0),
    'std::result::Result::<T, E>::is_err': m_is_variant(1),
    'std::option::Option::<T>::unwrap': m_unwrap('Some', 1),
    'std::result::Result::<T, E>::unwrap': m_unwrap('Ok', 0),
    'std::option::Option::<T>::expect': m_unwrap('Some', 1),
    'std::result::Result::<T, E>::expect': m_unwrap('Ok', 0),
    '<std::result::Result<T, E> as std::ops::Try>::branch': m_try_branch_result,
    '<std::option::Option<T> as std::ops::Try>::branch': m_try_branch_option,
    '<std::result::Result<T, F> as std::ops::FromResidual<std::result::Result<std::convert::Infallible, E>>>::from_residual': m_from_residual_result,
    '<std::option::Option<T> as std::ops::FromResidual<std::option::Option<std::convert::Infallible>>>::from_residual': m_from_residual_option,
    'std::option::Option::<T>::ok_or': m_ok_or,
    'std::option::Option::<T>::map': m_combinator('option', 'map'),
    'std::result::Result::<T, E>::map': m_combinator('result', 'map'),
    'std::result::Result::<T, E>::map_err': m_combinator('result', 'map_err'),
    'std::ops::Range::<Idx>::contains': m_range_contains,
    'std::ops::RangeInclusive::<Idx>::contains': m_range_contains,
    'std::option::Option::<&T>::cloned': m_option_cloned,
    'std::option::Option::<&T>::copied': m_option_cloned,
    'std::option::Option::<&mut T>::cloned': m_option_cloned,
    'std::option::Option::<&mut T>::copied': m_option_cloned,
    'std::option::Option::<T>::map_or': m_combinator('option', 'map_or'),
    'std::option::Option::<T>::map_or_else': m_combinator('option', 'map_or_else'),
    'std::option::Option::<T>::and_then': m_combinator('option', 'and_then'),
    'std::option::Option::<T>::unwrap_or_else': m_combinator('option', 'unwrap_or_else'),
    'std::option::Option::<T>::unwrap_or': m_combinator('option', 'unwrap_or'),
    'std::option::Option::<T>::is_some_and': m_combinator('option', 'is_some_and'),
    'std::option::Option::<T>::ok_or_else': m_combinator('option', 'ok_or_else'),
    'std::option::Option::<T>::filter': m_combinator('option', 'filter'),
    'std::option::Option::<T>::or_else': m_combinator('option', 'or_else'),
    'std::option::Option::<T>::or': m_combinator('option', 'or'),
    'std::option::Option::<T>::and': m_combinator('option', 'and'),
    'std::option::Option::<T>::is_none_or': m_combinator('option', 'is_none_or'),
    'std::result::Result::<T, E>::is_err_and': m_combinator('result', 'is_err_and'),
    'std::result::Result::<T, E>::or_else': m_combinator('result', 'or_else'),
    'std::result::Result::<T, E>::map_or_else': m_combinator('result', 'map_or_else'),
    'std::result::Result::<T, E>::err': m_combinator('result', 'err'),
    'std::result::Result::<T, E>::and_then': m_combinator('result', 'and_then'),
    'std::result::Result::<T, E>::unwrap_or_else': m_combinator('result', 'unwrap_or_else'),
    'std::result::Result::<T, E>::unwrap_or': m_combinator('result', 'unwrap_or'),
    'std::result::Result::<T, E>::ok': m_combinator('result', 'ok'),
    'std::result::Result::<T, E>::map_or': m_combinator('result', 'map_or'),
    'std::result::Result::<T, E>::is_ok_and': m_combinator('result', 'is_ok_and'),
    'core::bool::<impl bool>::then': m_combinator('bool', 'then'),
    'core::bool::<impl bool>::then_some': m_combinator('bool', 'then_some'),
    '<std::option::Option<T> as std::cmp::PartialEq>::eq': m_eq,
    'std::cmp::PartialEq::ne': m_ne,
    'core::tuple::<impl std::cmp::PartialEq for (U, T)>::eq': m_eq,
    'std::cmp::impls::<impl std::cmp::PartialEq<&B> for &A>::eq': m_eq,
    '<std::option::Option<T> as std::clone::Clone>::clone': m_clone,
    'std::cmp::max': m_max_min('max'),
    'std::cmp::min': m_max_min('min'),
    '<T as std::convert::Into<U>>::into': m_from_into,
}

def m_slice_get(eng, st, args, info):
    """<[T]>::get(i) on a constant array with a constant index"""
    a, i = args[0], args[1]
    guard = 0
    while a[0] in ('ref', 'K', 'der', 'named', 'call') and guard < 8:
        guard += 1
        if a[0] == 'named':
            a = NAMED_CONSTS.get(a[1], ('unk',))
        elif a[0] == 'call':
            if a[1].endswith('Deref>::deref') or a[1].endswith('as_slice'):
                a = a[2][0]
            else:
                return None
        elif a[0] == 'ref' and a[1][0] == 'L':
            a = eng._read_lv(st, a[1])
        else:
            a = a[1]
    if a[0] == 'agg' and a[1] == 'array' and is_const(i) and isinstance(i[1], int):
        for n, x in a[4]:
            if n == str(i[1]):
                return [(st, mk_adt(OPTION, 'Some', [('0', ('ref', ('K', x)))]))]
        return [(st, mk_adt(OPTION, 'None', []))]
    return None


def m_slice_contains(eng, st, args, info):
    """<[T]>::contains(&x) on a constant array of at most 8 elements: the disjunction of the element-wise equalities, tested in order"""
    a, x = args[0], _deref_arg(eng, st, args[1])
    guard = 0
    while a[0] in ('ref', 'K', 'der', 'named', 'call') and guard < 8:
        guard += 1
        if a[0] == 'named':
            a = NAMED_CONSTS.get(a[1], ('unk',))
        elif a[0] == 'call':
            if a[1].endswith('Deref>::deref') or a[1].endswith('as_slice'):
                a = a[2][0]
            else:
                return None
        elif a[0] == 'ref' and a[1][0] == 'L':
            a = eng._read_lv(st, a[1])
        else:
            a = a[1]
    if not (a[0] == 'agg' and a[1] == 'array' and 0 < len(a[4]) <= 8):
        return None
    out = []
    pending = [st]
    for _, el in a[4]:
        nxt = []
        eqt = struct_eq(el, x, eng.facts)
        for s_ in pending:
            for s2, truth in eng._fork_bool(s_, eqt):
                if truth:
                    out.append((s2, TRUE))
                else:
                    nxt.append(s2)
        pending = nxt
    for s_ in pending:
        out.append((s_, FALSE))
    return out


def _str_of(t):
    while isinstance(t, tuple) and t and t[0] in ('ref', 'K', 'der'):
        t = t[1]
    return t


def m_str_chars(eng, st, args, info):
    """str::chars(): a cursor over the characters of a (possibly unknown) string term"""
    return [(st, ('charsit', _str_of(args[0]), 0))]


def _chars_advance(eng, st, args, info, skip):
    if not args or args[0][0] != 'ref':
        return None
    cur = eng._read_lv(st, args[0][1])
    if not (isinstance(cur, tuple) and cur and cur[0] == 'charsit'):
        return None
    s, k = cur[1], cur[2] + skip
    eng._write_lv(st, args[0][1], ('charsit', s, k + 1), info['fn'], event=False)
    if is_const(s) and isinstance(s[1], str):
        if k < len(s[1]):
            return [(st, mk_adt(OPTION, 'Some', [('0', C(('char', s[1][k])))]))]
        return [(st, mk_adt(OPTION, 'None', []))]
    # unknown text: either it has a k-th character (the term charat(s, k)) or the cursor is exhausted - an ordinary branch on haschar(s, k)
    out = []
    for s2, present in eng._fork_bool(st, ('haschar', s, k)):
        out.append((s2, mk_adt(OPTION, 'Some', [('0', ('charat', s, k))]) if present else mk_adt(OPTION, 'None', [])))
    return out


def m_chars_next(eng, st, args, info):
    return _chars_advance(eng, st, args, info, 0)


def m_iter_nth(eng, st, args, info):
    if len(args) == 2 and is_const(args[1]) and isinstance(args[1][1], int):
        return _chars_advance(eng, st, args, info, args[1][1])
    return None


def m_prim_ref_op(eng, st, args, info):
    """operator impls of the primitive integers on references (`u8 | &u8`, `&u64 & u64`, ...): the operation on the referents"""
    name = info['name']
    m_ = re.match(r'^<&?(\w+) as std::ops::(\w+)<&?\w+>>::\w+$', name)
    if not m_ or len(args) != 2:
        return None
    ty, tr = m_.group(1), m_.group(2)
    op = {'BitOr': 'BitOr', 'BitAnd': 'BitAnd', 'BitXor': 'BitXor', 'Add': 'Add', 'Sub': 'Sub', 'Mul': 'Mul', 'Shl': 'Shl', 'Shr': 'Shr'}.get(tr)
    if op is None or ty not in INT_BITS:
        return None
    tys = info['term'].get('arg_tys') or ['', '']
    vals = []
    for a, aty in zip(args, tys):
        vals.append(_deref_arg(eng, st, a) if aty.startswith('&') else a)
    return [(st, binop(op, vals[0], vals[1], ty))]


PATTERN_MODELS = [
    (re.compile(r'^<&?(u8|u16|u32|u64|usize|i8|i16|i32|i64|isize) as std::ops::(BitOr|BitAnd|BitXor|Add|Sub|Mul|Shl|Shr)<&?\w+>>::\w+$'), m_prim_ref_op),
    (re.compile(r'^core::slice::<impl \[T\]>::get(::<.*>)?$'), m_slice_get),
    (re.compile(r'^core::slice::<impl \[T\]>::contains$'), m_slice_contains),
    (re.compile(r'^core::str::<impl str>::chars$'), m_str_chars),
    (re.compile(r"^<std::str::Chars<'\w+> as std::iter::Iterator>::next$"), m_chars_next),
    (re.compile(r"^(std::iter::Iterator::nth|<std::str::Chars<'\w+> as std::iter::Iterator>::nth)$"), m_iter_nth),
    (re.compile(r'^core::num::<impl u8>::to_ascii_lowercase$'), m_ascii_case(True)),
    (re.compile(r'^core::num::<impl u8>::to_ascii_uppercase$'), m_ascii_case(False)),
    (re.compile(r'^core::num::<impl \w+>::trailing_zeros$'), m_int_method('trailing_zeros')),
    (re.compile(r'^core::num::<impl \w+>::count_ones$'), m_int_method('count_ones')),
    (re.compile(r'^core::num::<impl \w+>::leading_zeros$'), m_int_method('leading_zeros')),
    (re.compile(r'^core::num::<impl \w+>::wrapping_add$'), m_int_method('wrapping_add')),
    (re.compile(r'^core::num::<impl \w+>::wrapping_sub$'), m_int_method('wrapping_sub')),
    (re.compile(r'^core::num::<impl \w+>::wrapping_mul$'), m_int_method('wrapping_mul')),
    (re.compile(r'^core::num::<impl u\w+>::div_ceil$'), m_int_method('div_ceil')),
    (re.compile(r'^core::num::<impl u\w+>::checked_sub$'), m_int_method('checked_sub')),
    (re.compile(r'^core::num::<impl u\w+>::saturating_sub$'), m_int_method('saturating_sub')),
    (re.compile(r'^std::clone::impls::<impl std::clone::Clone for \w+>::clone$'), m_clone),
    (re.compile(r'^<\w+ as std::convert::From<\w+>>::from$'), m_from_into),
    (re.compile(r'^std::convert::num::<impl std::convert::From<\w+> for \w+>::from$'), m_from_into),
]

READONLY_FNS = {
    '<std::vec::Vec<T, A> as std::ops::Deref>::deref',
    '<smallvec::SmallVec<A> as std::ops::Deref>::deref',
    'core::slice::<impl [T]>::last',
    'core::slice::<impl [T]>::iter',
    'core::slice::<impl [T]>::len',
    'std::vec::Vec::<T, A>::len',
    'smallvec::SmallVec::<A>::len',
    'smallvec::SmallVec::<A>::is_empty',
    'std::vec::Vec::<T, A>::is_empty',
    'core::slice::<impl [T]>::is_empty',
    'chess::board::piece_set::PieceSet::get',
}

PURE_FNS = {
    '<std::sync::Arc<T, A> as std::ops::Deref>::deref',
    'core::str::traits::<impl std::cmp::PartialEq for str>::eq',
}
PURE_PATTERNS = []


# ---- pretty printing --------------------------------------------------------------------------------
def show(t, depth=0):
    if t is None:
        return 'None'
    if not isinstance(t, tuple):
        return repr(t)
    if depth > 12:
        return '...'
    k = t[0]
    d = depth + 1
    if k == 'c':
        v = t[1]
        if isinstance(v, int) and not isinstance(v, bool) and v > 255:
            return hex(v)
        return repr(v)
    if k == 'p':
        return 'arg%d' % t[1]
    if k == 'der':
        return '*' + show(t[1], d)
    if k == 'fld':
        return '%s.%s' % (show(t[1], d), t[2])
    if k == 'idx':
        return '%s[%s]' % (show(t[1], d), show(t[2], d))
    if k == 'ref':
        return '&' + show(t[1], d)
    if k == 'L':
        return 'local(%d:%d)' % (t[1], t[2])
    if k == 'K':
        return show(t[1], d)
    if k == 'call':
        n = t[1].split('::')[-1] if not t[1].startswith('<') else t[1]
        tag = ''
        if isinstance(t[3], int):
            tag = '#%d' % t[3]
        elif isinstance(t[3], tuple):
            tag = '@%d' % t[3][1]
        return '%s%s(%s)' % (n, tag, ', '.join(show(a, d) for a in t[2]))
    if k == 'bin':
        return '(%s %s %s)' % (show(t[2], d), t[1], show(t[3], d))
    if k == 'un':
        return '%s(%s)' % (t[1], show(t[2], d))
    if k == 'cast':
        return '(%s as %s)' % (show(t[1], d), t[2])
    if k == 'discr':
        return 'discr(%s)' % show(t[1], d)
    if k == 'eqc':
        return '(%s == %r)' % (show(t[1], d), t[2])
    if k == 'eq':
        return '(%s == %s)' % (show(t[1], d), show(t[2], d))
    if k == 'and':
        return '(' + ' && '.join(show(x, d) for x in t[1:]) + ')'
    if k == 'agg':
        if t[1] == 'tuple':
            return '(' + ', '.join(show(x, d) for _, x in t[4]) + ')'
        if t[1] == 'array':
            if len(t[4]) > 8:
                return '[%s, ... %d items]' % (show(t[4][0][1], d), len(t[4]))
            return '[' + ', '.join(show(x, d) for _, x in t[4]) + ']'
        if t[1] == 'closure':
            return 'closure<%s>(%s)' % (t[2].split('::')[-2] + '::' + t[2].split('::')[-1], ', '.join(show(x, d) for _, x in t[4]))
        name = t[2].split('::')[-1]
        if t[3] and t[3] != name:
            name += '::' + t[3]
        if not t[4]:
            return name
        return '%s(%s)' % (name, ', '.join(show(x, d) for _, x in t[4]))
    if k == 'named':
        return t[1].split('::')[-1]
    if k == 'concat':
        return ' ++ '.join(show(x, d) for x in t[1])
    if k == 'disp':
        return '{%s}' % show(t[1], d)
    if k == 'lv':
        if isinstance(t[1], tuple):
            return 'loopvar(%s%s,%s)' % (t[1][0], t[1][1], t[2] if isinstance(t[2], str) else '_%d' % t[2])
        return 'loopvar(bb%d,_%d)' % (t[1], t[2])
    if k == 'hv':
        return 'havoc#%d' % t[1]
    if k == 'elem':
        return 'elem#%d' % t[1]
    if k == 'pos':
        return 'pos#%d' % t[1]
    if k == 'fnitem':
        return 'fn ' + t[1]
    if k == 'apply':
        return 'apply(%s; %s)' % (show(t[1], d), ', '.join(show(a, d) for a in t[2]))
    return '<' + ' '.join(str(x) if not isinstance(x, tuple) else show(x, d) for x in t) + '>'


def show_cond(c):
    a, v = c
    if isinstance(v, tuple) and v and v[0] == 'not':
        return '%s not in %s' % (show(a), list(v[1]))
    return '%s == %r' % (show(a), v)


def subterms(t):
    """yield every sub-term (pre-order)"""
    if not isinstance(t, tuple):
        return
    yield t
    for x in t[1:]:
        if isinstance(x, tuple):
            if x and isinstance(x[0], str):
                yield from subterms(x)
            else:
                for y in x:
                    if isinstance(y, tuple):
                        if len(y) == 2 and isinstance(y[0], str) and isinstance(y[1], tuple):
                            yield from subterms(y[1])
                        else:
                            yield from subterms(y)


def mentions(t, pred):
    return any(pred(s) for s in subterms(t))
