"""Thorough tier: quick rules + (1) the same rules on a second extraction with release semantics (overflow checks
off, debug assertions off: path shapes must hold in both profiles), (2) a second random draw of the build-time
tables (forced re-extraction) for the table rules, (3) the property's self-test mutants (each must fire its rule)
and the benign edits (must stay silent), (4) the compile-fail witness crate (C05/C12)."""
import importlib
import os
import re
import shutil
import subprocess
import sys
import time

from . import extract, report
from .facts import Facts, AnchorMissing

VERIF = os.path.dirname(os.path.dirname(os.path.abspath(__file__)))
TABLE_PROPS = {'C05', 'C11'}
WITNESS_PROPS = {'C05', 'C12'}


def run_rules_on(prop, repo, profile, force, ctx, label):
    mod = importlib.import_module('rules.' + prop.lower())
    fdir, info = extract.facts_for(repo, profile=profile, force=force)
    facts = Facts(fdir)
    sub = report.Ctx(prop, 'thorough', facts, info, ctx.seed)
    sub.repo = repo
    try:
        mod.run(sub)
    except AnchorMissing as e:
        sub.anchor_missing(prop + '.anchor', str(e))
    n_bad = 0
    for v in sub.violations:
        v = dict(v)
        v['key'] = v['key']          # same key: the finding is the same construct, seen in another profile / draw
        v['why'] = '[%s] %s' % (label, v.get('why'))
        ctx.violations.append(v)
        n_bad += 1
    for rule, key, ok in sub.obligations:
        ctx.obligations.append((rule, key + ' [' + label + ']', ok))
    ctx.extra.setdefault('thorough', {})[label] = {'obligations': len(sub.obligations), 'violations': n_bad, 'tree_hash': info.get('tree_hash'),
                                                   'extraction_ran': info.get('extraction_ran')}
    return sub


def selftest(prop, ctx):
    from selftest import mutants as M
    from selftest import run_patch as R
    fired = total = skipped = 0
    missed = []
    for m in M.MUTANTS:
        if m['prop'] != prop:
            continue
        d = R.make_scratch()
        try:
            try:
                R.apply_mutant(d, m)
            except SystemExit:
                skipped += 1          # the tree under analysis no longer contains the anchor text (e.g. it was edited)
                continue
            total += 1
            res = R.run_checks(d, [prop])
            code, keys = res[prop]
            if code == 1 and any(m['expect'] in k for k in keys):
                fired += 1
            else:
                missed.append(m['id'])
        finally:
            R.cleanup(d)
    silent = btotal = 0
    alarms = []
    for m in M.BENIGN:
        d = R.make_scratch()
        try:
            try:
                R.apply_mutant(d, m)
            except SystemExit:
                continue
            btotal += 1
            res = R.run_checks(d, [prop])
            code, keys = res[prop]
            # the benign edit is applied on top of the tree under analysis: only NEW keys count as a false alarm
            base = {v['key'] for v in ctx.violations}
            new = [k for k in keys if not any(k.split(' | ')[-1] in b for b in base)]
            if code == 0 or not new:
                silent += 1
            else:
                alarms.append((m['id'], new[:2]))
        finally:
            R.cleanup(d)
    # independently seeded changes for this property (must be caught) and refactorings that once raised a false alarm here (must be silent)
    import json as _json
    import glob as _glob
    seeded_caught = seeded_total = 0
    for f in sorted(_glob.glob(os.path.join(VERIF, 'seeded', prop + '*', 'patch.diff'))):
        d = R.make_scratch()
        try:
            r = subprocess.run(['git', 'apply', '--unsafe-paths', '--directory', d, f], cwd='/', stdout=subprocess.PIPE, stderr=subprocess.STDOUT)
            if r.returncode != 0:
                continue            # the tree under analysis has diverged from the tree the patch was written for
            seeded_total += 1
            code, keys = R.run_checks(d, [prop])[prop]
            if code == 1:
                seeded_caught += 1
            else:
                missed.append('seeded/' + os.path.basename(os.path.dirname(f)))
        finally:
            R.cleanup(d)
    reg = {}
    try:
        reg = _json.load(open(os.path.join(VERIF, 'selftest', 'regression_benign.json')))
    except Exception:
        pass
    for name in reg.get(prop, []):
        f = os.path.join(VERIF, 'benign_diffs', name)
        d = R.make_scratch()
        try:
            r = subprocess.run(['git', 'apply', '--unsafe-paths', '--directory', d, f], cwd='/', stdout=subprocess.PIPE, stderr=subprocess.STDOUT)
            if r.returncode != 0:
                continue
            btotal += 1
            code, keys = R.run_checks(d, [prop])[prop]
            base = {v['key'] for v in ctx.violations}
            new = [k for k in keys if not any(k.split(' | ')[-1] in b for b in base)]
            if code == 0 or not new:
                silent += 1
            else:
                alarms.append((name, new[:2]))
        finally:
            R.cleanup(d)
    ctx.extra.setdefault('thorough', {})['seeded'] = {'caught': seeded_caught, 'total': seeded_total}
    ctx.extra.setdefault('thorough', {})['selftest'] = {'mutants_fired': fired, 'mutants_total': total, 'mutants_skipped': skipped, 'missed': missed,
                                                        'benign_silent': silent, 'benign_total': btotal, 'false_alarms': alarms}
    for mid in missed:
        ctx.violation(prop + '.selftest', 'selftest/mutants.py', 'mutant %s not detected' % mid, found='check stayed silent', expected='rule fires',
                      why='the machinery no longer detects a change it is known to have detected: the check is broken (fail closed)')
    for mid, keys in alarms:
        ctx.violation(prop + '.selftest', 'selftest/mutants.py', 'benign edit %s raised an alarm' % mid, found=keys, expected='silent',
                      why='a behaviour-preserving edit must not fire')


def witness(prop, repo, ctx):
    src = os.path.join(VERIF, 'witness')
    work = os.path.join(extract.CACHE, 'witness-work')
    shutil.rmtree(work, ignore_errors=True)
    shutil.copytree(src, work, ignore=shutil.ignore_patterns('target'))
    with open(os.path.join(work, 'Cargo.toml')) as f:
        t = f.read()
    t = t.replace('/repo/common', os.path.join(repo, 'common')).replace('path = "/repo"', 'path = "%s"' % repo)
    with open(os.path.join(work, 'Cargo.toml'), 'w') as f:
        f.write(t)
    lock = os.path.join(repo, 'Cargo.lock')
    if os.path.exists(lock):
        shutil.copy(lock, os.path.join(work, 'Cargo.lock'))
    env = dict(os.environ, CARGO_NET_OFFLINE='true', CARGO_TARGET_DIR=os.path.join(extract.CACHE, 'witness-target'),
               CARGO_PROFILE_DEV_BUILD_OVERRIDE_OPT_LEVEL='3')
    r = subprocess.run(['cargo', '+nightly', 'test', '--doc', '--offline'], cwd=work, env=env, stdout=subprocess.PIPE, stderr=subprocess.STDOUT,
                       text=True, timeout=3000)
    m = re.search(r'test result: (\w+)\. (\d+) passed; (\d+) failed', r.stdout)
    passed = int(m.group(2)) if m else 0
    failed = int(m.group(3)) if m else -1
    failing = re.findall(r'^test (.*) \.\.\. FAILED', r.stdout, re.M)
    ctx.extra.setdefault('thorough', {})['witness_doctests'] = {'passed': passed, 'failed': failed, 'failing': failing[:5]}
    ok = m is not None and failed == 0 and passed >= 12
    ctx.ob(prop + '.witness', 'witness/src/lib.rs', 'compile-fail witnesses and their compiling twins (%d doc-tests)' % passed, ok,
           found={'passed': passed, 'failed': failed, 'failing': failing[:3], 'tail': r.stdout[-300:] if not ok else ''},
           expected='all pass: external code cannot reach private board state',
           why='if a witness starts compiling, code outside the crate can change placement or stacks without the key')


def run(prop, repo, ctx):
    t0 = time.time()
    run_rules_on(prop, repo, 'release', False, ctx, 'release-profile')
    if prop in TABLE_PROPS:
        run_rules_on(prop, repo, 'debug', True, ctx, 'second-draw')
    if prop in WITNESS_PROPS:
        witness(prop, repo, ctx)
    selftest(prop, ctx)
    ctx.extra['thorough']['wall_s'] = round(time.time() - t0, 1)
