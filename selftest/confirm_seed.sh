#!/bin/sh
# confirm_seed.sh <worktree> <id>: re-verify a sub-agent's seeded change independently, then keep it under /verif/seeded/<id>/
#  (1) patch applies to a clean checkout, (2) the 90-test suite passes with it, (3) the demo fails with it, (4) the demo passes without it.
set -u
WT=$1; ID=$2
LOW=$(echo "$ID" | tr 'A-Z' 'a-z')
OUT=/verif/seeded/$ID
mkdir -p "$OUT"
export CARGO_NET_OFFLINE=true CARGO_TARGET_DIR=$WT/target CARGO_PROFILE_DEV_BUILD_OVERRIDE_OPT_LEVEL=3
cd "$WT" || exit 2
DEMO=$(ls tests/demo_*.rs | head -1)
REL=""
grep -q -- "--release" seed/meta.json 2>/dev/null && REL="--release"
git checkout -q -- .        # source change away (untracked demo + seed stay); no `git stash`: it is shared between worktrees
git apply --check seed/patch.diff && echo "patch applies: yes" > "$OUT/confirm.log" || echo "patch applies: NO" > "$OUT/confirm.log"
# without the change: demo must pass (generated tables of a patched build must not be reused)
rm -rf "$WT/target/debug/build/chess-"* "$WT/target/release/build/chess-"* 2>/dev/null
cargo test $REL --offline --test "$(basename "$DEMO" .rs)" > "$OUT/demo_without.log" 2>&1
W=$(grep -E "^test result" "$OUT/demo_without.log" | tail -1)
echo "demo without patch: $W" >> "$OUT/confirm.log"
git checkout -q -- .
git apply seed/patch.diff
rm -rf "$WT/target/debug/build/chess-"* "$WT/target/release/build/chess-"* 2>/dev/null
mv "$DEMO" /tmp/$LOW.demo.rs.aside
cargo test --workspace --no-fail-fast --offline > "$OUT/suite_with.log" 2>&1
S=$(grep -E "^test result" "$OUT/suite_with.log" | head -1)
echo "suite with patch: $S" >> "$OUT/confirm.log"
mv /tmp/$LOW.demo.rs.aside "$DEMO"
cargo test $REL --offline --test "$(basename "$DEMO" .rs)" > "$OUT/demo_with.log" 2>&1
D=$(grep -E "^test result" "$OUT/demo_with.log" | tail -1)
echo "demo with patch: $D" >> "$OUT/confirm.log"
cp seed/patch.diff "$OUT/patch.diff"; cp "$DEMO" "$OUT/demo.rs"; cp seed/meta.json "$OUT/agent_meta.json"
tail -c 1500 "$OUT/demo_with.log" > "$OUT/demo_with.tail"; rm -f "$OUT/demo_with.log" "$OUT/demo_without.log"
grep -E "^test result|FAILED|error" "$OUT/suite_with.log" | head -5 > "$OUT/suite_with.tail"; rm -f "$OUT/suite_with.log"
cat "$OUT/confirm.log"
