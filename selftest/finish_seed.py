#!/usr/bin/env python3
"""finish_seed.py ID...: run all 19 checks on seeded/<ID>/patch.diff (scratch copy) and write seeded/<ID>/meta.json"""
import json
import os
import subprocess
import sys

HERE = os.path.dirname(os.path.abspath(__file__))
VERIF = os.path.dirname(HERE)
sys.path.insert(0, VERIF)
from selftest import run_patch as R   # noqa: E402

for sid in sys.argv[1:]:
    d = os.path.join(VERIF, 'seeded', sid)
    agent = {}
    if os.path.exists(os.path.join(d, 'agent_meta.json')):
        try:
            agent = json.load(open(os.path.join(d, 'agent_meta.json')))
        except Exception:
            agent = {}
    confirm = open(os.path.join(d, 'confirm.log')).read().strip().splitlines() if os.path.exists(os.path.join(d, 'confirm.log')) else []
    s = R.make_scratch()
    try:
        subprocess.check_call(['git', 'apply', '--unsafe-paths', '--directory', s, os.path.join(d, 'patch.diff')], cwd='/')
        res = R.run_checks(s, R.ALL)
    finally:
        R.cleanup(s)
    caught = {p: k for p, (c, k) in res.items() if c == 1}
    meta = {
        'id': sid,
        'property_broken': agent.get('property', sid[:3]),
        'summary': agent.get('summary'),
        'needs_to_manifest': agent.get('needs_to_manifest'),
        'files_changed': agent.get('files_changed'),
        'origin': 'written by a sub-agent that saw only the property text and a scratch worktree of /repo (nothing from /verif)',
        'confirmed_by_me': {'how': 'selftest/confirm_seed.sh in the scratch worktree: patch applies to a clean checkout; the 90-test suite with the patch; '
                                   'the demonstration with and without the patch', 'log': confirm},
        'demo': 'demo.rs (integration test: copy to /repo/tests/ of a scratch copy and run `cargo test --offline --test <name>`)',
        'checks_run': 'selftest/run_patch.py --diff seeded/%s/patch.diff (all 19 quick checks on a scratch copy of /repo with the patch applied)' % sid,
        'caught_by': caught,
        'target_property_caught': agent.get('property', sid[:3]) in caught,
    }
    json.dump(meta, open(os.path.join(d, 'meta.json'), 'w'), indent=1)
    print(sid, 'caught by', sorted(caught), 'target caught:', meta['target_property_caught'])
