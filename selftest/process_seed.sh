#!/bin/sh
# process_seed.sh <worktree-root> <Cnn> <suffix>: confirm the seeded change of /<root>/<Cnn>, store it as seeded/<Cnn><suffix>, run all checks on it
ROOT=$1; P=$2; S=$3
sh /verif/selftest/confirm_seed.sh $ROOT/$P $P$S > $ROOT/confirm_$P.log 2>&1
python3 /verif/selftest/finish_seed.py $P$S 2>&1 | grep -v WARN > $ROOT/finish_$P.log
echo "== $P$S"; tail -4 $ROOT/confirm_$P.log; cat $ROOT/finish_$P.log
