#!/usr/bin/env python3
"""Apply a patch (unified diff file, or a named mutant of mutants.py) to a scratch copy of /repo and run checks on it.

  run_patch.py --diff FILE [C01 C02 ...]        apply with `git apply`
  run_patch.py --mutant ID [C01 ...]            apply a string-replacement mutant from selftest/mutants.py
  run_patch.py --all-mutants | --all-benign     run the whole catalogue, print a table, exit 1 on a miss / false alarm
  run_patch.py --all-seeded [ids]               every seeded/<id>/patch.diff must be caught by the check of its own property
  run_patch.py --all-benign-diffs [files]       every benign_diffs/*.diff must leave all 19 checks silent

The scratch copy lives under $TMPDIR (default /tmp) and is removed afterwards together with its facts."""
import json
import os
import shutil
import subprocess
import sys
import tempfile

HERE = os.path.dirname(os.path.abspath(__file__))
VERIF = os.path.dirname(HERE)
sys.path.insert(0, VERIF)
ALL = ['C%02d' % i for i in range(1, 20)]


def make_scratch():
    d = tempfile.mkdtemp(prefix='chess_scratch_', dir=os.environ.get('TMPDIR', '/tmp'))
    # working tree of /repo (tracked files at HEAD + local modifications), without target/ and .git
    subprocess.check_call('cd /repo && git ls-files -z | xargs -0 cp --parents -t %s' % d, shell=True)
    return d


def apply_mutant(d, m):
    for edit in m['edits']:
        p = os.path.join(d, edit['file'])
        with open(p, encoding='utf-8') as f:
            t = f.read()
        if edit['old'] not in t:
            raise SystemExit('mutant %s: anchor text not found in %s' % (m['id'], edit['file']))
        t = t.replace(edit['old'], edit['new'], edit.get('count', 1))
        with open(p, 'w', encoding='utf-8') as f:
            f.write(t)


def run_checks(d, props, slot=None):
    res = {}
    env = dict(os.environ, VERIF_EVIDENCE_DIR=d + '.evidence')
    if slot is not None:
        env['VERIF_EXTRACT_SLOT'] = str(slot)
    for p in props:
        r = subprocess.run([os.path.join(VERIF, 'check'), p, '--repo', d], stdout=subprocess.PIPE, stderr=subprocess.STDOUT, text=True, env=env)
        keys = []
        lines = r.stdout.splitlines()
        for i, l in enumerate(lines):
            if l.startswith('VIOLATION'):
                rule = inst = cons = ''
                for l2 in lines[i + 1:i + 4]:
                    if l2.strip().startswith('rule:'):
                        rule = l2.split(':', 1)[1].strip()
                    if l2.strip().startswith('instance:'):
                        inst = l2.split(':', 1)[1].strip()
                    if l2.strip().startswith('construct:'):
                        cons = l2.split(':', 1)[1].strip().split(' (')[0]
                keys.append('%s | %s | %s' % (rule, cons.rsplit('::', 1)[-1], inst))
        if r.returncode != 0 and not keys:
            # non-zero exit without a VIOLATION line: not a verdict (interpreter / environment trouble in a parallel sweep) - keep the output, retry once
            with open(os.path.join(os.environ.get('TMPDIR', '/tmp'), 'run_patch_oddities.log'), 'a') as f_:
                f_.write('%s %s exit=%d\n%s\n' % (d, p, r.returncode, r.stdout[-1500:]))
            r = subprocess.run([os.path.join(VERIF, 'check'), p, '--repo', d], stdout=subprocess.PIPE, stderr=subprocess.STDOUT, text=True, env=env)
            keys = ['(second run) ' + l for l in r.stdout.splitlines() if l.startswith('VIOLATION')]
        res[p] = (r.returncode, keys)
    return res


def cleanup(d):
    from sa import extract
    try:
        th = extract.tree_hash(d, extract.driver_digest() + b'debug')
        shutil.rmtree(os.path.join(extract.CACHE, 'facts', th), ignore_errors=True)
    except Exception:
        pass
    shutil.rmtree(d, ignore_errors=True)
    shutil.rmtree(d + '.evidence', ignore_errors=True)


def parallel(jobs, fn, n):
    """run fn(job, slot) for every job on n worker slots; yields results in job order"""
    import concurrent.futures
    import queue
    slots = queue.Queue()
    for k in range(n):
        slots.put(k + 1)

    def wrapped(j):
        s = slots.get()
        try:
            return fn(j, s)
        finally:
            slots.put(s)
    with concurrent.futures.ThreadPoolExecutor(max_workers=n) as ex:
        for r in ex.map(wrapped, jobs):
            yield r


def main():
    args = sys.argv[1:]
    from selftest import mutants as M
    nj = 1
    if '-j' in args:
        i = args.index('-j')
        nj = int(args[i + 1])
        del args[i:i + 2]
    if args and args[0] in ('--all-mutants', '--all-benign'):
        cat = M.MUTANTS if args[0] == '--all-mutants' else M.BENIGN
        only = args[1:] or None
        bad = 0
        jobs = [m for m in cat if not (only and m['id'] not in only and m.get('prop') not in only)]

        def one(m, slot):
            d = make_scratch()
            try:
                apply_mutant(d, m)
                props = ALL if args[0] == '--all-benign' else [m['prop']] + m.get('also', [])
                return m, run_checks(d, props, slot if nj > 1 else None)
            finally:
                cleanup(d)
        for m, res in parallel(jobs, one, nj):
            if args[0] == '--all-mutants':
                code, keys = res[m['prop']]
                hit = code == 1 and any(m['expect'] in k for k in keys)
                print('%-28s %-4s %s  %s' % (m['id'], m['prop'], 'CAUGHT' if hit else 'MISSED', (keys[:2] if keys else '')))
                if not hit:
                    bad += 1
            else:
                alarms = {p: k for p, (c, k) in res.items() if c != 0}
                print('%-28s %s  %s' % (m['id'], 'SILENT' if not alarms else 'FALSE-ALARM', alarms if alarms else ''))
                if alarms:
                    bad += 1
        return 1 if bad else 0
    if args and args[0] in ('--all-seeded', '--all-benign-diffs'):
        # seeded/<id>/patch.diff must be caught by the check of its own property; benign_diffs/*.diff must leave all 19 silent
        seeded = args[0] == '--all-seeded'
        root = os.path.join(VERIF, 'seeded' if seeded else 'benign_diffs')
        only = args[1:] or None
        bad = 0
        items = sorted(os.listdir(root))
        jobs = []
        for it in items:
            f = os.path.join(root, it, 'patch.diff') if seeded else os.path.join(root, it)
            if not os.path.isfile(f) or not f.endswith('.diff'):
                continue
            if only and it not in only and it[:3] not in only:
                continue
            jobs.append((it, f))

        def one(job, slot):
            it, f = job
            d = make_scratch()
            try:
                subprocess.check_call(['git', 'apply', '--unsafe-paths', '--directory', d, f], cwd='/')
                return it, run_checks(d, [it[:3]] if seeded else ALL, slot if nj > 1 else None)
            finally:
                cleanup(d)
        for it, res in parallel(jobs, one, nj):
            if seeded:
                code, keys = res[it[:3]]
                print('%-10s %-4s %s  %s' % (it, it[:3], 'CAUGHT' if code == 1 else 'MISSED', keys[:2]))
                bad += code != 1
            else:
                alarms = {p_: k for p_, (c, k) in res.items() if c != 0}
                print('%-28s %s  %s' % (it, 'SILENT' if not alarms else 'FALSE-ALARM', alarms if alarms else ''))
                bad += bool(alarms)
        return 1 if bad else 0
    if args and args[0] == '--mutant':
        m = [x for x in M.MUTANTS + M.BENIGN if x['id'] == args[1]][0]
        props = args[2:] or ALL
        d = make_scratch()
        try:
            apply_mutant(d, m)
            res = run_checks(d, props)
        finally:
            cleanup(d)
    elif args and args[0] == '--diff':
        props = args[2:] or ALL
        d = make_scratch()
        try:
            subprocess.check_call(['git', 'apply', '--unsafe-paths', '--directory', d, os.path.abspath(args[1])], cwd='/')
            res = run_checks(d, props)
        finally:
            cleanup(d)
    else:
        print(__doc__)
        return 2
    for p, (code, keys) in res.items():
        print(p, 'exit=%d' % code, keys[:6])
    return 0


if __name__ == '__main__':
    sys.exit(main())
