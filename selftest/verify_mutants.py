#!/usr/bin/env python3
"""For every catalogue mutant: does the mutated tree still compile and keep the repository's 90 tests green?
(Run once when a mutant is added; results in selftest/mutant_test_status.json.)  usage: verify_mutants.py [ids...]"""
import json
import os
import re
import shutil
import subprocess
import sys

HERE = os.path.dirname(os.path.abspath(__file__))
sys.path.insert(0, os.path.dirname(HERE))
from selftest import mutants as M          # noqa: E402
from selftest.run_patch import make_scratch, apply_mutant   # noqa: E402

OUT = os.environ.get('MUTANT_STATUS_OUT', os.path.join(HERE, 'mutant_test_status.json'))
TARGET = os.environ.get('MUTANT_TARGET', '/tmp/mutant_verify_target')


def main():
    only = set(sys.argv[1:])
    status = {}
    if os.path.exists(OUT):
        status = json.load(open(OUT))
    for m in M.MUTANTS + M.BENIGN:
        if only and m['id'] not in only:
            continue
        if m['id'] in status and not only:
            continue
        d = make_scratch()
        try:
            apply_mutant(d, m)
            env = dict(os.environ, CARGO_NET_OFFLINE='true', CARGO_TARGET_DIR=TARGET, CARGO_PROFILE_DEV_BUILD_OVERRIDE_OPT_LEVEL='3')
            # the build script only regenerates missing files: drop its output so that precompile/book edits take effect
            for p in os.listdir(os.path.join(TARGET, 'debug', 'build')) if os.path.isdir(os.path.join(TARGET, 'debug', 'build')) else []:
                if p.startswith('chess-'):
                    shutil.rmtree(os.path.join(TARGET, 'debug', 'build', p), ignore_errors=True)
            r = subprocess.run(['cargo', 'test', '--workspace', '--no-fail-fast', '--offline'], cwd=d, env=env, stdout=subprocess.PIPE,
                               stderr=subprocess.STDOUT, text=True, timeout=1800)
            mm = re.search(r'test result: (\w+)\. (\d+) passed; (\d+) failed', r.stdout)
            compiled = 'error: could not compile' not in r.stdout and 'error[' not in r.stdout
            status[m['id']] = {'compiles': compiled, 'passed': int(mm.group(2)) if mm else None, 'failed': int(mm.group(3)) if mm else None,
                               'failing': re.findall(r'^test (\S+) \.\.\. FAILED', r.stdout, re.M)[:5]}
            print(m['id'], status[m['id']], flush=True)
        except Exception as e:
            status[m['id']] = {'error': str(e)[:200]}
        finally:
            shutil.rmtree(d, ignore_errors=True)
        json.dump(status, open(OUT, 'w'), indent=1)
    shutil.rmtree(TARGET, ignore_errors=True)


if __name__ == '__main__':
    main()
