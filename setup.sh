#!/bin/sh
# Builds the extractor and warms the dependency build; offline.
set -e
cd "$(dirname "$0")"
export CARGO_NET_OFFLINE=true
(cd extractor && cargo build --release --offline)
python3 sa/extract.py /repo
