#!/usr/bin/env python3
"""tools_append_explanation.py <rules module, e.g. c13> <text>: appends text to the module's EXPLANATION string (re-wrapped literal)."""
import ast
import sys
import textwrap

mod, text = sys.argv[1], sys.argv[2]
p = 'rules/%s.py' % mod
src = open(p).read()
tree = ast.parse(src)
for node in tree.body:
    if isinstance(node, ast.Assign) and any(isinstance(t, ast.Name) and t.id == 'EXPLANATION' for t in node.targets):
        val = ast.literal_eval(node.value)
        if text in val:
            print('already there')
            sys.exit(0)
        new = val.rstrip() + ' ' + text
        lines = textwrap.wrap(new, 130, break_long_words=False, drop_whitespace=False)
        body = '\n'.join('    ' + repr(l) for l in lines)
        repl = 'EXPLANATION = (\n' + body + '\n)'
        sl = src.split('\n')
        sl[node.lineno - 1:node.end_lineno] = repl.split('\n')
        open(p, 'w').write('\n'.join(sl))
        assert ast.literal_eval(ast.parse(open(p).read()).body[[i for i, n in enumerate(tree.body) if n is node][0]].value) == new
        print('ok', len(new))
        break
