#!/usr/bin/env python3
"""Writes rules/anchor_baseline.json from the facts of the CURRENT /repo tree: for every function of the analysed crates its signature key
(multiset of parameter types + return type) and its callee multiset, for every struct / enum its field names and types in declaration order.
The analysis uses it to recognise a function or field that was merely RENAMED or MOVED (see sa/facts.py: alias layer).  Regenerate only
from a tree on which all checks pass (the names in it are the names the rules are written against)."""
import json
import os
import sys

HERE = os.path.dirname(os.path.abspath(__file__))
sys.path.insert(0, HERE)
from sa import extract            # noqa: E402
from sa.facts import FILES, fn_sigkey, fn_callees, const_digest    # noqa: E402

fdir, info = extract.facts_for('/repo')
out = {'fns': {}, 'adts': {}, 'consts': {}, 'tree_hash': info.get('tree_hash')}
for fname in FILES:
    raw = json.load(open(os.path.join(fdir, fname)))
    if raw['kind'] in ('bin', 'build'):
        continue
    for fr in raw['fns']:
        if fr['kind'] == 'Closure' or fr.get('derived'):
            continue
        out['fns'][fr['pretty']] = {'sig': fn_sigkey(fr), 'callees': fn_callees(fr), 'crate': raw['crate'],
                                   'params': [(l['ty'], l.get('name')) for l in fr['locals'][1:fr['arg_count'] + 1]]}
    for a in raw['adts']:
        out['adts'][a['path']] = [[(f['name'], f['ty']) for f in v['fields']] for v in a['variants']]
    for c in raw['consts']:
        out['consts'][c['path']] = [c['ty'], const_digest(c['value'])]
json.dump(out, open(os.path.join(HERE, 'rules', 'anchor_baseline.json'), 'w'), indent=0, sort_keys=True)
print(len(out['fns']), 'functions,', len(out['adts']), 'types')
