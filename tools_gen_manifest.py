#!/usr/bin/env python3
"""Regenerates MANIFEST.json from rules/*.py metadata (MANIFEST_ENTRY dicts)."""
import importlib
import json
import os
import sys

HERE = os.path.dirname(os.path.abspath(__file__))
sys.path.insert(0, HERE)
props = [json.loads(l) for l in open(os.path.join(HERE, 'properties.jsonl'))]
checks = []
na = []
for p in props:
    pid = p['id']
    try:
        mod = importlib.import_module('rules.' + pid.lower())
    except ModuleNotFoundError:
        na.append({"property_id": pid, "reason": "check not built yet in this round (static clauses designed in DESIGN.md §4)"})
        continue
    m = getattr(mod, 'MANIFEST', {})
    checks.append({
        "property_id": pid,
        "quick_cmd": "./check %s --tier quick" % pid,
        "thorough_cmd": "./check %s --tier thorough" % pid,
        "evidence_file": "/verif/evidence/%s.json" % pid,
        "replay_cmd_template": "./check %s --explain {path}" % pid,
        "engine": "chesslint",
        "level_claimed": {
            "category": "other",
            "text": m.get('text', mod.EXPLANATION),
            "design_ref": "DESIGN.md §4 " + pid,
        },
        "level_note": m.get('note', "Structural necessary conditions are decided; the behaviour itself is not. Trusted base: rustc MIR construction and const evaluation, the chessfacts extractor, the python path enumerator (no solver), the oracle tables written from the FIDE laws. " + " ".join(mod.ASSUMPTIONS)),
        "technique": m.get('technique', "static analysis: path enumeration and term reconstruction over rustc MIR (custom rustc_private driver), rule tables vs oracle"),
    })
man = {
    "version": 1,
    "setup_cmd": "./setup.sh",
    "hooks": {
        "guard": "codyjk_chess_verif",
        "enable": "no hooks are needed: the analysis reads MIR of private items through the rustc_private driver (RUSTC_WRAPPER=/verif/extractor/target/release/chessfacts cargo +nightly check)",
        "baseline_off_cmd": "cd /repo && cargo test --workspace --no-fail-fast --offline",
        "source_commits": [],
        "add_only": True,
    },
    "engines": [{
        "name": "chesslint",
        "path": "/verif/check",
        "serves_properties": [c["property_id"] for c in checks],
        "kind_free_text": "custom static analyser: rustc_private MIR/const extractor (extractor/) + python path-enumeration / term / CFG analyses (sa/) + per-property rule modules (rules/) compared with oracle tables (oracle/)",
    }],
    "checks": checks,
    "not_applicable": na,
    "notes": "All claims are clause claims at level 'other': structural necessary conditions of each property decided from the source of /repo's current tree; see DESIGN.md §4/§7 for what is not decided.",
}
json.dump(man, open(os.path.join(HERE, 'MANIFEST.json'), 'w'), indent=1)
print("checks:", [c["property_id"] for c in checks], "n/a:", [n["property_id"] for n in na])
