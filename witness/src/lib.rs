//! Compile-fail witnesses (type-level remainder of C05.R4 / C12.R3): code outside the `chess` crate cannot
//! reach the state the position key and the representation invariants depend on except through `Board`'s
//! own methods.  Every `compile_fail` block is paired with a compiling twin that differs only in the
//! offending line, so a witness whose path is merely wrong cannot pass by accident.
//! Run with `cargo +nightly test --doc` (error codes are only checked on nightly).

/// The piece sets are private fields of `Board`.
/// ```compile_fail,E0616
/// let mut board = chess::board::Board::new();
/// let _w = &mut board.white;          // private field
/// ```
/// twin:
/// ```no_run
/// let mut board = chess::board::Board::new();
/// let _w = board.pieces(chess::board::color::Color::White);
/// ```
pub struct PrivateFields;

/// `Board::pieces` hands out a shared reference only: `PieceSet::put` needs `&mut`.
/// ```compile_fail,E0596
/// use common::bitboard::square::E4;
/// let board = chess::board::Board::new();
/// let set = board.pieces(chess::board::color::Color::White);
/// let _ = set.put(E4, chess::board::piece::Piece::Pawn);   // cannot borrow `*set` as mutable
/// ```
/// twin:
/// ```no_run
/// use common::bitboard::square::E4;
/// let board = chess::board::Board::new();
/// let set = board.pieces(chess::board::color::Color::White);
/// let _ = set.locate(chess::board::piece::Piece::Pawn).overlaps(E4);
/// ```
pub struct SharedPieceSet;

/// The modules holding the stacks and the key are private.
/// ```compile_fail,E0603
/// use chess::board::position_info::PositionInfo;   // private module
/// ```
/// ```compile_fail,E0603
/// use chess::board::move_info::MoveInfo;            // private module
/// ```
/// ```compile_fail,E0603
/// use chess::board::piece_set::PieceSet;            // private module
/// ```
/// twin:
/// ```no_run
/// use chess::board::Board;
/// let _ = Board::new().current_position_hash();
/// ```
pub struct PrivateModules;

/// Castle moves cannot be fabricated with arbitrary squares from outside.
/// ```compile_fail,E0624
/// use common::bitboard::square::{E1, H1};
/// let _m = chess::chess_move::castle::CastleChessMove::new(E1, H1);   // private associated function
/// ```
/// twin:
/// ```no_run
/// let _m = chess::chess_move::castle::CastleChessMove::castle_kingside(chess::board::color::Color::White);
/// ```
pub struct PrivateCastleConstructor;

/// The key itself cannot be assigned.
/// ```compile_fail,E0616
/// let mut board = chess::board::Board::new();
/// board.position_info.current_position_hash = 0;     // private field
/// ```
/// twin:
/// ```no_run
/// let board = chess::board::Board::new();
/// assert_eq!(board.current_position_hash(), 0);
/// ```
pub struct PrivateKey;
